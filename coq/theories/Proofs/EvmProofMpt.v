(** Proofs about Model/EvmProofMpt.v (C08): the Gallina transcription of go-ethereum's [trie.VerifyProof] is
    sound with respect to every node database that resolves the key -- or an explicit Keccak collision is
    exhibited.  Keccak is the only oracle; no assumption on it is made: the theorems end in
    "... \/ collision keccak256" where [collision] is a pair of DIFFERENT byte strings with the SAME hash. *)
From Teleport Require Import Base.Bytes Base.Outcome Model.EvmProof Model.EvmProofMpt Proofs.EvmProofRlp Proofs.EvmProof.
Local Open Scope N_scope.

Section Mpt.
  Variable keccak256 : bytes -> bytes.

  Notation find_node := (EvmProofMpt.find_node keccak256).
  Notation walk := (EvmProofMpt.walk keccak256).
  Notation mpt_verify_g := (EvmProofMpt.mpt_verify_g keccak256).

  (** an explicit collision: two different pre-images of one hash *)
  Definition collision : Prop := exists x y : bytes, x <> y /\ keccak256 x = keccak256 y.

  Lemma find_node_hash nodes want buf : find_node nodes want = Some buf -> keccak256 buf = want.
  Proof.
    induction nodes as [|n r IH]; cbn [EvmProofMpt.find_node]; [discriminate|].
    destruct (bytes_eqb (keccak256 n) want) eqn:E.
    - intro H. inversion H; subst. apply bytes_eqb_eq. exact E.
    - exact IH.
  Qed.

  Lemma find_node_in nodes want buf : find_node nodes want = Some buf -> In buf nodes.
  Proof.
    induction nodes as [|n r IH]; cbn [EvmProofMpt.find_node]; [discriminate|].
    destruct (bytes_eqb (keccak256 n) want).
    - intro H. inversion H; subst. left. reflexivity.
    - intro H. right. exact (IH H).
  Qed.

  (** the walk ended with an answer: a value, or "the trie does not contain the key" *)
  Definition definitive (r : wres) : Prop :=
    match r with WValue _ | WAbsent => True | _ => False end.

  (** Two node databases that both resolve [key] below [want] give the same answer, unless they contain two
      different nodes with the same hash. *)
  Lemma walk_agree nodes1 nodes2 : forall f1 f2 want key,
    definitive (walk nodes1 f1 want key) -> definitive (walk nodes2 f2 want key) ->
    walk nodes1 f1 want key = walk nodes2 f2 want key \/ collision.
  Proof.
    induction f1 as [|f1 IH]; intros f2 want key D1 D2; [contradiction|].
    destruct f2 as [|f2]; [contradiction|].
    cbn [EvmProofMpt.walk] in *.
    destruct (find_node nodes1 want) as [b1|] eqn:F1; [|contradiction].
    destruct (find_node nodes2 want) as [b2|] eqn:F2; [|contradiction].
    apply find_node_hash in F1, F2.
    destruct (bytes_eq_dec b1 b2) as [E|NE].
    - subst b2. destruct (decode_node b1) as [n|]; [|contradiction].
      destruct (get n key) as [|rest h|v|]; try (left; reflexivity).
      apply IH; assumption.
    - right. exists b1, b2. split; [exact NE | congruence].
  Qed.

  (** more rounds do not change an answer *)
  Lemma walk_fuel_mono nodes : forall f want key,
    definitive (walk nodes f want key) -> forall f', (f <= f')%nat -> walk nodes f' want key = walk nodes f want key.
  Proof.
    induction f as [|f IH]; intros want key D f' L; [contradiction|].
    destruct f' as [|f']; [lia|].
    cbn [EvmProofMpt.walk] in *.
    destruct (find_node nodes want) as [b|]; [|reflexivity].
    destruct (decode_node b) as [n|]; [|reflexivity].
    destruct (get n key) as [|rest h|v|]; try reflexivity.
    apply IH; [exact D | lia].
  Qed.

  (** ** What a root commits to *)

  (** the answer of a walk as a trie value: empty = nothing stored *)
  Definition answer (r : wres) : option bytes :=
    match r with WValue v => Some v | WAbsent => Some [] | _ => None end.

  (** [resolves nodes root key v]: the node database [nodes] (every node stored under its Keccak hash, as geth's
      trie database does) resolves [key] under [root] to [v] -- this is what geth's [Trie.TryGet] computes on a
      database holding the trie ([v = []]: not present). *)
  Definition resolves (nodes : list bytes) (root key v : bytes) : Prop :=
    exists fuel, answer (walk nodes fuel root (keybytes_to_hex key)) = Some v.

  (** [db_value root key ov]: some node database resolves [key] under [root], and what it finds is [ov] ([None]:
      not present).  Nothing is required of the database beyond resolving THIS key. *)
  Definition db_value (root key : bytes) (ov : option bytes) : Prop :=
    exists nodes v, resolves nodes root key v /\ ov = lookup_result v.

  (** [commits_db root m]: [m] is the content of the trie with root hash [root] in some node database that
      resolves every key.  (Read through [lookup_result] of Proofs/EvmProof.v: the empty value is "absent".) *)
  Definition commits_db (root : bytes) (m : bytes -> option bytes) : Prop :=
    exists nodes, forall key, exists v, resolves nodes root key v /\ m key = lookup_result v.

  Lemma commits_db_value root m key : commits_db root m -> db_value root key (m key).
  Proof. intros (nodes & C). destruct (C key) as (v & R & M). exists nodes, v. split; assumption. Qed.

  Lemma answer_definitive r v : answer r = Some v -> definitive r.
  Proof. destruct r; cbn; try discriminate; trivial. Qed.

  (** two databases resolving the same key under the same root find the same thing *)
  Theorem db_value_unique root key ov1 ov2 :
    db_value root key ov1 -> db_value root key ov2 -> ov1 = ov2 \/ collision.
  Proof.
    intros (w1 & v1 & (f1 & R1) & M1) (w2 & v2 & (f2 & R2) & M2).
    destruct (walk_agree w1 w2 f1 f2 root (keybytes_to_hex key)) as [E|C].
    - eapply answer_definitive; exact R1.
    - eapply answer_definitive; exact R2.
    - left. rewrite E in R1. rewrite R1 in R2. inversion R2; subst. reflexivity.
    - right. exact C.
  Qed.

  Lemma mpt_verify_g_resolves root key nodes v : mpt_verify_g root key nodes = Some v -> resolves nodes root key v.
  Proof.
    unfold EvmProofMpt.mpt_verify_g. intro V. exists (walk_fuel nodes key).
    destruct (walk nodes (walk_fuel nodes key) root (keybytes_to_hex key)); cbn; try discriminate; exact V.
  Qed.

  (** ** Soundness of the proof verifier: keccak is the only oracle *)
  Theorem mpt_verify_sound_at root key nodes v ov :
    mpt_verify_g root key nodes = Some v -> db_value root key ov ->
    ov = lookup_result v \/ collision.
  Proof.
    intros V D. apply mpt_verify_g_resolves in V.
    destruct (db_value_unique root key (lookup_result v) ov) as [E|C].
    - exists nodes, v. split; [exact V | reflexivity].
    - exact D.
    - left. symmetry. exact E.
    - right. exact C.
  Qed.

  Theorem mpt_verify_sound root key nodes v m :
    mpt_verify_g root key nodes = Some v -> commits_db root m ->
    m key = lookup_result v \/ collision.
  Proof. intros V C. eapply mpt_verify_sound_at; [exact V | apply commits_db_value; exact C]. Qed.

  (** a root commits to at most one map (or a collision is in hand) *)
  Theorem commits_db_unique root m1 m2 key :
    commits_db root m1 -> commits_db root m2 -> m1 key = m2 key \/ collision.
  Proof. intros C1 C2. eapply db_value_unique; apply commits_db_value; eassumption. Qed.

  (** ** Completeness: the world's own node database is a proof; so is every list of nodes in which each
      hash the walk asks for finds the node the world has *)
  Lemma walk_same_nodes world nodes : forall fuel want key,
    definitive (walk world fuel want key) ->
    (forall h b, find_node world h = Some b -> find_node nodes h = Some b \/ find_node nodes h = None) ->
    walk nodes fuel want key = walk world fuel want key \/
    exists h, find_node world h <> None /\ find_node nodes h = None.
  Proof.
    induction fuel as [|fuel IH]; intros want key D Sub; [contradiction|].
    cbn [EvmProofMpt.walk] in *.
    destruct (find_node world want) as [b|] eqn:F; [|contradiction].
    destruct (Sub _ _ F) as [F'|F'].
    - rewrite F'. destruct (decode_node b) as [n|]; [|contradiction].
      destruct (get n key) as [|rest h|v|]; try (left; reflexivity).
      apply IH; assumption.
    - right. exists want. split; [rewrite F; discriminate | exact F'].
  Qed.

  (** a list of nodes in which every hash the world's walk asks for finds the world's node (e.g. the nodes
      [Trie.Prove] collects, in any order, with any surplus) resolves the key to the same answer *)
  Theorem resolves_subproof world nodes root key v :
    resolves world root key v ->
    (forall h b, find_node world h = Some b -> find_node nodes h = Some b \/ find_node nodes h = None) ->
    resolves nodes root key v \/ exists h, find_node world h <> None /\ find_node nodes h = None.
  Proof.
    intros (fuel & R) Sub.
    destruct (walk_same_nodes world nodes fuel root (keybytes_to_hex key) (answer_definitive _ _ R) Sub) as [E|M].
    - left. exists fuel. rewrite E. exact R.
    - right. exact M.
  Qed.

  (** ** Completeness of [mpt_verify_g] and malleability of the node list *)

  (** a walk that answers within the round budget of [mpt_verify_g] is what [mpt_verify_g] returns (every walk of a
      real trie does: each round consumes a nibble, and the budget exceeds the number of nibbles) *)
  Lemma mpt_verify_g_of_walk root key nodes fuel v :
    answer (walk nodes fuel root (keybytes_to_hex key)) = Some v -> (fuel <= walk_fuel nodes key)%nat ->
    mpt_verify_g root key nodes = Some v.
  Proof.
    intros R L. unfold EvmProofMpt.mpt_verify_g.
    rewrite (walk_fuel_mono nodes fuel root (keybytes_to_hex key) (answer_definitive _ _ R) _ L).
    destruct (walk nodes fuel root (keybytes_to_hex key)); cbn in R; try discriminate; exact R.
  Qed.

  Lemma find_node_app a b h :
    find_node (a ++ b) h = match find_node a h with Some x => Some x | None => find_node b h end.
  Proof.
    induction a as [|n a IH]; cbn [app EvmProofMpt.find_node]; [reflexivity|].
    destruct (bytes_eqb (keccak256 n) h); [reflexivity | exact IH].
  Qed.

  (** surplus nodes appended to a list that already answers change nothing *)
  Lemma walk_app nodes extra : forall fuel want key,
    definitive (walk nodes fuel want key) -> walk (nodes ++ extra) fuel want key = walk nodes fuel want key.
  Proof.
    induction fuel as [|fuel IH]; intros want key D; [contradiction|].
    cbn [EvmProofMpt.walk] in *. rewrite find_node_app.
    destruct (find_node nodes want) as [b|]; [|contradiction].
    destruct (decode_node b) as [n|]; [|contradiction].
    destruct (get n key) as [|rest h|v|]; try reflexivity.
    apply IH. exact D.
  Qed.

  Lemma walk_fuel_app nodes extra key : (walk_fuel nodes key <= walk_fuel (nodes ++ extra) key)%nat.
  Proof. unfold walk_fuel. rewrite app_length. apply le_n_S. apply Nat.mul_le_mono_r. lia. Qed.

  (** "padded" proofs: whatever a node list proves, the list followed by ANY further nodes proves too *)
  Theorem mpt_verify_g_padded root key nodes extra v :
    mpt_verify_g root key nodes = Some v -> mpt_verify_g root key (nodes ++ extra) = Some v.
  Proof.
    intro V.
    assert (A : exists f, (f <= walk_fuel nodes key)%nat /\ answer (walk nodes f root (keybytes_to_hex key)) = Some v).
    { exists (walk_fuel nodes key). split; [lia|]. unfold EvmProofMpt.mpt_verify_g in V.
      destruct (walk nodes (walk_fuel nodes key) root (keybytes_to_hex key)); cbn; try discriminate; exact V. }
    destruct A as (f & L & R').
    apply (mpt_verify_g_of_walk root key (nodes ++ extra) f v).
    - rewrite walk_app by (eapply answer_definitive; exact R'). exact R'.
    - pose proof (walk_fuel_app nodes extra key). lia.
  Qed.

  (** ** The storage-proof verification of the light clients with the Gallina MPT verifier plugged in *)
  Section Verify.
    Variable json_proof : bytes -> option proof_rec.
    Notation verify := (EvmProof.verify keccak256 mpt_verify_g json_proof).
    Notation proof_key := (EvmProof.proof_key keccak256).

    (** under injectivity of the hash on everything (no collision at all) the premise [mpt_sound] of the
        theorems of Proofs/EvmProof.v holds for the Gallina verifier and [commits_db] *)
    Lemma mpt_sound_of_no_collision :
      ~ collision ->
      forall root key nodes v m, mpt_verify_g root key nodes = Some v -> commits_db root m -> m key = lookup_result v.
    Proof.
      intros NC root key nodes v m V C. destruct (mpt_verify_sound root key nodes v m V C) as [H|H]; [exact H | contradiction].
    Qed.

    (** Soundness without any premise on the trie library: accepted => gates, stored consensus root, and
        whatever ANY node database finds under that root at keccak(configured contract) is [rlp_account acct],
        and whatever any node database finds under [acct]'s storage root at the slot of exactly this path is a
        canonical RLP string whose left-padding to 32 bytes is exactly the value -- or a Keccak collision is
        exhibited. *)
    Theorem sound_mpt cs cstore oh op ack src dst seq c :
      verify cs cstore oh op ack src dst seq c = Ok tt ->
      exists h p, oh = Some h /\ op = Some p /\ gates cs h /\
        exists rootb acct,
          cstore (consensus_key h) = ConsRoot rootb /\
          account_wf acct /\ length (a_storage acct) = 32%nat /\ length (a_code acct) = 32%nat /\
          (forall oa, db_value (bytes_to_hash rootb) (keccak256 (cs_contract cs)) oa ->
                      oa = Some (rlp_account acct) \/ collision) /\
          (forall ov, db_value (a_storage acct) (keccak256 (proof_key ack src dst seq)) ov ->
                      (exists raw t, ov = Some raw /\ rlp_decode_bytes raw = Some t /\ left_pad32 t = c) \/ collision).
    Proof.
      intro V. apply verify_ok_iff in V. destruct V as (h & p & -> & -> & A).
      exists h, p. split; [reflexivity|]. split; [reflexivity|].
      destruct A as (r & rootb & sp & v & t & G & RV & J & S & D & AD & M1 & SP & K & M2 & C1 & C2).
      split.
      - specialize (RV eq_refl). split; [exact RV|]. split; [|exact D].
        apply height_lt_false in G. destruct G as [G|[G1 G2]]; [lia | exact G2].
      - destruct (account_of_record_wf r) as (W & L1 & L2).
        exists rootb, (account_of_record r). repeat (split; [assumption|]). split.
        + intros oa HW. destruct (mpt_verify_sound_at _ _ _ _ _ M1 HW) as [E|Cn]; [left | right; exact Cn].
          rewrite E. apply lookup_result_some, rlp_account_nonempty.
        + intros ov HS. destruct (mpt_verify_sound_at _ _ _ _ _ M2 HS) as [E|Cn]; [left | right; exact Cn].
          exists v, t. split; [|split; assumption].
          rewrite E. apply lookup_result_some. intro Ev; subst v. discriminate.
    Qed.

    (** End to end: whatever is accepted is what the storage of the contract account under the stored root holds. *)
    Theorem accepted_holds_at cs cstore h p ack src dst seq c rootb acct ov :
      verify cs cstore (Some h) (Some p) ack src dst seq c = Ok tt ->
      cstore (consensus_key h) = ConsRoot rootb ->
      db_value (bytes_to_hash rootb) (keccak256 (cs_contract cs)) (Some (rlp_account acct)) ->
      account_wf acct -> length (a_storage acct) = 32%nat -> length (a_code acct) = 32%nat ->
      db_value (a_storage acct) (keccak256 (proof_key ack src dst seq)) ov ->
      (exists raw t, ov = Some raw /\ rlp_decode_bytes raw = Some t /\ left_pad32 t = c) \/ collision.
    Proof.
      intros V S EW W LS LC CST.
      apply sound_mpt in V. destruct V as (h1 & q1 & E1 & _ & _ & rb & a & S' & W' & LS' & LC' & HW & HS).
      inversion E1; subst h1. rewrite S in S'. inversion S'; subst rb.
      destruct (HW _ EW) as [E|Cn]; [|right; exact Cn].
      inversion E as [E'].
      apply rlp_account_injective in E'; try assumption; try lia. subst a.
      exact (HS ov CST).
    Qed.

    Theorem accepted_holds_mpt cs cstore h p ack src dst seq c rootb world acct st :
      verify cs cstore (Some h) (Some p) ack src dst seq c = Ok tt ->
      cstore (consensus_key h) = ConsRoot rootb -> commits_db (bytes_to_hash rootb) world ->
      world (keccak256 (cs_contract cs)) = Some (rlp_account acct) ->
      account_wf acct -> length (a_storage acct) = 32%nat -> length (a_code acct) = 32%nat ->
      commits_db (a_storage acct) st ->
      (exists raw t, st (keccak256 (proof_key ack src dst seq)) = Some raw /\
                     rlp_decode_bytes raw = Some t /\ left_pad32 t = c) \/ collision.
    Proof.
      intros V S CW EW W LS LC CST.
      eapply accepted_holds_at; try eassumption.
      - rewrite <- EW. apply commits_db_value. exact CW.
      - apply commits_db_value. exact CST.
    Qed.

    (** a false claim (another value, an absent key, another contract's storage) is rejected -- or a collision
        is exhibited *)
    Theorem false_claim_rejected_at cs cstore h p ack src dst seq c rootb acct ov :
      cstore (consensus_key h) = ConsRoot rootb ->
      db_value (bytes_to_hash rootb) (keccak256 (cs_contract cs)) (Some (rlp_account acct)) ->
      account_wf acct -> length (a_storage acct) = 32%nat -> length (a_code acct) = 32%nat ->
      db_value (a_storage acct) (keccak256 (proof_key ack src dst seq)) ov ->
      match ov with
      | None => True
      | Some raw => forall t, rlp_decode_bytes raw = Some t -> left_pad32 t <> c
      end ->
      verify cs cstore (Some h) (Some p) ack src dst seq c <> Ok tt \/ collision.
    Proof.
      intros S EW W LS LC CST NV.
      destruct (verify cs cstore (Some h) (Some p) ack src dst seq c) as [[]| |] eqn:V;
        try (left; discriminate).
      destruct (accepted_holds_at _ _ _ _ _ _ _ _ _ _ _ _ V S EW W LS LC CST) as [(raw & t & R & D & P)|Cn];
        [|right; exact Cn].
      subst ov. exfalso. exact (NV t D P).
    Qed.

    Theorem false_claim_rejected_mpt cs cstore h p ack src dst seq c rootb world acct st :
      cstore (consensus_key h) = ConsRoot rootb -> commits_db (bytes_to_hash rootb) world ->
      world (keccak256 (cs_contract cs)) = Some (rlp_account acct) ->
      account_wf acct -> length (a_storage acct) = 32%nat -> length (a_code acct) = 32%nat ->
      commits_db (a_storage acct) st ->
      match st (keccak256 (proof_key ack src dst seq)) with
      | None => True
      | Some raw => forall t, rlp_decode_bytes raw = Some t -> left_pad32 t <> c
      end ->
      verify cs cstore (Some h) (Some p) ack src dst seq c <> Ok tt \/ collision.
    Proof.
      intros S CW EW W LS LC CST NV.
      apply (false_claim_rejected_at cs cstore h p ack src dst seq c rootb acct (st (keccak256 (proof_key ack src dst seq))));
        try assumption.
      - rewrite <- EW. apply commits_db_value. exact CW.
      - apply commits_db_value. exact CST.
    Qed.

    (** no account at the configured address under the stored root: rejected (or a collision) *)
    Theorem missing_account_rejected_at cs cstore h p ack src dst seq c rootb :
      cstore (consensus_key h) = ConsRoot rootb ->
      db_value (bytes_to_hash rootb) (keccak256 (cs_contract cs)) None ->
      verify cs cstore (Some h) (Some p) ack src dst seq c <> Ok tt \/ collision.
    Proof.
      intros S EW.
      destruct (verify cs cstore (Some h) (Some p) ack src dst seq c) as [[]| |] eqn:V;
        try (left; discriminate).
      apply sound_mpt in V. destruct V as (h1 & q1 & E1 & _ & _ & rb & a & S' & _ & _ & _ & HW & _).
      inversion E1; subst h1. rewrite S in S'. inversion S'; subst rb.
      destruct (HW _ EW) as [E|Cn]; [discriminate | right; exact Cn].
    Qed.

    Theorem missing_account_rejected_mpt cs cstore h p ack src dst seq c rootb world :
      cstore (consensus_key h) = ConsRoot rootb -> commits_db (bytes_to_hash rootb) world ->
      world (keccak256 (cs_contract cs)) = None ->
      verify cs cstore (Some h) (Some p) ack src dst seq c <> Ok tt \/ collision.
    Proof.
      intros S CW EW. eapply missing_account_rejected_at; [exact S|].
      rewrite <- EW. apply commits_db_value. exact CW.
    Qed.

    (** two accepted proofs for the same client state, store, height and path carry the same value
        (all mutations of the proof at once) -- or a collision is exhibited.  No world is needed: the two
        proofs are each other's witness databases. *)
    Theorem accepted_value_unique_mpt cs cstore h p1 p2 ack src dst seq c1 c2 :
      verify cs cstore (Some h) (Some p1) ack src dst seq c1 = Ok tt ->
      verify cs cstore (Some h) (Some p2) ack src dst seq c2 = Ok tt ->
      c1 = c2 \/ collision.
    Proof.
      intros V1 V2.
      apply verify_ok_iff in V1. destruct V1 as (h1 & q1 & E1 & F1 & r1 & rb1 & sp1 & v1 & t1 & _ & _ & _ & S1 & _ & _ & M11 & _ & _ & M12 & C11 & C12).
      apply verify_ok_iff in V2. destruct V2 as (h2 & q2 & E2 & F2 & r2 & rb2 & sp2 & v2 & t2 & _ & _ & _ & S2 & _ & _ & M21 & _ & _ & M22 & C21 & C22).
      inversion E1; subst h1. inversion E2; subst h2. rewrite S1 in S2. inversion S2; subst rb2.
      (* same account *)
      destruct (mpt_verify_sound_at _ _ _ _ (lookup_result (rlp_account (account_of_record r2))) M11) as [EA|Cn].
      { exists (map from_hex (p_account_proof r2)), (rlp_account (account_of_record r2)).
        split; [apply mpt_verify_g_resolves; exact M21 | reflexivity]. }
      2:{ right; exact Cn. }
      rewrite !lookup_result_some in EA by apply rlp_account_nonempty. inversion EA as [EA'].
      destruct (account_of_record_wf r1) as (W1 & L11 & L12). destruct (account_of_record_wf r2) as (W2 & L21 & L22).
      apply rlp_account_injective in EA'; try assumption; try lia.
      (* same storage value *)
      rewrite <- EA' in M12.
      destruct (mpt_verify_sound_at _ _ _ _ (lookup_result v2) M12) as [EV|Cn].
      { exists (map from_hex (sr_proof sp2)), v2. split; [apply mpt_verify_g_resolves; exact M22 | reflexivity]. }
      2:{ right; exact Cn. }
      left.
      assert (N1 : v1 <> []) by (intro; subst v1; discriminate).
      assert (N2 : v2 <> []) by (intro; subst v2; discriminate).
      rewrite !lookup_result_some in EV by assumption. inversion EV; subst v2.
      rewrite C11 in C21. inversion C21; subst t2. rewrite <- C12, <- C22. reflexivity.
    Qed.
    (** *** malleability: surplus proof nodes never turn acceptance into rejection ("padded" proofs of a TRUE claim
        are accepted; with [accepted_value_unique_mpt] / [false_claim_rejected_at]: and only of a true claim) *)
    Definition pad_record (r : proof_rec) (extra_acct extra_st : list bytes) : proof_rec :=
      {| p_address := p_address r; p_balance := p_balance r; p_code_hash := p_code_hash r; p_nonce := p_nonce r;
         p_storage_hash := p_storage_hash r;
         p_account_proof := p_account_proof r ++ extra_acct;
         p_storage_proof := map (fun o => match o with
                                          | Some sp => Some {| sr_key := sr_key sp; sr_value := sr_value sp;
                                                               sr_proof := sr_proof sp ++ extra_st |}
                                          | None => None
                                          end) (p_storage_proof r) |}.

    Theorem padded_still_accepted cs cstore h p p' r extra_acct extra_st ack src dst seq c :
      verify cs cstore (Some h) (Some p) ack src dst seq c = Ok tt ->
      json_proof p = Some r -> json_proof p' = Some (pad_record r extra_acct extra_st) ->
      verify cs cstore (Some h) (Some p') ack src dst seq c = Ok tt.
    Proof.
      intros V J J'. apply verify_ok_iff in V.
      destruct V as (h0 & p0 & E1 & E2 & r0 & rootb & sp & v & t & G & RV & J0 & S & D & A & M1 & SP & K & M2 & C1 & C2).
      inversion E1; subst h0. inversion E2; subst p0. rewrite J in J0. inversion J0; subst r0.
      apply verify_ok_iff. exists h, p'. split; [reflexivity|]. split; [reflexivity|].
      exists (pad_record r extra_acct extra_st), rootb,
             {| sr_key := sr_key sp; sr_value := sr_value sp; sr_proof := sr_proof sp ++ extra_st |}, v, t.
      split; [exact G|]. split; [exact RV|]. split; [exact J'|]. split; [exact S|]. split; [exact D|].
      split; [exact A|]. split.
      { cbn [pad_record p_account_proof]. rewrite map_app. apply mpt_verify_g_padded. exact M1. }
      split; [cbn [pad_record p_storage_proof]; rewrite SP; reflexivity|].
      split; [exact K|]. split; [|split; assumption].
      cbn [sr_proof]. rewrite map_app. apply mpt_verify_g_padded. exact M2.
    Qed.

    (** *** completeness with the Gallina verifier: the honest rendering of node lists that resolve the two keys
        within the round budget is accepted *)
    Theorem honest_accepted_mpt cs cstore h p ack src dst seq c rootb a acct_nodes st_nodes value f1 f2 :
      rn h = rn (cs_head cs) -> rh h <= rh (cs_head cs) -> h64 (cs_head cs) ->
      delay_block cs <= rh (cs_head cs) - rh h ->
      json_proof p = Some (honest_record (cs_contract cs) a (proof_key ack src dst seq) acct_nodes st_nodes value) ->
      cstore (consensus_key h) = ConsRoot rootb ->
      a_nonce a < 2 ^ 256 -> a_balance a < 2 ^ 256 -> length (a_storage a) = 32%nat -> length (a_code a) = 32%nat ->
      length (proof_key ack src dst seq) = 32%nat ->
      answer (walk acct_nodes f1 (bytes_to_hash rootb) (keybytes_to_hex (keccak256 (cs_contract cs)))) = Some (rlp_account a) ->
      (f1 <= walk_fuel acct_nodes (keccak256 (cs_contract cs)))%nat ->
      answer (walk st_nodes f2 (a_storage a) (keybytes_to_hex (keccak256 (proof_key ack src dst seq))))
        = Some (rlp_string (strip_zeros c)) ->
      (f2 <= walk_fuel st_nodes (keccak256 (proof_key ack src dst seq)))%nat ->
      length c = 32%nat ->
      verify cs cstore (Some h) (Some p) ack src dst seq c = Ok tt.
    Proof.
      intros ER LE HH D J S Hn Hb Hs Hc Hk W1 L1 W2 L2 L.
      eapply honest_accepted; try eassumption.
      - eapply mpt_verify_g_of_walk; eassumption.
      - eapply mpt_verify_g_of_walk; eassumption.
    Qed.
  End Verify.
End Mpt.
