(** C03 — conservation, backing and the one-outcome accounting over histories in which token bindings are
    registered in the middle (Model/BridgeGov.v), provided no binding slot is registered twice ([no_rebind]);
    Refuted/C03_rebind.v shows that this proviso is necessary. *)
From Coq Require Import List Arith PeanoNat NArith Bool Lia.
From Teleport Require Import Base.Outcome Model.Bridge Model.BridgeCheck Model.BridgeGov
  Proofs.Bridge Proofs.BridgeOutcome Proofs.BridgeBacking Proofs.BridgeFees.
Import ListNotations.
Local Open Scope N_scope.

(** * Binding lists *)
Lemma bound_of_none_slot l c loc src x :
  bound_of l c loc src = None -> In x l -> (Nat.eqb (be_c x) c && Nat.eqb (be_loc x) loc && Nat.eqb (be_src x) src) = false.
Proof.
  induction l as [|e l IH]; cbn; [intros _ []|].
  destruct (Nat.eqb (be_c e) c && Nat.eqb (be_loc e) loc && Nat.eqb (be_src e) src) eqn:E; [discriminate|].
  intros H [<-|Hin]; [exact E|apply IH; assumption].
Qed.

Lemma bind_list_fresh e l : bind_fresh e l = true -> bind_list e l = e :: l.
Proof.
  intro H. unfold bind_list. f_equal. apply andb_true_iff in H as [_ H].
  assert (Hn : bound_of l (be_c e) (be_loc e) (be_src e) = None) by (destruct (bound_of _ _ _ _); [discriminate|reflexivity]).
  clear H. induction l as [|x l IH]; cbn; [reflexivity|].
  cbn in Hn. unfold same_slot.
  destruct (Nat.eqb (be_c x) (be_c e) && Nat.eqb (be_loc x) (be_loc e) && Nat.eqb (be_src x) (be_src e)) eqn:E; [discriminate|].
  cbn. f_equal. apply IH. exact Hn.
Qed.

Lemma binds_ok_cons e l : binds_ok (e :: l) = bind_fresh e l && binds_ok l.
Proof. reflexivity. Qed.

(** extension of a configuration by a fresh binding: what was bound stays bound, with the same data *)
Definition cfg_ext (cfg cfg' : config) : Prop :=
  nchains cfg' = nchains cfg /\
  (forall c s o x, trace cfg c s o = Some x -> trace cfg' c s o = Some x) /\
  (forall c l d x, bound cfg c l d = Some x -> bound cfg' c l d = Some x).

Lemma cfg_ext_fresh n e l : bind_fresh e l = true -> cfg_ext (cfg_of n l) (cfg_of n (e :: l)).
Proof.
  intro H. apply andb_true_iff in H as [Ht Hb].
  split; [reflexivity|]. split.
  - intros c s o x Hx. cbn in *.
    destruct (Nat.eqb (be_c e) c && Nat.eqb (be_src e) s && Nat.eqb (be_ori e) o) eqn:E; [|exact Hx].
    apply andb_true_iff in E as [E E3]. apply andb_true_iff in E as [E1 E2]. apply Nat.eqb_eq in E1, E2, E3. subst.
    rewrite Hx in Ht. discriminate.
  - intros c lo d x Hx. cbn in *.
    destruct (Nat.eqb (be_c e) c && Nat.eqb (be_loc e) lo && Nat.eqb (be_src e) d) eqn:E; [|exact Hx].
    apply andb_true_iff in E as [E E3]. apply andb_true_iff in E as [E1 E2]. apply Nat.eqb_eq in E1, E2, E3. subst.
    rewrite Hx in Hb. discriminate.
Qed.

(** * Two more invariants of Model/Bridge.v (fixed configuration) *)

(** a slot that is not bound has amount 0 *)
Definition Unbound0 (cfg : config) (s : state) : Prop :=
  forall c t d, bound cfg c t d = None -> bind_amt (chains s c) t d = 0.

(** a delivered forward transfer was delivered through a binding *)
Definition Stable (cfg : config) (s : state) : Prop :=
  forall p, In p (packets s) -> (p_status p = RecvOk \/ p_status p = AckOk) -> p_amount p <> 0 -> p_ori p = None ->
    trace cfg (p_dst p) (p_src p) (p_token p) <> None.

Section WithCfg.
Variable cfg : config.
Hypothesis Hcfg : cfg_consistent cfg.

(** [bindings.amount] of a chain changes only in bound slots *)
Definition only_bound (c : chain) (cs cs' : cstate) : Prop :=
  forall t d, bound cfg c t d = None -> bind_amt cs' t d = bind_amt cs t d.

Lemma only_bound_refl c cs : only_bound c cs cs.
Proof. intros t d _. reflexivity. Qed.

Lemma only_bound_trans c a b d : only_bound c a b -> only_bound c b d -> only_bound c a d.
Proof. intros H1 H2 t x Hb. rewrite (H2 t x Hb). apply H1. exact Hb. Qed.

Lemma upd_tc_only_bound c (cs cs' : cstate) t d v x :
  bound cfg c t d = Some x -> bind_amt cs' = upd_tc (bind_amt cs) t d v -> only_bound c cs cs'.
Proof.
  intros Hb E t' d' Hn. rewrite E. apply upd_tc_other. intro X. inv X. congruence.
Qed.

Lemma transfer_chain_only_bound c cs0 h tok amt dst rcv cd cb ftok fee cs p :
  transfer_chain cfg c cs0 h tok amt dst rcv cd cb ftok fee = Some (cs, p) -> only_bound c cs0 cs.
Proof.
  intro H. apply (transfer_chain_spec cfg) in H as (_ & _ & _ & _ & _ & [(_ & _ & _ & E)|[(_ & _ & _ & E & _)|(_ & o & k & Hb & _ & _ & _ & E)]]).
  - intros t d _. rewrite E. reflexivity.
  - intros t d _. rewrite E. reflexivity.
  - eapply upd_tc_only_bound; eauto.
Qed.

Lemma recv_chain_only_bound cs p code cs' d onw :
  recv_chain cfg cs p = (code, cs', d, onw) -> only_bound (p_dst p) cs cs'.
Proof.
  intro H. apply (recv_chain_cases cfg) in H as [(_ & -> & _)|(_ & cs1 & G & Hr)]; [apply only_bound_refl|].
  assert (H1 : only_bound (p_dst p) cs cs1).
  { apply (give_tokens_cases cfg) in G as (_ & _ & _ & _ & [(_ & -> & _)|[(_ & _ & loc & k & r & _ & Ht & _ & _ & E)|(_ & t & r & _ & _ & _ & E & _)]]).
    - apply only_bound_refl.
    - apply Hcfg in Ht. eapply upd_tc_only_bound; eauto.
    - intros t' d' _. rewrite E. reflexivity. }
  destruct Hr as [(_ & _ & E & _)|(q & T & a2 & feer & ref & rcv2 & dst2 & _ & Ht)].
  - intros t' d' Hb. rewrite E. apply H1. exact Hb.
  - eapply only_bound_trans; [exact H1|]. eapply transfer_chain_only_bound; eauto.
Qed.

Lemma ack_chain_only_bound cs p cs' r :
  ack_chain cfg cs p = Some (cs', r) -> only_bound (p_src p) cs cs'.
Proof.
  intro H. apply (ack_chain_cases cfg) in H as (_ & _ & [(_ & _ & _ & E)|[(_ & _ & _ & _ & E & _)|(_ & _ & t & o & k & _ & Hb & _ & _ & E)]]).
  - intros t d _. rewrite E. reflexivity.
  - intros t d _. rewrite E. reflexivity.
  - eapply upd_tc_only_bound; eauto.
Qed.

Lemma addfee_chain_bind cs u dst sq amt cs' : addfee_chain cs u dst sq amt = Some cs' -> bind_amt cs' = bind_amt cs.
Proof.
  unfold addfee_chain. destruct (fees cs dst sq) as [ft f].
  match goal with |- context [if ?c then _ else _] => destruct c end; [|discriminate]. intro H; inv H. reflexivity.
Qed.

Lemma unbound0_chain s c cs ps :
  Unbound0 cfg s -> only_bound c (chains s c) cs -> Unbound0 cfg (set_chain s c cs ps).
Proof.
  intros HU Ho c' t d Hb. rewrite chains_set_chain. destruct (Nat.eqb_spec c c') as [<-|]; [|apply HU; exact Hb].
  rewrite (Ho t d Hb). apply HU. exact Hb.
Qed.

Theorem step_unbound0 s o s' : Unbound0 cfg s -> step cfg s o = Ok s' -> Unbound0 cfg s'.
Proof.
  intros HU H. unfold step, step_gen in H.
  destruct o as [c u tok amt dst rcv cd cb ftok fee|src dst sq|src dst sq|c u dst sq amt|k src dst sq]; [| | | |discriminate].
  - destruct (transfer_chain cfg c (chains s c) (User u) tok amt dst rcv cd (if cb then CbBroken else CbNone) ftok fee) as [[cs p]|] eqn:E; [|discriminate].
    inv H. apply unbound0_chain; [exact HU|]. eapply transfer_chain_only_bound; eauto.
  - destruct (lookup src dst sq (packets s)) as [p|] eqn:El; [|discriminate].
    destruct (is_sent p); [|discriminate].
    destruct (recv_chain cfg (chains s dst) p) as [[[code cs] d] onw] eqn:Er. inv H.
    destruct (lookup_in _ _ _ _ _ El) as [_ Hk]. apply key_is_true in Hk as (_ & K2 & _).
    apply unbound0_chain; [exact HU|]. rewrite <- K2. rewrite <- K2 in Er. eapply recv_chain_only_bound; eauto.
  - destruct (lookup src dst sq (packets s)) as [p|] eqn:El; [|discriminate].
    destruct (is_received p); [|discriminate].
    destruct (ack_chain cfg (chains s src) p) as [[cs r]|] eqn:Er; [|discriminate]. inv H.
    destruct (lookup_in _ _ _ _ _ El) as [_ Hk]. apply key_is_true in Hk as (K1 & _ & _).
    apply unbound0_chain; [exact HU|]. rewrite <- K1. rewrite <- K1 in Er. eapply ack_chain_only_bound; eauto.
  - destruct (addfee_chain (chains s c) u dst sq amt) as [cs|] eqn:E; [|discriminate]. inv H.
    apply unbound0_chain; [exact HU|]. intros t d _. rewrite (addfee_chain_bind _ _ _ _ _ _ E). reflexivity.
Qed.

Theorem step_stable s o s' : wf cfg s -> Stable cfg s -> step cfg s o = Ok s' -> Stable cfg s'.
Proof.
  intros [Hu Hall] HS H. unfold step, step_gen in H.
  destruct o as [c u tok amt dst rcv cd cb ftok fee|src dst sq|src dst sq|c u dst sq amt|k src dst sq]; [| | | |discriminate].
  - destruct (transfer_chain cfg c (chains s c) (User u) tok amt dst rcv cd (if cb then CbBroken else CbNone) ftok fee) as [[cs p]|] eqn:E; [|discriminate].
    inv H. intros q Hq Hst. cbn in Hq. apply in_app_or in Hq as [Hq|[<-|[]]]; [apply HS; assumption|].
    apply (transfer_chain_spec cfg) in E as (_ & _ & _ & Hp & _). rewrite Hp in Hst. cbn in Hst. destruct Hst; discriminate.
  - destruct (lookup src dst sq (packets s)) as [p|] eqn:El; [|discriminate].
    destruct (is_sent p); [|discriminate].
    destruct (recv_chain cfg (chains s dst) p) as [[[code cs] d] onw] eqn:Er. inv H.
    intros q Hq Hst Ha Ho. cbn in Hq. apply in_app_or in Hq as [Hq|Hq].
    + apply in_update in Hq as (q0 & Hq0 & ->).
      destruct (key_is src dst sq q0) eqn:Ek; [|apply HS; assumption].
      assert (q0 = p).
      { destruct (lookup_in _ _ _ _ _ El) as [Hin Hk]. eapply uniq_key_unique; eauto. }
      subst q0. cbn in *.
      apply (recv_chain_cases cfg) in Er as [(Hc & _)|(-> & cs1 & G & _)].
      * apply N.eqb_neq in Hc. rewrite Hc in Hst. destruct Hst; discriminate.
      * apply (give_tokens_cases cfg) in G as (_ & _ & _ & _ & [(A & _)|[(_ & _ & loc & k & r & _ & Ht & _)|(_ & t & r & _ & Ho' & _)]]);
          [contradiction|rewrite Ht; discriminate|congruence].
    + destruct onw as [q'|]; [|destruct Hq]. destruct Hq as [<-|[]].
      apply (recv_chain_cases cfg) in Er as [(_ & _ & _ & X)|(_ & cs1 & _ & [(X & _)|(q2 & T & a2 & feer & ref & rcv2 & dst2 & X & Ht)])]; try discriminate.
      inv X. apply (transfer_chain_spec cfg) in Ht as (_ & _ & _ & Hp & _). rewrite Hp in Hst. cbn in Hst. destruct Hst; discriminate.
  - destruct (lookup src dst sq (packets s)) as [p|] eqn:El; [|discriminate].
    destruct (is_received p) eqn:Eir; [|discriminate].
    destruct (ack_chain cfg (chains s src) p) as [[cs r]|] eqn:Er; [|discriminate]. inv H.
    intros q Hq Hst Ha Ho. cbn in Hq. apply in_update in Hq as (q0 & Hq0 & ->).
    destruct (key_is src dst sq q0) eqn:Ek; [|apply HS; assumption].
    cbn in *. apply HS; try assumption.
    destruct (p_code q0 =? 0) eqn:Ec; [|destruct Hst; discriminate].
    (* AckOk: the packet was RecvOk before *)
    assert (q0 = p).
    { destruct (lookup_in _ _ _ _ _ El) as [Hin Hk]. eapply uniq_key_unique; eauto. }
    subst q0. left. apply N.eqb_eq in Ec.
    destruct (Hall p Hq0) as [(_ & _ & _ & _ & _ & O6 & _) _].
    unfold is_received in Eir. destruct (p_status p); try discriminate; [reflexivity|]. exfalso. apply O6; auto.
  - destruct (addfee_chain (chains s c) u dst sq amt) as [cs|] eqn:E; [|discriminate]. inv H. exact HS.
Qed.

End WithCfg.

(** * A fresh binding preserves every invariant *)

Lemma bind_ledger_same e s c' :
  bal (chains (bind_ledger e s) c') = bal (chains s c') /\ supply (chains (bind_ledger e s) c') = supply (chains s c') /\
  out_tokens (chains (bind_ledger e s) c') = out_tokens (chains s c') /\ next_seq (chains (bind_ledger e s) c') = next_seq (chains s c') /\
  ack_status (chains (bind_ledger e s) c') = ack_status (chains s c') /\ fees (chains (bind_ledger e s) c') = fees (chains s c') /\
  effects (chains (bind_ledger e s) c') = effects (chains s c').
Proof.
  unfold bind_ledger. cbn [chains]. unfold upd1. destruct (Nat.eqb_spec (be_c e) c') as [<-|]; cbn; repeat split; reflexivity.
Qed.

Lemma bind_ledger_bind_amt e s c' t d :
  bind_amt (chains (bind_ledger e s) c') t d =
  if Nat.eqb (be_c e) c' && (Nat.eqb (be_loc e) t && Nat.eqb (be_src e) d) then 0 else bind_amt (chains s c') t d.
Proof.
  unfold bind_ledger. cbn [chains]. unfold upd1. destruct (Nat.eqb_spec (be_c e) c') as [<-|]; cbn [andb]; [|reflexivity].
  cbn [bind_amt set_bind]. unfold upd_tc. reflexivity.
Qed.

Lemma bind_ledger_packets e s : packets (bind_ledger e s) = packets s.
Proof. reflexivity. Qed.

(** with the slot unbound (amount 0 by [Unbound0]) the ledger does not change at all, point-wise *)
Lemma bind_ledger_noop n l e s c' t d :
  Unbound0 (cfg_of n l) s -> bind_fresh e l = true ->
  bind_amt (chains (bind_ledger e s) c') t d = bind_amt (chains s c') t d.
Proof.
  intros HU Hf. rewrite bind_ledger_bind_amt.
  destruct (Nat.eqb_spec (be_c e) c') as [<-|]; cbn [andb]; [|reflexivity].
  destruct (Nat.eqb_spec (be_loc e) t) as [<-|]; cbn [andb]; [|reflexivity].
  destruct (Nat.eqb_spec (be_src e) d) as [<-|]; [|reflexivity].
  symmetry. apply HU. cbn. apply andb_true_iff in Hf as [_ Hb]. destruct (bound_of l _ _ _); [discriminate|reflexivity].
Qed.

Lemma wf_ext cfg cfg' s s' :
  cfg_ext cfg cfg' -> packets s' = packets s -> (forall c, next_seq (chains s' c) = next_seq (chains s c)) ->
  wf cfg s -> wf cfg' s'.
Proof.
  intros (Hn & _ & Hb) Hp Hs [Hu Hall]. split; rewrite Hp; [exact Hu|].
  intros p Hin. destruct (Hall p Hin) as [(O1 & O2 & O3 & O4 & O5 & O6 & O7 & O8 & O9) Hlt].
  split; [|rewrite Hs; exact Hlt].
  unfold pkt_ok. rewrite Hn. repeat split; auto.
  intros t Ht. destruct (O2 t Ht) as [k Hk]. exists k. apply Hb. exact Hk.
Qed.

Lemma ghost_ext cfg cfg' s s' :
  cfg_ext cfg cfg' -> packets s' = packets s -> wf cfg s -> Stable cfg s -> Ghost cfg s -> Ghost cfg' s'.
Proof.
  intros (_ & Ht & Hb) Hp [_ Hall] HS HG p Hin. rewrite Hp in Hin. specialize (HG p Hin).
  destruct (Hall p Hin) as [(_ & O2 & _) _]. specialize (HS p Hin).
  assert (Hd : (p_status p = RecvOk \/ p_status p = AckOk) -> delivered_due cfg' p = delivered_due cfg p).
  { intro Hst. unfold delivered_due, delivery_due. destruct (p_amount p =? 0) eqn:Ea; [reflexivity|]. apply N.eqb_neq in Ea.
    destruct (p_ori p) eqn:Eo; [reflexivity|].
    destruct (trace cfg (p_dst p) (p_src p) (p_token p)) as [[loc k]|] eqn:E; [rewrite (Ht _ _ _ _ E); reflexivity|].
    exfalso. apply (HS Hst Ea eq_refl). reflexivity. }
  assert (Hr : refund_due cfg' p = refund_due cfg p).
  { unfold refund_due. destruct (p_ori p) as [t|] eqn:Eo; [|reflexivity].
    destruct (O2 t eq_refl) as [k Hk]. rewrite Hk, (Hb _ _ _ _ Hk). reflexivity. }
  unfold ghost_ok in *. destruct HG as [H0 HG]. split; [exact H0|].
  destruct (p_status p) eqn:Est; try exact HG.
  - rewrite Hd by auto. exact HG.
  - rewrite Hd by auto. exact HG.
  - rewrite Hr. exact HG.
Qed.

Lemma stable_ext cfg cfg' s s' :
  cfg_ext cfg cfg' -> packets s' = packets s -> Stable cfg s -> Stable cfg' s'.
Proof.
  intros (_ & Ht & _) Hp HS p Hin Hst Ha Ho. rewrite Hp in Hin. specialize (HS p Hin Hst Ha Ho).
  destruct (trace cfg (p_dst p) (p_src p) (p_token p)) as [x|] eqn:E; [|contradiction]. rewrite (Ht _ _ _ _ E). discriminate.
Qed.

Lemma unbound0_ext cfg cfg' s s' :
  cfg_ext cfg cfg' -> (forall c t d, bind_amt (chains s' c) t d = bind_amt (chains s c) t d) -> Unbound0 cfg s -> Unbound0 cfg' s'.
Proof.
  intros (_ & _ & Hb) He HU c t d Hn. rewrite He. apply HU.
  destruct (bound cfg c t d) as [x|] eqn:E; [|reflexivity]. rewrite (Hb _ _ _ _ E) in Hn. discriminate.
Qed.

Lemma backed_ext cfg cfg' base s s' :
  nchains cfg' = nchains cfg ->
  (forall c, bal (chains s' c) = bal (chains s c) /\ supply (chains s' c) = supply (chains s c) /\ out_tokens (chains s' c) = out_tokens (chains s c)) ->
  (forall c t d, bind_amt (chains s' c) t d = bind_amt (chains s c) t d) ->
  Backed cfg base s -> Backed cfg' base s'.
Proof.
  intros Hn Hs Hb [H1 H2]. split.
  - intros A t. destruct (Hs A) as (E1 & _ & E3). rewrite Hn, E1, E3. apply H1.
  - intros c t. destruct (Hs c) as (_ & E2 & _). rewrite Hn, E2, (H2 c t). f_equal.
    apply sum_over_ext. intros d _. symmetry. apply Hb.
Qed.

Theorem bind_conserved n l e s :
  binds_ok l = true -> bind_fresh e l = true ->
  conserved (cfg_of n l) s -> conserved (cfg_of n (e :: l)) (bind_ledger e s).
Proof.
  intros Hok Hf Hc A B t HAB. specialize (Hc A B t HAB). rewrite bind_ledger_packets.
  destruct (bind_ledger_same e s A) as (_ & _ & -> & _).
  apply andb_true_iff in Hf as [Ht Hb].
  cbn [trace cfg_of trace_of] in *.
  destruct (Nat.eqb (be_c e) B && Nat.eqb (be_src e) A && Nat.eqb (be_ori e) t) eqn:E.
  - apply andb_true_iff in E as [E E3]. apply andb_true_iff in E as [E1 E2]. apply Nat.eqb_eq in E1, E2, E3. subst B A t.
    destruct (trace_of l (be_c e) (be_src e) (be_ori e)); [discriminate|].
    rewrite bind_ledger_bind_amt, !Nat.eqb_refl. cbn [andb]. rewrite Hc. lia.
  - destruct (trace_of l B A t) as [[loc k]|] eqn:Et; [|exact Hc].
    rewrite bind_ledger_bind_amt.
    destruct (Nat.eqb_spec (be_c e) B) as [<-|]; cbn [andb]; [|exact Hc].
    destruct (Nat.eqb_spec (be_loc e) loc) as [<-|]; cbn [andb]; [|exact Hc].
    destruct (Nat.eqb_spec (be_src e) A) as [<-|]; [|exact Hc].
    apply trace_of_bound_none in Et; [|exact Hok]. rewrite Et in Hb. discriminate.
Qed.

(** * The invariant of Model/BridgeGov.v *)
Definition GInv (base : chain -> token -> N) (g : gstate) : Prop :=
  binds_ok (g_binds g) = true /\ Good (g_cfg g) (g_st g) /\ Unbound0 (g_cfg g) (g_st g) /\
  Stable (g_cfg g) (g_st g) /\ Backed (g_cfg g) base (g_st g).

Theorem gstep_inv base g o g' :
  GInv base g ->
  match o with GBind e => bind_fresh e (g_binds g) = true | GOp _ => True end ->
  gstep g o = Ok g' -> GInv base g'.
Proof.
  intros (Hok & [[Hw Hc] HG] & HU & HS & HB) Hfr H.
  pose proof (cfg_of_consistent (g_n g) _ Hok) as Hcfg. fold (g_cfg g) in Hcfg.
  destruct o as [o|e]; cbn in H.
  - destruct (step (g_cfg g) (g_st g) o) as [s'| |] eqn:E; inv H. unfold GInv, g_cfg; cbn. fold (g_cfg g).
    split; [exact Hok|]. split; [|split; [|split]].
    + apply (step_good _ Hcfg (g_st g) o s'); [split; [split|]; assumption|exact E].
    + eapply step_unbound0; eauto.
    + eapply step_stable; eauto.
    + eapply step_backed; eauto.
  - inv H. rewrite (bind_list_fresh _ _ Hfr). unfold GInv, g_cfg in *; cbn [g_n g_binds g_st] in *.
    pose proof (cfg_ext_fresh (g_n g) e (g_binds g) Hfr) as Hext.
    assert (Hba : forall c t d, bind_amt (chains (bind_ledger e (g_st g)) c) t d = bind_amt (chains (g_st g) c) t d)
      by (intros; eapply bind_ledger_noop; eauto).
    split; [rewrite binds_ok_cons, Hfr, Hok; reflexivity|].
    split; [split; [split|]|split; [|split]].
    + apply (wf_ext (cfg_of (g_n g) (g_binds g)) _ (g_st g)); [exact Hext|reflexivity|intro c; apply bind_ledger_same|exact Hw].
    + apply bind_conserved; assumption.
    + apply (ghost_ext (cfg_of (g_n g) (g_binds g)) _ (g_st g)); [exact Hext|reflexivity|exact Hw|exact HS|exact HG].
    + apply (unbound0_ext (cfg_of (g_n g) (g_binds g)) _ (g_st g)); [exact Hext|exact Hba|exact HU].
    + apply (stable_ext (cfg_of (g_n g) (g_binds g)) _ (g_st g)); [exact Hext|reflexivity|exact HS].
    + apply (backed_ext (cfg_of (g_n g) (g_binds g)) _ _ (g_st g)); [reflexivity| |exact Hba|exact HB].
      intro c. destruct (bind_ledger_same e (g_st g) c) as (E1 & E2 & E3 & _). auto.
Qed.

Theorem grun_inv base h : forall g, GInv base g -> no_rebind g h -> GInv base (grun g h).
Proof.
  unfold grun. induction h as [|o h IH]; intros g HI Hn; cbn; [exact HI|].
  destruct Hn as [Hfr Hn]. apply IH; [|exact Hn].
  unfold gapply. destruct (gstep g o) as [g'| |] eqn:E; try exact HI. eapply gstep_inv; eauto.
Qed.

(** fresh system with ANY consistent list of bindings registered before the history *)
Definition ginit (n : nat) (l : list bentry) (s0 : state) : gstate := {| g_n := n; g_binds := l; g_st := s0 |}.

Lemma ginit_inv n l s0 :
  binds_ok l = true -> init_ok s0 -> GInv (fun c t => supply (chains s0 c) t) (ginit n l s0).
Proof.
  intros Hok Hi. unfold GInv, ginit, g_cfg; cbn.
  split; [exact Hok|]. split; [apply init_good; exact Hi|]. split; [|split].
  - intros c t d _. apply Hi.
  - intros p Hin. destruct Hi as [Hp _]. rewrite Hp in Hin. destruct Hin.
  - apply init_backed. exact Hi.
Qed.

(** Conservation, backing and ghost accounting in every state reached by transfers, relays, acknowledgements, fee
    top-ups, faulty relay messages AND first-time registrations of token bindings, in any order. *)
Theorem grun_conserved n l s0 h :
  binds_ok l = true -> init_ok s0 -> no_rebind (ginit n l s0) h ->
  let g := grun (ginit n l s0) h in
  cfg_consistent (g_cfg g) /\ conserved (g_cfg g) (g_st g) /\ Ghost (g_cfg g) (g_st g) /\
  Backed (g_cfg g) (fun c t => supply (chains s0 c) t) (g_st g).
Proof.
  intros Hok Hi Hn g.
  destruct (grun_inv _ h _ (ginit_inv n l s0 Hok Hi) Hn) as (Hok' & [[_ Hc] HG] & _ & _ & HB).
  split; [apply cfg_of_consistent; exact Hok'|]. auto.
Qed.

(** a history without [GBind] is a history of Model/Bridge.v *)
Lemma grun_ops g h : grun g (map GOp h) = {| g_n := g_n g; g_binds := g_binds g; g_st := run (g_cfg g) (g_st g) h |}.
Proof.
  revert g. induction h as [|o h IH]; intro g.
  - destruct g; reflexivity.
  - change (grun g (map GOp (o :: h))) with (grun (gapply g (GOp o)) (map GOp h)). rewrite IH.
    change (run (g_cfg g) (g_st g) (o :: h)) with (run (g_cfg g) (apply_gen recv_chain (g_cfg g) (g_st g) o) h).
    unfold gapply, gstep, apply_gen, step. destruct (step_gen recv_chain (g_cfg g) (g_st g) o); reflexivity.
Qed.

(** * Fee escrow and progress over histories with registrations *)
Lemma gstep_fs base g o g' :
  GInv base g -> FS (g_st g) ->
  match o with GBind e => bind_fresh e (g_binds g) = true | GOp _ => True end ->
  gstep g o = Ok g' -> FS (g_st g').
Proof.
  intros (Hok & [[Hw Hc] HG] & _) HF Hfr H.
  pose proof (cfg_of_consistent (g_n g) _ Hok) as Hcfg. fold (g_cfg g) in Hcfg.
  destruct o as [o|e]; cbn in H.
  - destruct (step (g_cfg g) (g_st g) o) as [s'| |] eqn:E; inv H. cbn. eapply step_fs; eauto.
  - inv H. cbn [g_st]. intros A t. specialize (HF A t). rewrite bind_ledger_packets.
    destruct (bind_ledger_same e (g_st g) A) as (-> & _ & _ & _ & _ & Ef & _).
    rewrite (sumN_map_ext _ (fee_due (chains (g_st g)) A t)); [exact HF|].
    intros p _. apply fee_due_chain. exact Ef.
Qed.

Theorem grun_fs base h : forall g, GInv base g -> FS (g_st g) -> no_rebind g h -> FS (g_st (grun g h)).
Proof.
  unfold grun. induction h as [|o h IH]; intros g HI HF Hn; cbn; [exact HF|].
  destruct Hn as [Hfr Hn]. unfold gapply in *. destruct (gstep g o) as [g'| |] eqn:E; try (apply IH; assumption).
  apply IH; [eapply gstep_inv; eauto|eapply gstep_fs; eauto|exact Hn].
Qed.

(** every scale factor registered in the history is positive *)
Fixpoint gbinds_pos (h : list gop) : Prop :=
  match h with
  | [] => True
  | GBind e :: h' => be_k e <> 0 /\ gbinds_pos h'
  | GOp _ :: h' => gbinds_pos h'
  end.

Lemma binds_pos_run h : forall g, binds_pos (g_binds g) = true -> no_rebind g h -> gbinds_pos h -> binds_pos (g_binds (grun g h)) = true.
Proof.
  unfold grun. induction h as [|o h IH]; intros g Hp Hn Hg; cbn; [exact Hp|].
  destruct Hn as [Hfr Hn]. apply IH; [|exact Hn|destruct o; [exact Hg|exact (proj2 Hg)]].
  unfold gapply. destruct o as [o|e]; cbn [gstep].
  - destruct (step (g_cfg g) (g_st g) o); exact Hp.
  - cbn [g_binds]. rewrite (bind_list_fresh _ _ Hfr). cbn [binds_pos forallb]. destruct Hg as [Hk _]. apply N.eqb_neq in Hk. rewrite Hk. exact Hp.
Qed.

Theorem gov_ack_possible n l s0 h p :
  binds_ok l = true -> binds_pos l = true -> init_ok s0 -> no_rebind (ginit n l s0) h -> gbinds_pos h ->
  let g := grun (ginit n l s0) h in
  In p (packets (g_st g)) -> is_received p = true -> p_cb p <> CbBroken -> (p_code p = 0 \/ p_amount p <> 0) ->
  exists s', step (g_cfg g) (g_st g) (Ack (p_src p) (p_dst p) (p_seq p)) = Ok s'.
Proof.
  intros Hok Hpos Hi Hn Hg g.
  pose proof (grun_inv _ h _ (ginit_inv n l s0 Hok Hi) Hn) as HI. fold g in HI.
  pose proof (grun_fs _ h _ (ginit_inv n l s0 Hok Hi) (init_fs s0 Hi) Hn) as HF. fold g in HF.
  destruct HI as (_ & HGood & _ & _ & [HEB _]).
  apply ack_possible_state; try assumption.
  apply cfg_of_pos. apply (binds_pos_run h (ginit n l s0)); assumption.
Qed.
