(** Invariants of the BSC client over all histories since creation:
    the recent-signer store, the pending / current validator lists and the
    consensus states, related to the chain of accepted headers. *)
From Teleport Require Import Base.Bytes Base.Outcome Model.Bsc Model.BscCheck Proofs.BscBase Proofs.Bsc.
From Coq Require Import ZifyN ZifyNat.
Local Open Scope N_scope.

(** * Ghost chain: the accepted blocks, newest first, the creation block last *)
Record gblock := {
  gb_hdr : header;
  gb_sealer : bytes;       (* recovered sealer (20-byte address) *)
  gb_eff : N;              (* retention limit of the recent-signer store after this block *)
  gb_cons : consstate      (* consensus state stored for it *)
}.
Definition gnum (b : gblock) : N := h_num (gb_hdr b).
Definition gkey (b : gblock) : height := hheight (gb_hdr b).

(** uint64 / slice-length ranges of the Go values *)
Definition wf_hdr (h : header) : Prop := h_num h < two64 /\ len (h_extra h) < two64.

Fixpoint consec (l : list gblock) : Prop :=
  match l with
  | b2 :: ((b1 :: _) as t) => gnum b2 = gnum b1 + 1 /\ consec t
  | _ => True
  end.

Fixpoint last_epoch_extra (epoch : N) (l : list gblock) : option bytes :=
  match l with
  | [] => None
  | b :: t => if gnum b mod epoch =? 0 then Some (h_extra (gb_hdr b)) else last_epoch_extra epoch t
  end.

(** block [b] has not been dropped from the recent-signer window by any later block *)
Definition kept (ch : list gblock) (b : gblock) : Prop :=
  forall j, In j ch -> gnum b < gnum j -> gnum j < gnum b + gb_eff j.

Lemma pend_read_of l : pend_read (pend_of l) = l.
Proof. destruct l; reflexivity. Qed.

Lemma consec_lt b t : consec (b :: t) -> forall x, In x t -> gnum x < gnum b.
Proof.
  revert b. induction t as [|b1 t IH]; intros b H x Hx; [destruct Hx|].
  destruct H as [E H]. destruct Hx as [<-|Hx]; [lia|].
  specialize (IH b1 H x Hx). lia.
Qed.

Lemma consec_tail b t : consec (b :: t) -> consec t.
Proof. destruct t; [intros; exact I | intros [_ H]; exact H]. Qed.

Lemma consec_inj ch : consec ch -> forall a b, In a ch -> In b ch -> gnum a = gnum b -> a = b.
Proof.
  induction ch as [|c ch IH]; intros H a b Ha Hb E; [destruct Ha|].
  pose proof (consec_lt c ch H) as L.
  destruct Ha as [<-|Ha], Hb as [<-|Hb]; auto.
  - specialize (L b Hb). lia.
  - specialize (L a Ha). lia.
  - apply IH; auto. eapply consec_tail; exact H.
Qed.

Lemma last_epoch_extra_in epoch ch x : last_epoch_extra epoch ch = Some x -> exists b, In b ch /\ x = h_extra (gb_hdr b).
Proof.
  induction ch as [|b ch IH]; cbn; [discriminate|].
  destruct (gnum b mod epoch =? 0).
  - intro H. inversion H. exists b. auto.
  - intro H. destruct (IH H) as [b' [Hb E]]. exists b'. auto.
Qed.

(** * lengths of parsed validator lists *)
Lemma chunks20_length n b : length (chunks20 n b) = n.
Proof. revert b; induction n as [|n IH]; intro b; cbn; [reflexivity | rewrite IH; reflexivity]. Qed.

Lemma parse_validators_len extra : len (parse_validators extra) <= len extra.
Proof.
  unfold parse_validators, validator_bytes, len. rewrite chunks20_length.
  rewrite firstn_length, skipn_length.
  assert (H : (Nat.min (length extra - 97) (length extra - 32) / 20 <= length extra)%nat).
  { etransitivity; [apply Nat.div_le_upper_bound with (q := length extra); lia|]. lia. }
  lia.
Qed.

(** * the recent-signer list through the operations of one accepted update *)
Lemma recents_prune bt cs st : recents (prune bt cs st) = recents st.
Proof. unfold prune. destruct (prune_target bt cs st); reflexivity. Qed.
Lemma pending_prune bt cs st : pending (prune bt cs st) = pending st.
Proof. unfold prune. destruct (prune_target bt cs st); reflexivity. Qed.

Lemma recents_pending_step cs st h : recents (pending_step cs st h) = recents st.
Proof. unfold pending_step. destruct (h_num h mod c_epoch cs =? 0); reflexivity. Qed.
Lemma cons_pending_step cs st h : cons (pending_step cs st h) = cons st.
Proof. unfold pending_step. destruct (h_num h mod c_epoch cs =? 0); reflexivity. Qed.

Lemma pending_del_range st rev n a cnt : pending (del_range st rev n a cnt) = pending st.
Proof. induction cnt as [|c IH]; cbn; [reflexivity | exact IH]. Qed.
Lemma cons_del_range st rev n a cnt : cons (del_range st rev n a cnt) = cons st.
Proof. induction cnt as [|c IH]; cbn; [reflexivity | exact IH]. Qed.

Lemma In_del_range st rev n a cnt k v :
  In (k, v) (recents (del_range st rev n a cnt)) <->
  In (k, v) (recents st) /\ forall i, (i < cnt)%nat -> k <> (rev, sub64 (sub64 n a) (N.of_nat i)).
Proof.
  induction cnt as [|c IH]; cbn [del_range].
  - split; [intro H; split; [exact H | intros i Hi; lia] | tauto].
  - cbn [del_signer recents]. rewrite In_del_key, IH. split.
    + intros [[H1 H2] H3]. split; [exact H1|]. intros i Hi.
      destruct (Nat.eq_dec i c) as [->|Hne]; [exact H3 | apply H2; lia].
    + intros [H1 H2]. split; [split; [exact H1 | intros i Hi; apply H2; lia] | apply H2; lia].
Qed.

Lemma NoDup_del_range st rev n a cnt : NoDup (map fst (recents st)) -> NoDup (map fst (recents (del_range st rev n a cnt))).
Proof.
  intro H. induction cnt as [|c IH]; cbn [del_range]; [exact H|].
  cbn [del_signer recents]. apply NoDup_keys_del. exact IH.
Qed.

Lemma pending_shrink_step cs st h : pending (shrink_step cs st h) = pending st.
Proof.
  unfold shrink_step. destruct (h_num h mod c_epoch cs =? len (c_vals cs) / 2); [|reflexivity].
  destruct (_ <? _); [apply pending_del_range | reflexivity].
Qed.
Lemma cons_shrink_step cs st h : cons (shrink_step cs st h) = cons st.
Proof.
  unfold shrink_step. destruct (h_num h mod c_epoch cs =? len (c_vals cs) / 2); [|reflexivity].
  destruct (_ <? _); [apply cons_del_range | reflexivity].
Qed.
Lemma pending_shift_step vals st h : pending (shift_step vals st h) = pending st.
Proof. unfold shift_step. destruct (_ <=? _); reflexivity. Qed.
Lemma cons_shift_step vals st h : cons (shift_step vals st h) = cons st.
Proof. unfold shift_step. destruct (_ <=? _); reflexivity. Qed.

(** nothing but (height, sealer) of the new block enters the store *)
Lemma In_shrink_step_inv cs st h k v : In (k, v) (recents (shrink_step cs st h)) -> In (k, v) (recents st).
Proof.
  unfold shrink_step. destruct (h_num h mod c_epoch cs =? len (c_vals cs) / 2); [|tauto].
  destruct (_ <? _); [|tauto]. intro H. apply In_del_range in H. tauto.
Qed.
Lemma In_shift_step_inv vals st h k v : In (k, v) (recents (shift_step vals st h)) -> In (k, v) (recents st).
Proof.
  unfold shift_step. destruct (_ <=? _); [|tauto]. cbn [del_signer recents]. intro H. apply In_del_key in H. tauto.
Qed.
Lemma NoDup_shrink_step cs st h : NoDup (map fst (recents st)) -> NoDup (map fst (recents (shrink_step cs st h))).
Proof.
  intro H. unfold shrink_step. destruct (h_num h mod c_epoch cs =? len (c_vals cs) / 2); [|exact H].
  destruct (_ <? _); [apply NoDup_del_range; exact H | exact H].
Qed.
Lemma NoDup_shift_step vals st h : NoDup (map fst (recents st)) -> NoDup (map fst (recents (shift_step vals st h))).
Proof.
  intro H. unfold shift_step. destruct (_ <=? _); [|exact H]. cbn [del_signer recents]. apply NoDup_keys_del. exact H.
Qed.

(** an entry whose height is above [n - eff] survives the deletions of block [n] *)
Lemma sub64_sub64_ne n a i x :
  n < two64 -> a + i < two64 -> 1 <= a -> (x < n -> n < x + a) -> x <= n -> sub64 (sub64 n a) i <> x.
Proof.
  intros Hn Hai Ha Hx Hle.
  assert (Ha' : a < two64) by lia. assert (Hi : i < two64) by lia.
  pose proof (sub64_lt n a Hn) as Hm.
  destruct (sub64_cases n a Hn Ha') as [[L1 E1]|[L1 E1]]; rewrite E1 in *;
    match goal with |- sub64 ?m _ <> _ => destruct (sub64_cases m i Hm Hi) as [[L2 E2]|[L2 E2]] end;
    rewrite E2; rewrite two64_val in *; lia.
Qed.

Lemma In_shrink_step_keep cs st h k v :
  In (k, v) (recents st) ->
  h_num h < two64 -> len (c_vals cs) < two64 -> snd k <= h_num h ->
  (snd k < h_num h -> h_num h < snd k + eff_limit (c_epoch cs) (h_num h) (c_vals cs) (vals_after cs st h)) ->
  In (k, v) (recents (shrink_step cs st h)).
Proof.
  intros Hin Hn Hlen Hle Hk. unfold shrink_step. unfold eff_limit, vals_after in Hk.
  destruct (h_num h mod c_epoch cs =? len (c_vals cs) / 2); [|exact Hin].
  fold (pend_read (pending st)) in *. unfold limit_of_vals. unfold nodup_len in Hk.
  destruct (len (sorted_vals (pend_read (pending st))) / 2 + 1 <? len (c_vals cs) / 2 + 1) eqn:E; [|exact Hin].
  apply N.ltb_lt in E. apply In_del_range. split; [exact Hin|].
  intros i Hi Hc. destruct k as [r x]. inversion Hc as [[Hr Hx]]. cbn [snd] in *.
  apply (sub64_sub64_ne (h_num h) (len (sorted_vals (pend_read (pending st))) / 2 + 1) (N.of_nat i) x);
    try assumption; try lia.
Qed.

Lemma In_shift_step_keep vals st h k v :
  In (k, v) (recents st) -> h_num h < two64 -> len vals < two64 -> snd k <= h_num h ->
  (h_num h < snd k + (len vals / 2 + 1)) ->
  In (k, v) (recents (shift_step vals st h)).
Proof.
  intros Hin Hn Hlen Hle Hk. unfold shift_step.
  destruct (len vals / 2 + 1 <=? h_num h) eqn:E; [|exact Hin]. apply N.leb_le in E.
  cbn [del_signer recents]. apply In_del_key. split; [exact Hin|].
  intro Hc. destruct k as [r x]. inversion Hc as [[Hr Hx]]. cbn [snd] in *.
  destruct (sub64_cases (h_num h) (len vals / 2 + 1) Hn) as [[_ E1]|[L _]]; [rewrite two64_val in *; lia | | lia].
  rewrite E1 in Hx. lia.
Qed.

Lemma eff_limit_le epoch n pre post :
  eff_limit epoch n pre post <= (if n mod epoch =? len pre / 2 then len post / 2 + 1 else len pre / 2 + 1).
Proof.
  unfold eff_limit. destruct (n mod epoch =? len pre / 2); [|lia].
  destruct (_ <? _) eqn:E; [|lia]. unfold nodup_len, len.
  pose proof (sorted_vals_length post).
  assert (N.of_nat (length (sorted_vals post)) <= N.of_nat (length post)) by lia.
  apply N.add_le_mono_r. apply N.div_le_mono; lia.
Qed.

Section Inv.
  Variable HH : header -> bytes.
  Variable ER : N -> header -> option bytes.

  (** * Histories *)
  Inductive reach : kstate -> list gblock -> Prop :=
  | reach_create cs c0 st signer :
      create_client ER cs c0 = (st, ROk tt) ->
      sealer ER (c_chain cs) (c_header cs) = Some signer ->
      wf_hdr (c_header cs) -> len (c_vals cs) < two64 ->
      reach (cs, st) [ {| gb_hdr := c_header cs; gb_sealer := signer; gb_eff := len (c_vals cs) / 2 + 1; gb_cons := c0 |} ]
  | reach_step cs st ch bt h cs' st' signer :
      reach (cs, st) ch ->
      update_client HH ER bt cs st h = (st', ROk cs') ->
      sealer ER (c_chain cs) h = Some signer ->
      wf_hdr h -> 0 < h_num h ->
      reach (cs', st')
            ({| gb_hdr := h; gb_sealer := signer;
                gb_eff := eff_limit (c_epoch cs) (h_num h) (c_vals cs) (c_vals cs');
                gb_cons := {| cs_time := h_time h; cs_height := hheight h; cs_root := h_root h |} |} :: ch).

  Record inv (k : kstate) (ch : list gblock) : Prop := {
    i_epoch : c_epoch (fst k) <> 0;
    i_head : exists b rest, ch = b :: rest /\ gb_hdr b = c_header (fst k);
    i_consec : consec ch;
    i_wf : Forall (fun b => wf_hdr (gb_hdr b)) ch;
    i_addr : Forall (fun b => length (gb_sealer b) = 20%nat) ch;
    i_genuine : forall key v, In (key, v) (recents (snd k)) -> exists b, In b ch /\ gkey b = key /\ gb_sealer b = v;
    i_nodup : NoDup (map fst (recents (snd k)));
    i_window : forall b, In b ch -> kept ch b -> In (gkey b, gb_sealer b) (recents (snd k));
    i_pending : exists x, last_epoch_extra (c_epoch (fst k)) ch = Some x /\ pending (snd k) = pend_of (parse_validators x);
    i_vals_len : len (c_vals (fst k)) < two64;
    i_cons : forall b, In b ch -> get_cons (snd k) (gkey b) = Some (gb_cons b) \/ get_cons (snd k) (gkey b) = None;
    i_cons_head : forall b rest, ch = b :: rest -> get_cons (snd k) (gkey b) = Some (gb_cons b);
    i_cons_genuine : forall key c, In (key, c) (cons (snd k)) -> exists b, In b ch /\ gkey b = key /\ gb_cons b = c
  }.

  Lemma sealer_length chain h a : sealer ER chain h = Some a -> length a = 20%nat.
  Proof.
    unfold sealer. destruct (ER chain h); [|discriminate]. intro H. inversion H. apply fit_length.
  Qed.

  (** ** creation *)
  Lemma create_ok cs c0 st : create_client ER cs c0 = (st, ROk tt) ->
    exists signer,
      c_epoch cs <> 0 /\ h_num (c_header cs) mod c_epoch cs = 0 /\
      sealer ER (c_chain cs) (c_header cs) = Some signer /\ signer = to_addr (h_coinbase (c_header cs)) /\
      st = set_cons (set_pending (set_signer empty_store (hheight (c_header cs)) signer)
                                 (parse_validators (h_extra (c_header cs)))) (hheight (c_header cs)) c0.
  Proof.
    unfold create_client, initialize, extraSeal, extraVanity, addressLength. intro H.
    destruct (c_epoch cs =? 0) eqn:E0; [discriminate H|].
    destruct (negb (h_num (c_header cs) mod c_epoch cs =? 0)) eqn:E1; [discriminate H|].
    destruct (len (h_extra (c_header cs)) <? 65); [discriminate H|].
    destruct (sealer ER (c_chain cs) (c_header cs)) as [signer|] eqn:S; [|discriminate H].
    destruct (negb (bytes_eqb signer (to_addr (h_coinbase (c_header cs))))) eqn:E2; [discriminate H|].
    destruct (len (h_extra (c_header cs)) <? 32 + 65); [discriminate H|].
    destruct (negb ((len (h_extra (c_header cs)) - 97) mod 20 =? 0)); [discriminate H|].
    inversion H; subst. exists signer.
    apply N.eqb_neq in E0. apply negb_false_iff, N.eqb_eq in E1. apply negb_false_iff, bytes_eqb_eq in E2.
    auto.
  Qed.

  Lemma inv_create cs c0 st signer :
    create_client ER cs c0 = (st, ROk tt) -> sealer ER (c_chain cs) (c_header cs) = Some signer ->
    wf_hdr (c_header cs) -> len (c_vals cs) < two64 ->
    inv (cs, st) [ {| gb_hdr := c_header cs; gb_sealer := signer; gb_eff := len (c_vals cs) / 2 + 1; gb_cons := c0 |} ].
  Proof.
    intros HC HS Hwf Hlen. destruct (create_ok _ _ _ HC) as (s & E0 & E1 & S & _ & ->).
    rewrite HS in S. inversion S; subst s. clear S.
    set (b := {| gb_hdr := c_header cs; gb_sealer := signer; gb_eff := len (c_vals cs) / 2 + 1; gb_cons := c0 |}).
    constructor; cbn [fst snd].
    - exact E0.
    - exists b, []. auto.
    - exact I.
    - constructor; [exact Hwf | constructor].
    - constructor; [cbn; eapply sealer_length; exact HS | constructor].
    - cbn. intros key v [H|[]]. inversion H; subst. exists b. split; [left; reflexivity|]. auto.
    - cbn. constructor; [intros [] | constructor].
    - intros b' [<-|[]] _. cbn. left. reflexivity.
    - exists (h_extra (c_header cs)). split.
      + cbn. unfold gnum. cbn. rewrite E1. reflexivity.
      + cbn. unfold pend_of. reflexivity.
    - exact Hlen.
    - intros b' [<-|[]]. left. unfold get_cons, set_cons, gkey. cbn [cons gb_hdr gb_cons b].
      apply get_key_ins_same. reflexivity.
    - intros b' rest E. inversion E; subst. unfold get_cons, set_cons, gkey. cbn [cons gb_hdr gb_cons b].
      apply get_key_ins_same. reflexivity.
    - cbn. intros key c [H|[]]. inversion H; subst. exists b. split; [left; reflexivity|]. auto.
  Qed.

  (** ** one accepted update *)
  Lemma inv_step cs st ch bt h cs' st' signer :
    inv (cs, st) ch ->
    update_client HH ER bt cs st h = (st', ROk cs') ->
    sealer ER (c_chain cs) h = Some signer ->
    wf_hdr h -> 0 < h_num h ->
    inv (cs', st')
        ({| gb_hdr := h; gb_sealer := signer;
            gb_eff := eff_limit (c_epoch cs) (h_num h) (c_vals cs) (c_vals cs');
            gb_cons := {| cs_time := h_time h; cs_height := hheight h; cs_root := h_root h |} |} :: ch).
  Proof.
    intros I HU HS [Hn Hex] H0.
    destruct (update_client_ok _ _ _ _ _ _ _ _ HU) as (_ & st5 & c' & HC & Est').
    destruct (check_ok _ _ _ _ _ _ _ _ _ HC) as (signer' & _ & A & _ & HUp).
    rewrite (ac_sealer _ _ _ _ _ _ A) in HS. inversion HS; subst signer'. clear HS.
    destruct (update_ok _ _ _ _ _ _ HUp) as (_ & Est & Ecs & Ec). cbv zeta in Est, Ecs.
    set (st1 := set_signer st (hheight h) signer) in *.
    set (st2 := prune bt cs st1) in *.
    set (st3 := pending_step cs st2 h) in *.
    set (vals' := vals_after cs st3 h) in *.
    destruct I as [Iep [b0 [rest [Ech Ehd]]] Icon Iwf Iaddr Igen Ind Iwin [x [Ilx Ipend]] Ilen Icons Iconsh Iconsg].
    cbn [fst snd] in *.
    assert (Enum : h_num h = gnum b0 + 1).
    { unfold gnum. rewrite Ehd. eapply number_succ; eauto. }
    assert (Evals : c_vals cs' = vals') by (rewrite Ecs; reflexivity).
    assert (Eepoch : c_epoch cs' = c_epoch cs) by (rewrite Ecs; reflexivity).
    set (nb := {| gb_hdr := h; gb_sealer := signer; gb_eff := eff_limit (c_epoch cs) (h_num h) (c_vals cs) (c_vals cs');
                  gb_cons := {| cs_time := h_time h; cs_height := hheight h; cs_root := h_root h |} |}).
    assert (Hlt : forall b, In b ch -> gnum b < h_num h).
    { intros b Hb. subst ch. destruct Hb as [<-|Hb]; [lia|]. pose proof (consec_lt _ _ Icon b Hb). lia. }
    assert (Hpend3 : pend_read (pending st3) = parse_validators (match last_epoch_extra (c_epoch cs) (nb :: ch) with Some y => y | None => [] end)).
    { cbn [last_epoch_extra]. unfold gnum at 1. cbn [nb gb_hdr]. unfold st3, pending_step.
      destruct (h_num h mod c_epoch cs =? 0).
      - cbn [set_pending pending]. apply (pend_read_of (parse_validators (h_extra h))).
      - unfold st2. rewrite pending_prune. unfold st1. cbn [set_signer pending]. rewrite Ipend, Ilx. apply pend_read_of. }
    assert (Hlen' : len vals' < two64).
    { unfold vals', vals_after. destruct (_ =? _); [|exact Ilen].
      fold (pend_read (pending st3)). rewrite Hpend3.
      eapply N.le_lt_trans; [apply parse_validators_len|].
      cbn [last_epoch_extra]. unfold gnum at 1. cbn [nb gb_hdr].
      destruct (h_num h mod c_epoch cs =? 0); [exact Hex|]. rewrite Ilx.
      destruct (last_epoch_extra_in _ _ _ Ilx) as [bx [Hbx ->]].
      rewrite Forall_forall in Iwf. apply (Iwf bx Hbx). }
    assert (Erec : recents st' = recents (shift_step vals' (shrink_step cs st3 h) h)) by (rewrite Est', Est; reflexivity).
    assert (Erec3 : recents st3 = recents st1).
    { unfold st3. rewrite recents_pending_step. unfold st2. apply recents_prune. }
    constructor; cbn [fst snd].
    - congruence.
    - exists nb, ch. split; [reflexivity|]. rewrite Ecs. reflexivity.
    - subst ch. cbn [consec]. split; [exact Enum | exact Icon].
    - constructor; [split; assumption | exact Iwf].
    - constructor; [cbn; eapply sealer_length; apply (ac_sealer _ _ _ _ _ _ A) | exact Iaddr].
    - (* genuine *)
      intros key v Hin. rewrite Erec in Hin.
      apply In_shift_step_inv, In_shrink_step_inv in Hin. rewrite Erec3 in Hin.
      unfold st1 in Hin. cbn [set_signer recents] in Hin. apply In_ins_by in Hin as [Hin|Hin].
      + inversion Hin; subst. exists nb. split; [left; reflexivity|]. auto.
      + apply In_del_key in Hin as [Hin _]. destruct (Igen key v Hin) as (b & Hb & E1 & E2).
        exists b. split; [right; exact Hb | auto].
    - (* nodup *)
      rewrite Erec. apply NoDup_shift_step, NoDup_shrink_step. rewrite Erec3.
      unfold st1. cbn [set_signer recents]. apply NoDup_keys_ins; [apply keys_del_key | apply NoDup_keys_del; exact Ind].
    - (* window *)
      intros b Hb Hk. rewrite Erec.
      assert (Hin1 : In (gkey b, gb_sealer b) (recents st3)).
      { rewrite Erec3. unfold st1. cbn [set_signer recents]. apply In_ins_by.
        destruct Hb as [<-|Hb]; [left; reflexivity|]. right. apply In_del_key. split.
        - apply Iwin; [exact Hb|]. intros j Hj Hlt'. apply Hk; [right; exact Hj | exact Hlt'].
        - intro E. unfold gkey, hheight in E. inversion E. specialize (Hlt b Hb). unfold gnum in Hlt. lia. }
      assert (Hle : snd (gkey b) <= h_num h).
      { destruct Hb as [<-|Hb]; [cbn; lia|]. specialize (Hlt b Hb). unfold gkey, hheight, gnum in *. cbn [snd]. lia. }
      assert (Heff : snd (gkey b) < h_num h -> h_num h < snd (gkey b) + eff_limit (c_epoch cs) (h_num h) (c_vals cs) vals').
      { intro Hl. destruct Hb as [<-|Hb]; [cbn in Hl; lia|].
        specialize (Hk nb (or_introl eq_refl)). unfold gnum in Hk. cbn [nb gb_hdr gb_eff] in Hk.
        rewrite Evals in Hk. unfold gkey, hheight in *. cbn [snd] in *. apply Hk. exact Hl. }
      apply In_shift_step_keep; try assumption.
      + apply In_shrink_step_keep; try assumption.
      + destruct (N.eq_dec (snd (gkey b)) (h_num h)) as [E|Hne]; [rewrite E; lia|].
        assert (Hl : snd (gkey b) < h_num h) by lia. specialize (Heff Hl).
        pose proof (eff_limit_le (c_epoch cs) (h_num h) (c_vals cs) vals') as Hle'.
        remember (h_num h mod c_epoch cs =? len (c_vals cs) / 2) as sw eqn:ES in Hle'.
        destruct sw; [lia|].
        assert (Ev : vals' = c_vals cs) by (unfold vals', vals_after; rewrite <- ES; reflexivity).
        rewrite Ev. lia.
    - (* pending *)
      exists (match last_epoch_extra (c_epoch cs) (nb :: ch) with Some y => y | None => [] end).
      rewrite Eepoch. split.
      + cbn [last_epoch_extra]. destruct (gnum nb mod c_epoch cs =? 0); [reflexivity|]. rewrite Ilx. reflexivity.
      + rewrite Est'. cbn [set_cons pending]. rewrite Est, pending_shift_step, pending_shrink_step.
        cbn [last_epoch_extra]. unfold gnum at 1. cbn [nb gb_hdr]. unfold st3, pending_step.
        destruct (h_num h mod c_epoch cs =? 0).
        * reflexivity.
        * unfold st2. rewrite pending_prune. unfold st1. cbn [set_signer pending]. rewrite Ilx. exact Ipend.
    - rewrite Evals. exact Hlen'.
    - (* cons: right or absent *)
      assert (Econs : cons st5 = cons st2).
      { rewrite Est, cons_shift_step, cons_shrink_step. unfold st3. apply cons_pending_step. }
      intros b Hb. unfold get_cons. rewrite Est'. cbn [set_cons cons]. rewrite Econs.
      destruct Hb as [<-|Hb].
      + left. cbn [gkey nb gb_hdr gb_cons]. rewrite Ec. apply get_key_ins_same. apply get_key_del_same.
      + assert (Hne : gkey b <> hheight h).
        { intro E. unfold gkey, hheight in E. inversion E. specialize (Hlt b Hb). unfold gnum in Hlt. lia. }
        rewrite get_key_ins_other, get_key_del by exact Hne.
        unfold st2, prune. destruct (prune_target bt cs st1) as [p|].
        * cbn [del_cons cons st1 set_signer]. destruct (key_eqb (gkey b) p) eqn:E.
          -- apply key_eqb_eq in E. subst p. right. apply get_key_del_same.
          -- apply key_eqb_neq in E. rewrite get_key_del by exact E. apply Icons. exact Hb.
        * cbn [st1 set_signer cons]. apply Icons. exact Hb.
    - intros b rest' E. inversion E; subst b rest'. unfold get_cons. rewrite Est'. cbn [set_cons cons gkey nb gb_hdr gb_cons].
      rewrite Ec. apply get_key_ins_same. apply get_key_del_same.
    - (* cons genuine *)
      assert (Econs : cons st5 = cons st2).
      { rewrite Est, cons_shift_step, cons_shrink_step. unfold st3. apply cons_pending_step. }
      intros key c Hin. rewrite Est' in Hin. cbn [set_cons cons] in Hin. rewrite Econs in Hin. apply In_ins_by in Hin as [Hin|Hin].
      + inversion Hin; subst. exists nb. split; [left; reflexivity|]. auto.
      + apply In_del_key in Hin as [Hin _].
        assert (Hin' : In (key, c) (cons st)).
        { unfold st2, prune in Hin. destruct (prune_target bt cs st1); [|exact Hin].
          cbn [del_cons cons st1 set_signer] in Hin. apply In_del_key in Hin. tauto. }
        destruct (Iconsg key c Hin') as (b & Hb & E1 & E2). exists b. split; [right; exact Hb | auto].
  Qed.

  Theorem reach_inv k ch : reach k ch -> inv k ch.
  Proof.
    induction 1 as [cs c0 st signer HC HS Hwf Hlen | cs st ch bt h cs' st' signer HR IH HU HS Hwf H0].
    - apply inv_create; assumption.
    - eapply inv_step; eassumption.
  Qed.
End Inv.
