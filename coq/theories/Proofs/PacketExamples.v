(** A concrete instance of the packet model (real keys, toy codecs) used for the non-vacuity examples of
    Props/C01 C02 C04 C05 and for the witnesses of Refuted/C04_selfclient, Refuted/C05_selfclient. *)
From Teleport Require Import Base.Bytes Base.Outcome Base.AList Model.Packet Model.PacketKeys
     Proofs.Packet Proofs.PacketC01 Proofs.PacketC02 Proofs.PacketC05 Proofs.PacketC04 Proofs.PacketKeys.
Local Open Scope N_scope.

Definition chA : bytes := B "chain-a".
Definition chB : bytes := B "chain-b".

(** toy codecs: packet bytes [b0; b1; rest] decode to a packet from chain [b0] to chain [b1] ("a" / "b" / other)
    with sequence = length rest and payload rest; everything verifies. *)
Definition ex_name (b : byte) : bytes :=
  match b with x61 => chA | x62 => chB | _ => B "chain-x" end.
Definition ex_decode (bz : bytes) : packet * bool :=
  match bz with
  | s :: d :: rest => (mkPacket (ex_name s) (ex_name d) (N.of_nat (length rest)) (B "sender") (x01 :: rest) [] [] 0, false)
  | _ => (mkPacket [] [] 0 [] [] [] [] 0, true)
  end.
Definition ex_ack : ackt := mkAck 0 [] [] (B "rb") 0.

Definition exP : params :=
  mkParams k_receipt k_ack k_commitment k_nextseq k_valid
           ex_decode
           (fun p => Some (p_src p ++ p_dst p ++ p_tdata p))
           (fun x => x00 :: x)
           (fun _ => Some ex_ack)
           (fun a => Some (x02 :: a_message a))
           (fun _ _ _ _ _ _ _ _ _ _ => true)
           (fun s => Some s)
           bytes_eqb.

Lemma exP_real : real_keys exP. Proof. repeat split. Qed.
Lemma exP_keys : keys_ok exP. Proof. apply real_keys_ok, exP_real. Qed.
Lemma exP_sha x : sha256 exP x <> []. Proof. discriminate. Qed.

Definition ex_relayers : alist (list bytes * list bytes) :=
  [(B "rel", ([chA; chB], [B "ra"; B "rb"]))].

(** chain B: knows chain A through a Tendermint client *)
Definition exB : cstate := mkState [] [(chA, 1)] chB ex_relayers (mkApp [] []).
(** chain A: knows chain B *)
Definition exA : cstate := mkState [] [(chB, 1)] chA ex_relayers (mkApp [] []).

Definition cb_ok : cbres := mkCb false [] (Some (0, [], [])).
Definition cb_plain : cbres := mkCb false [] None.
Definition pkt (s d : byte) (n : nat) : bytes := s :: d :: repeat x07 n.
Definition recv_of (bz : bytes) : recv_msg := mkRecv bz (B "proof") (0, 5) (B "rel").
Definition ack_of (bz : bytes) : ack_msg := mkAckMsg bz (B "ackbytes") (B "proof") (0, 9) (B "rel").

(** *** the invariants hold of these states *)
Lemma ex_next_seq_empty nm cl rl ap a b : next_seq exP (mkState [] cl nm rl ap) a b = Ok 1.
Proof. reflexivity. Qed.

Lemma exA_inv4 : inv4 exP exA.
Proof.
  split; [reflexivity|]. split.
  { intros n c H. unfold exA in H. cbn [st_clients aget] in H.
    destruct (bytes_eqb_spec n chB) as [->|_]; [reflexivity | discriminate]. }
  split; [reflexivity|]. split.
  - intros d k _ H. exfalso. apply H. reflexivity.
  - intros d _. reflexivity.
Qed.

Lemma exB_inv5 : inv5 exP exB.
Proof.
  split; [reflexivity|]. split.
  { intros n c H. unfold exB in H. cbn [st_clients aget] in H.
    destruct (bytes_eqb_spec n chA) as [->|_]; [reflexivity | discriminate]. }
  split.
  - intros t _ H. exfalso. apply H. reflexivity.
  - intros t _ _ H. exfalso. apply H. reflexivity.
Qed.
