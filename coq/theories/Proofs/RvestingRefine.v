(** Refinement between the two layers of the C20 development: the single-module block histories of
    Model/Rvesting.v ([run]: parameter changes then BeginBlocker, on the pool / fee-collector projection) are exactly
    the world histories of Model/RvestingWorld.v that consist of the corresponding params-subspace updates and
    BeginBlockers, projected by [w_state]. *)
From Teleport Require Import Base.Bytes Base.Outcome Model.Rvesting Model.RvestingCheck Model.RvestingIR Model.RvestingBank
  Model.RvestingParams Model.RvestingWorld Model.RvestingCode Proofs.Rvesting Proofs.RvestingBank Proofs.RvestingParams
  Proofs.RvestingWorld.
Local Open Scope Z_scope.

(** The world operations one block of [run] stands for. *)
Definition block_ops (kb kc : bytes) (b : block) : list wop :=
  (match set_rewards b with Some r => [WParam kc (JCoins (lift_coins r))] | None => [] end) ++
  (match set_enable b with Some e => [WParam kb (JBool e)] | None => [] end) ++ [WBegin].

Lemma begin_block_frame p s s' : begin_block p s = Ok s' -> others s' = others s /\ supply s' = supply s.
Proof.
  unfold begin_block. destruct (negb (enable p)); [intro H; inversion H; auto|].
  destruct (choose_all (pool s) (rewards p)) as [ch| |]; try discriminate.
  destruct (forallb _ _); [intro H; inversion H; auto|].
  destruct (existsb _ _); [discriminate|]. destruct (existsb _ _); [discriminate|]. destruct (existsb _ _); [discriminate|].
  intro H; inversion H; subst. apply send_vested_rest.
Qed.

Lemma w_run_app pairs lgs cgs order ops1 : forall ops2 w,
  w_run pairs lgs cgs order (ops1 ++ ops2) w =
  match w_run pairs lgs cgs order ops1 w with Ok w1 => w_run pairs lgs cgs order ops2 w1 | Err => Err | Panic => Panic end.
Proof.
  induction ops1 as [|op ops1 IH]; intros ops2 w; cbn [app w_run]; [reflexivity|].
  destruct (w_step pairs lgs cgs order op w); try reflexivity. apply IH.
Qed.

Section Refine.
  Variables (pairs : list ppair) (lgs : list lguard) (cgs : list cguard) (order : list bbmod) (kb kc : bytes).
  Hypothesis Hshape : pairs_shape pairs kb kc.
  Hypothesis Hg : guards_std lgs cgs = true.

  Notation wrun := (w_run pairs lgs cgs order).

  (** Worlds that agree with a single-module state and parameter set. *)
  Definition agrees (w : world) (p : params) (s : state) : Prop :=
    get_params pairs (w_ps w) = Ok p /\
    acct (w_accts w) A_POOL = pool s /\ acct (w_accts w) A_FEE = fee s /\ others s = [] /\ supply s = w_sup w.

  Lemma param_ops_refine b w p s :
    agrees w p s ->
    exists w', wrun ((match set_rewards b with Some r => [WParam kc (JCoins (lift_coins r))] | None => [] end) ++
                     (match set_enable b with Some e => [WParam kb (JBool e)] | None => [] end)) w = Ok w' /\
               agrees w' (apply_change p b) s /\ w_accts w' = w_accts w /\ w_sup w' = w_sup w /\ w_height w' = w_height w.
  Proof.
    destruct Hshape as (Hne & _ & Hget & Hupd & _ & _).
    intros (Hgp & A1 & A2 & A3 & A4).
    rewrite Hget in Hgp.
    destruct (kv_get (w_ps w) kb) as [[b0|?]|] eqn:Eb; try discriminate.
    destruct (kv_get (w_ps w) kc) as [[?|l0]|] eqn:Ec; try discriminate. inversion Hgp; subst p. clear Hgp.
    unfold apply_change. cbn [enable rewards].
    (* rewards change *)
    assert (Hr : exists w1, wrun (match set_rewards b with Some r => [WParam kc (JCoins (lift_coins r))] | None => [] end) w = Ok w1 /\
              w_accts w1 = w_accts w /\ w_sup w1 = w_sup w /\ w_height w1 = w_height w /\
              kv_get (w_ps w1) kb = Some (PB b0) /\
              kv_get (w_ps w1) kc = Some (PC (match set_rewards b with
                                               | Some r => if validate_rewards r then r else l0
                                               | None => l0 end))).
    { destruct (set_rewards b) as [r|]; [|exists w; cbn [w_run]; repeat split; assumption].
      cbn [w_run w_step]. rewrite Hupd.
      assert (E1 : bytes_eqb kc kb = false) by (apply bytes_eqb_neq; congruence).
      rewrite E1, bytes_eqb_refl, (validate_raw_std lgs cgs r Hg), strip_lift_id.
      destruct (validate_rewards r).
      - eexists; split; [reflexivity|]. cbn [w_accts w_sup w_ps w_height]. repeat split.
        + rewrite kv_get_set_other by congruence. exact Eb.
        + apply kv_get_set_same.
      - exists w. repeat split; assumption. }
    destruct Hr as (w1 & Hrun1 & B1 & B2 & B3 & B4 & B5).
    rewrite w_run_app, Hrun1.
    destruct (set_enable b) as [e|].
    - cbn [w_run w_step]. rewrite Hupd, bytes_eqb_refl.
      eexists; split; [reflexivity|]. unfold agrees; cbn [w_accts w_sup w_ps w_height].
      split; [|repeat split; assumption].
      split; [|rewrite B1, B2; repeat split; assumption].
      rewrite Hget, kv_get_set_same, kv_get_set_other, B5 by exact Hne.
      destruct (set_rewards b) as [r|]; [destruct (validate_rewards r)|]; reflexivity.
    - exists w1. split; [reflexivity|]. split; [|repeat split; assumption].
      split; [|rewrite B1, B2; repeat split; assumption].
      rewrite Hget, B4, B5. destruct (set_rewards b) as [r|]; [destruct (validate_rewards r)|]; reflexivity.
  Qed.

  (** One block. *)
  Lemma block_refine b w p s s' :
    agrees w p s -> begin_block (apply_change p b) s = Ok s' ->
    exists w', wrun (block_ops kb kc b) w = Ok w' /\ agrees w' (apply_change p b) s'.
  Proof.
    intros Hag Hb. destruct (param_ops_refine b w p s Hag) as (w1 & Hrun1 & (G1 & A1 & A2 & A3 & A4) & _).
    unfold block_ops. rewrite app_assoc, w_run_app, Hrun1. cbn [w_run w_step]. unfold w_begin_block. rewrite G1.
    assert (Es : w_state w1 = s).
    { unfold w_state. rewrite A1, A2, <- A4, <- A3. destruct s; reflexivity. }
    rewrite Es, Hb. eexists; split; [reflexivity|].
    destruct (begin_block_frame _ _ _ Hb) as (F1 & F2).
    unfold agrees, with_accts; cbn [w_accts w_sup w_ps w_height]. split; [exact G1|].
    rewrite !acct_set. cbn [A_POOL A_FEE Nat.eqb]. repeat split; congruence.
  Qed.

  (** Whole histories: [run] is the projection of the world run of the corresponding operations. *)
  Theorem run_refines bs : forall w p s p' s',
    agrees w p s -> run bs p s = Ok (p', s') ->
    exists w', wrun (flat_map (block_ops kb kc) bs) w = Ok w' /\ agrees w' p' s'.
  Proof.
    induction bs as [|b bs IH]; intros w p s p' s' Hag; cbn [run flat_map]; intro H.
    - inversion H; subst. exists w. split; [reflexivity|exact Hag].
    - destruct (begin_block (apply_change p b) s) as [s1| |] eqn:Hb; try discriminate.
      destruct (block_refine b w p s s1 Hag Hb) as (w1 & Hrun1 & Hag1).
      destruct (IH w1 _ _ _ _ Hag1 H) as (w2 & Hrun2 & Hag2).
      exists w2. rewrite w_run_app, Hrun1. split; [exact Hrun2|exact Hag2].
  Qed.
End Refine.
