(** The store key and the slot pre-images of Model/EvmProof.v ARE the key builders of the Go source:
    they equal the renderings of the format terms tools/gotocoq/keys regenerates from
    x/xibc/core/host/keys.go and x/xibc/clients/light-clients/{eth,bsc}/types/keys.go on every run
    (Gen/KeysGen.v).  A change of a Go key builder (another path, another mapping index, a dropped
    separator) changes the regenerated term and breaks these lemmas. *)
From Teleport Require Import Base.Bytes Base.Outcome Model.EvmProof.
From Teleport Require Base.Fmt Gen.KeysGen.
Local Open Scope N_scope.

Lemma le_fixed_fmt k n : le_fixed k n = Fmt.le_bytes k n.
Proof. revert n; induction k as [|k IH]; intro n; cbn [le_fixed Fmt.le_bytes]; [reflexivity | rewrite IH; reflexivity]. Qed.

Lemma be_fixed_fmt k n : be_fixed k n = Fmt.be_bytes k n.
Proof. unfold be_fixed, Fmt.be_bytes. rewrite le_fixed_fmt. reflexivity. Qed.

Definition path_args (src dst : bytes) (seq : N) : Fmt.args := [Fmt.VS src; Fmt.VS dst; Fmt.VN seq].

Lemma commitment_preimage_eth src dst seq :
  Fmt.render KeysGen.eth_ProofKeyConstructor_GetPacketCommitmentProofKey_preimage (path_args src dst seq)
  = packet_path false src dst seq ++ pad32_208.
Proof.
  unfold KeysGen.eth_ProofKeyConstructor_GetPacketCommitmentProofKey_preimage, packet_path, path_args, dec_of_N.
  cbn [Fmt.render Fmt.render_item Fmt.get_s Fmt.get_n nth_error]. cbn [app]. repeat rewrite <- app_assoc. cbn [app].
  reflexivity.
Qed.

Lemma ack_preimage_eth src dst seq :
  Fmt.render KeysGen.eth_ProofKeyConstructor_GetAckProofKey_preimage (path_args src dst seq)
  = packet_path true src dst seq ++ pad32_208.
Proof.
  unfold KeysGen.eth_ProofKeyConstructor_GetAckProofKey_preimage, packet_path, path_args, dec_of_N.
  cbn [Fmt.render Fmt.render_item Fmt.get_s Fmt.get_n nth_error]. cbn [app]. repeat rewrite <- app_assoc. cbn [app].
  reflexivity.
Qed.

Lemma commitment_preimage_bsc src dst seq :
  Fmt.render KeysGen.bsc_ProofKeyConstructor_GetPacketCommitmentProofKey_preimage (path_args src dst seq)
  = packet_path false src dst seq ++ pad32_208.
Proof.
  unfold KeysGen.bsc_ProofKeyConstructor_GetPacketCommitmentProofKey_preimage, packet_path, path_args, dec_of_N.
  cbn [Fmt.render Fmt.render_item Fmt.get_s Fmt.get_n nth_error]. cbn [app]. repeat rewrite <- app_assoc. cbn [app].
  reflexivity.
Qed.

Lemma ack_preimage_bsc src dst seq :
  Fmt.render KeysGen.bsc_ProofKeyConstructor_GetAckProofKey_preimage (path_args src dst seq)
  = packet_path true src dst seq ++ pad32_208.
Proof.
  unfold KeysGen.bsc_ProofKeyConstructor_GetAckProofKey_preimage, packet_path, path_args, dec_of_N.
  cbn [Fmt.render Fmt.render_item Fmt.get_s Fmt.get_n nth_error]. cbn [app]. repeat rewrite <- app_assoc. cbn [app].
  reflexivity.
Qed.

Lemma consensus_key_gen h :
  Fmt.render KeysGen.host_ConsensusStateKey [Fmt.VN (rn h); Fmt.VN (rh h)] = consensus_key h.
Proof.
  unfold KeysGen.host_ConsensusStateKey, consensus_key.
  cbn [Fmt.render Fmt.render_item Fmt.get_s Fmt.get_n nth_error].
  rewrite (be_fixed_fmt 8 (rn h)), (be_fixed_fmt 8 (rh h)).
  cbn [app]. rewrite app_nil_r. reflexivity.
Qed.

(** all five at once (statement of Props/C08.v) *)
Lemma keys_match_go_source :
  (forall src dst seq,
     Fmt.render KeysGen.eth_ProofKeyConstructor_GetPacketCommitmentProofKey_preimage (path_args src dst seq)
     = packet_path false src dst seq ++ pad32_208 /\
     Fmt.render KeysGen.eth_ProofKeyConstructor_GetAckProofKey_preimage (path_args src dst seq)
     = packet_path true src dst seq ++ pad32_208 /\
     Fmt.render KeysGen.bsc_ProofKeyConstructor_GetPacketCommitmentProofKey_preimage (path_args src dst seq)
     = packet_path false src dst seq ++ pad32_208 /\
     Fmt.render KeysGen.bsc_ProofKeyConstructor_GetAckProofKey_preimage (path_args src dst seq)
     = packet_path true src dst seq ++ pad32_208) /\
  (forall h, Fmt.render KeysGen.host_ConsensusStateKey [Fmt.VN (rn h); Fmt.VN (rh h)] = consensus_key h).
Proof.
  split.
  - intros src dst seq. repeat split;
      [apply commitment_preimage_eth | apply ack_preimage_eth | apply commitment_preimage_bsc | apply ack_preimage_bsc].
  - apply consensus_key_gen.
Qed.
