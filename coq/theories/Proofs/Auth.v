(** C06 — lemmas about Model/Auth.v (authorization layer of the XIBC message server). *)
From Teleport Require Import Base.Bytes Base.Outcome Model.Auth.

(** * Registry: store.Set / store.Get *)
Lemma bytes_cmp_refl a : bytes_cmp a a = Eq.
Proof. apply bytes_cmp_eq; reflexivity. Qed.

Lemma reg_get_set_same r a v : reg_get (reg_set r a v) a = Some v.
Proof.
  induction r as [|[k x] r IH]; cbn.
  - rewrite bytes_eqb_refl; reflexivity.
  - destruct (bytes_cmp a k) eqn:E; cbn.
    + rewrite bytes_eqb_refl; reflexivity.
    + rewrite bytes_eqb_refl; reflexivity.
    + destruct (bytes_eqb_spec k a) as [->|N]; [rewrite bytes_cmp_refl in E; discriminate | exact IH].
Qed.

Lemma reg_get_set_other r a b v : a <> b -> reg_get (reg_set r a v) b = reg_get r b.
Proof.
  intro Hab. induction r as [|[k x] r IH]; cbn.
  - destruct (bytes_eqb_spec a b); [contradiction | reflexivity].
  - destruct (bytes_cmp a k) eqn:E; cbn.
    + apply bytes_cmp_eq in E; subst k.
      destruct (bytes_eqb_spec a b); [contradiction | reflexivity].
    + destruct (bytes_eqb_spec a b); [contradiction | reflexivity].
    + destruct (bytes_eqb k b); [reflexivity | exact IH].
Qed.

(** The store keeps its keys strictly ascending (iterator order of GetAllRelayers). *)
Fixpoint keys_above (a : bytes) (r : registry) : Prop :=
  match r with [] => True | (k, _) :: r' => bytes_cmp a k = Lt /\ keys_above a r' end.

Fixpoint reg_sorted (r : registry) : Prop :=
  match r with [] => True | (k, _) :: r' => keys_above k r' /\ reg_sorted r' end.

Lemma keys_above_trans a b r : bytes_cmp a b = Lt -> keys_above b r -> keys_above a r.
Proof.
  induction r as [|[k x] r IH]; cbn; [trivial|]. intros Hab [H1 H2]. split; [|apply IH; assumption].
  eapply bytes_cmp_lt_trans; eassumption.
Qed.

Lemma keys_above_set a b r v : bytes_cmp b a = Lt -> keys_above b r -> keys_above b (reg_set r a v).
Proof.
  induction r as [|[k x] r IH]; cbn; intros Hba H.
  - auto.
  - destruct H as [H1 H2]. destruct (bytes_cmp a k) eqn:E; cbn; auto.
Qed.

Lemma reg_set_sorted r a v : reg_sorted r -> reg_sorted (reg_set r a v).
Proof.
  induction r as [|[k x] r IH]; cbn; [auto|]. intros [H1 H2].
  destruct (bytes_cmp a k) eqn:E; cbn.
  - apply bytes_cmp_eq in E; subst k. auto.
  - split; [split; [exact E | eapply keys_above_trans; eassumption] | auto].
  - split; [|auto]. apply keys_above_set; [|exact H1].
    rewrite bytes_cmp_antisym, E; reflexivity.
Qed.

(** * AuthRelayer / GetRelayerAddressOnOtherChain *)
Lemma existsb_bytes_In c l : existsb (bytes_eqb c) l = true <-> In c l.
Proof.
  rewrite existsb_exists. split.
  - intros [x [Hin E]]. apply bytes_eqb_eq in E; subst; exact Hin.
  - intro H. exists c; split; [exact H | apply bytes_eqb_refl].
Qed.

Lemma auth_relayer_spec r c s :
  auth_relayer r c s = true <-> exists x, reg_get r s = Some x /\ In c (r_chains x).
Proof.
  unfold auth_relayer. destruct (reg_get r s) as [x|].
  - rewrite existsb_bytes_In. split; [intro H; exists x; auto | intros [y [E H]]; inversion E; subst; exact H].
  - split; [discriminate | intros [y [E _]]; discriminate].
Qed.

Lemma first_index_spec cs c i :
  first_index cs c = Some i -> nth_error cs i = Some c /\ forall j, (j < i)%nat -> nth_error cs j <> Some c.
Proof.
  revert i; induction cs as [|ch cs IH]; cbn; intros i H; [discriminate|].
  destruct (bytes_eqb_spec ch c) as [->|N].
  - inversion H; subst. split; [reflexivity | intros j Hj; lia].
  - destruct (first_index cs c) as [i'|]; cbn in H; [|discriminate]. inversion H; subst.
    destruct (IH i' eq_refl) as [H1 H2]. split; [exact H1|].
    intros [|j] Hj; cbn; [congruence | apply H2; lia].
Qed.

Lemma first_index_In cs c : (exists i, first_index cs c = Some i) <-> In c cs.
Proof.
  induction cs as [|ch cs IH]; cbn.
  - split; [intros [i H]; discriminate | intros []].
  - destruct (bytes_eqb_spec ch c) as [->|N].
    + split; [auto | intros _; exists 0%nat; reflexivity].
    + split.
      * intros [i H]. destruct (first_index cs c) as [i'|]; [|discriminate]. right; apply IH; eauto.
      * intros [E|H]; [contradiction|]. apply IH in H as [i H]. rewrite H. cbn. eauto.
Qed.

Lemma nth_error_tl {A} (l : list A) i : nth_error (tl l) i = nth_error l (S i).
Proof. destruct l; cbn; [destruct i; reflexivity | reflexivity]. Qed.

(** the address returned is Addresses[i] for the FIRST i with Chains[i] = chain *)
Lemma addr_at_some cs ads c a :
  addr_at cs ads c = Ok (Some a) <-> exists i, first_index cs c = Some i /\ nth_error ads i = Some a.
Proof.
  revert ads; induction cs as [|ch cs IH]; intro ads; cbn.
  - split; [discriminate | intros [i [H _]]; discriminate].
  - destruct (bytes_eqb ch c).
    + destruct ads as [|x ads]; split.
      * discriminate.
      * intros [i [H1 H2]]. inversion H1; subst. discriminate.
      * intro H; inversion H; subst. exists 0%nat; auto.
      * intros [i [H1 H2]]. inversion H1; subst. cbn in H2. congruence.
    + rewrite IH. split; intros [i [H1 H2]].
      * exists (S i). rewrite H1. split; [reflexivity | rewrite <- nth_error_tl; exact H2].
      * destruct (first_index cs c) as [i'|]; cbn in H1; [|discriminate]. inversion H1; subst.
        exists i'. split; [reflexivity | rewrite nth_error_tl; exact H2].
Qed.

Lemma addr_at_none cs ads c : addr_at cs ads c = Ok None <-> ~ In c cs.
Proof.
  revert ads; induction cs as [|ch cs IH]; intro ads; cbn.
  - split; [tauto | reflexivity].
  - destruct (bytes_eqb_spec ch c) as [->|N].
    + destruct ads; split; try discriminate; intro H; exfalso; apply H; auto.
    + rewrite IH. tauto.
Qed.

(** with equally long lists (ValidateBasic) the lookup never panics *)
Lemma addr_at_no_panic cs ads c : length cs = length ads -> addr_at cs ads c <> Panic.
Proof.
  revert ads; induction cs as [|ch cs IH]; intros [|a ads] Hl; cbn; try discriminate.
  destruct (bytes_eqb ch c); [discriminate | apply IH; cbn in Hl; lia].
Qed.

Lemma other_chain_addr_some r c s a :
  other_chain_addr r c s = Ok (Some a) <->
  exists x i, reg_get r s = Some x /\ first_index (r_chains x) c = Some i /\ nth_error (r_addrs x) i = Some a.
Proof.
  unfold other_chain_addr. destruct (reg_get r s) as [x|].
  - rewrite addr_at_some. split.
    + intros [i H]. exists x, i. tauto.
    + intros [y [i [E H]]]. inversion E; subst. eauto.
  - split; [discriminate | intros [y [i [E _]]]; discriminate].
Qed.

Lemma other_chain_addr_listed r c s a :
  other_chain_addr r c s = Ok (Some a) -> auth_relayer r c s = true.
Proof.
  intro H. apply other_chain_addr_some in H as [x [i [E [H1 H2]]]].
  apply auth_relayer_spec. exists x. split; [exact E|]. apply first_index_In. eauto.
Qed.

Lemma other_chain_addr_unlisted r c s :
  auth_relayer r c s = false -> other_chain_addr r c s = Ok None.
Proof.
  unfold auth_relayer, other_chain_addr. destruct (reg_get r s) as [x|]; [|reflexivity].
  intro H. apply addr_at_none. intro Hin. apply existsb_bytes_In in Hin. congruence.
Qed.

(** * The three handlers *)
Section Handlers.
  Variables (D HD PK AK : Type).
  Variable canon : bytes -> bytes.
  Variable fold_eq : bytes -> bytes -> bool.
  Variable bech32_ok : bytes -> bool.
  Variable L : lower D HD PK AK.

  Notation state := (state D).
  Notation handle_update := (handle_update D HD PK AK canon L).
  Notation handle_recv := (handle_recv D HD PK AK L).
  Notation handle_ack := (handle_ack D HD PK AK fold_eq bech32_ok L).
  Notation step := (step D HD PK AK canon fold_eq bech32_ok L).
  Notation run := (run D HD PK AK canon fold_eq bech32_ok L).
  Notation op := (op D HD PK AK).
  Notation reg_effect := (reg_effect D HD PK AK bech32_ok).
  Notation registers := (registers D HD PK AK bech32_ok).
  Notation tss_signer_ok := (tss_signer_ok D HD PK AK L).

  Lemma check_msg_tss a s : check_msg canon (TSS a) s = true -> canon s = a.
  Proof. cbn. intro H. apply bytes_eqb_eq in H. congruence. Qed.

  Lemma tss_signer_ok_tss d c s a :
    client_of L d c = Some (TSS a) -> tss_signer_ok d c s = true -> s = a.
  Proof. unfold Auth.tss_signer_ok. intros -> H. apply bytes_eqb_eq in H; exact H. Qed.

  Lemma handle_update_ok s m s' :
    handle_update s m = Ok s' ->
    auth_relayer (reg D s) (um_chain HD m) (um_signer HD m) = true /\
    exists c d', client_of L (low D s) (um_chain HD m) = Some c /\ check_msg canon c (um_signer HD m) = true /\
      lo_update D HD PK AK L (low D s) (um_chain HD m) (um_header HD m) = Ok d' /\ s' = set_low D s d'.
  Proof.
    unfold Auth.handle_update.
    destruct (auth_relayer (reg D s) (um_chain HD m) (um_signer HD m)); cbn; [|discriminate].
    destruct (client_of L (low D s) (um_chain HD m)) as [c|] eqn:Ec; [|discriminate].
    destruct (check_msg canon c (um_signer HD m)) eqn:Ck; cbn; [|discriminate].
    destruct (lo_update D HD PK AK L (low D s) (um_chain HD m) (um_header HD m)) as [d'| |] eqn:Eu; cbn; try discriminate.
    intro H; inversion H; subst. split; [reflexivity|]. exists c, d'. auto.
  Qed.

  (** what an accepted RecvPacket has established and done *)
  Definition wack_of (m : recv_msg PK) (a : ack) : wack :=
    {| w_src := rm_src PK m; w_dst := rm_dst PK m; w_seq := rm_seq PK m; w_ack := a |}.

  Lemma handle_recv_ok s m s' :
    handle_recv s m = Ok s' ->
    tss_signer_ok (low D s) (rm_src PK m) (rm_signer PK m) = true /\
    exists d1 relayer,
      lo_recv D HD PK AK L (low D s) m = Ok d1 /\
      other_chain_addr (reg D s) (rm_src PK m) (rm_signer PK m) = Ok (Some relayer) /\
      reg D s' = reg D s /\
      ((wlog D s' = wlog D s /\ rm_dst PK m <> self_chain L d1 /\ client_of L d1 (rm_dst PK m) <> None)
       \/ exists a, wlog D s' = wlog D s ++ [wack_of m a] /\ ack_relayer a = relayer /\ ack_fee a = rm_fee PK m).
  Proof.
    unfold Auth.handle_recv, packet_recv.
    destruct (tss_signer_ok (low D s) (rm_src PK m) (rm_signer PK m)); [|discriminate].
    destruct (lo_recv D HD PK AK L (low D s) m) as [d1| |]; cbn; try discriminate.
    destruct (other_chain_addr (reg D s) (rm_src PK m) (rm_signer PK m)) as [[relayer|]| |]; cbn; try discriminate.
    intro H. split; [reflexivity|]. exists d1, relayer. split; [reflexivity|]. split; [reflexivity|].
    assert (W : forall d a, write_ack D HD PK AK L s d m a = Ok s' ->
                reg D s' = reg D s /\ wlog D s' = wlog D s ++ [wack_of m a]).
    { intros d a. unfold write_ack. destruct (lo_write_ack D HD PK AK L d m a); cbn; try discriminate.
      intro E; inversion E; subst; cbn. auto. }
    destruct (bytes_eqb_spec (rm_dst PK m) (self_chain L d1)) as [Es|Ns].
    - destruct (lo_callback D HD PK AK L d1 m) as [d2|d2 r|]; [| destruct r as [[[code res] msg]|] |]; try discriminate.
      + apply W in H as [H1 H2]. split; [exact H1|]. right. eexists. split; [exact H2|]. cbn; auto.
      + apply W in H as [H1 H2]. split; [exact H1|]. right. eexists. split; [exact H2|]. cbn; auto.
    - destruct (client_of L d1 (rm_dst PK m)) as [c|] eqn:Ec.
      + inversion H; subst; cbn. split; [reflexivity|]. left. split; [reflexivity|]. split; [exact Ns | congruence].
      + apply W in H as [H1 H2]. split; [exact H1|]. right. eexists; split; [exact H2|]. cbn; auto.
  Qed.

  (** an accepted receive ADDRESSED TO THIS CHAIN always writes an acknowledgement *)
  Lemma handle_recv_self_writes s m s' d1 :
    handle_recv s m = Ok s' -> lo_recv D HD PK AK L (low D s) m = Ok d1 -> rm_dst PK m = self_chain L d1 ->
    exists a, wlog D s' = wlog D s ++ [wack_of m a].
  Proof.
    intros H E Es. apply handle_recv_ok in H as [_ [d1' [rel [E' [_ [_ [[_ [N _]]|[a [Ha _]]]]]]]]].
    - rewrite E in E'; inversion E'; subst. contradiction.
    - eauto.
  Qed.

  (** GetRelayerAddressOnTeleport: specification of the result *)
  Definition lists_pair (x : relayer) (c a : bytes) : Prop :=
    exists i y, nth_error (r_chains x) i = Some c /\ nth_error (r_addrs x) i = Some y /\ fold_eq y a = true.

  Lemma rev_match_true cs ads c a :
    rev_match fold_eq cs ads c a = Ok true ->
    exists i y, nth_error cs i = Some c /\ nth_error ads i = Some y /\ fold_eq y a = true.
  Proof.
    revert ads; induction cs as [|ch cs IH]; intro ads; cbn; [discriminate|].
    destruct (bytes_eqb_spec ch c) as [->|N].
    - destruct ads as [|x ads]; [discriminate|]. destruct (fold_eq x a) eqn:F.
      + intros _. exists 0%nat, x. auto.
      + intro H. apply IH in H as [i [y [H1 [H2 H3]]]]. exists (S i), y. cbn in H2. auto.
    - intro H. apply IH in H as [i [y [H1 [H2 H3]]]]. exists (S i), y. rewrite nth_error_tl in H2. auto.
  Qed.

  Lemma rev_match_false cs ads c a :
    rev_match fold_eq cs ads c a = Ok false ->
    forall i y, nth_error cs i = Some c -> nth_error ads i = Some y -> fold_eq y a = false.
  Proof.
    revert ads; induction cs as [|ch cs IH]; intro ads; cbn.
    - intros _ [|i] y H; discriminate.
    - destruct (bytes_eqb_spec ch c) as [->|N].
      + destruct ads as [|x ads]; [discriminate|]. destruct (fold_eq x a) eqn:F; [discriminate|].
        intros H [|i] y H1 H2; cbn in *; [congruence | eapply IH; eauto].
      + intros H [|i] y H1 H2; cbn in *; [congruence|]. eapply IH; eauto. rewrite nth_error_tl; exact H2.
  Qed.

  Lemma teleport_addr_some r c a p :
    teleport_addr fold_eq r c a = Ok (Some p) ->
    exists r1 x r2, r = r1 ++ (p, x) :: r2 /\ lists_pair x c a /\
      forall k' x', In (k', x') r1 -> ~ lists_pair x' c a.
  Proof.
    induction r as [|[k x] r IH]; cbn; [discriminate|].
    destruct (rev_match fold_eq (r_chains x) (r_addrs x) c a) as [[|]| |] eqn:E; cbn; try discriminate.
    - intro H; inversion H; subst. exists [], x, r. split; [reflexivity|]. split.
      + apply rev_match_true in E. exact E.
      + intros k' x' [].
    - intro H. apply IH in H as [r1 [x1 [r2 [-> [H1 H2]]]]].
      exists ((k, x) :: r1), x1, r2. split; [reflexivity|]. split; [exact H1|].
      intros k' x' [Eq|Hin].
      + inversion Eq; subst. intros [i [y [A [B C]]]].
        pose proof (rev_match_false _ _ _ _ E i y A B). congruence.
      + eapply H2; eauto.
  Qed.

  Lemma handle_ack_ok s m s' :
    handle_ack s m = Ok s' ->
    tss_signer_ok (low D s) (am_dst AK m) (am_signer AK m) = true /\
    reg D s' = reg D s /\ wlog D s' = wlog D s /\
    exists d1 a, lo_ack D HD PK AK L (low D s) m = Ok d1 /\ am_ack AK m = Some a /\ ack_is_zero a = false /\
      (am_src AK m = self_chain L d1 ->
       exists payee d2 d3, teleport_addr fold_eq (reg D s) (am_dst AK m) (ack_relayer a) = Ok (Some payee) /\
         bech32_ok payee = true /\ lo_set_status D HD PK AK L d1 m = Ok d2 /\ lo_pay D HD PK AK L d2 m payee = Ok d3).
  Proof.
    unfold Auth.handle_ack, packet_ack.
    destruct (tss_signer_ok (low D s) (am_dst AK m) (am_signer AK m)); [|discriminate].
    destruct (lo_ack D HD PK AK L (low D s) m) as [d1| |] eqn:El; cbn; try discriminate.
    destruct (am_ack AK m) as [a|] eqn:Ea; [|discriminate].
    destruct (ack_is_zero a) eqn:Z; [discriminate|].
    destruct (bytes_eqb_spec (am_src AK m) (self_chain L d1)) as [Es|Ns].
    - destruct (lo_set_status D HD PK AK L d1 m) as [d2| |] eqn:E2; cbn; try discriminate.
      destruct (teleport_addr fold_eq (reg D s) (am_dst AK m) (ack_relayer a)) as [[payee|]| |] eqn:Et; cbn; try discriminate.
      destruct (bech32_ok payee) eqn:Bk; cbn; [|discriminate].
      destruct (lo_pay D HD PK AK L d2 m payee) as [d3| |] eqn:Ep; cbn; try discriminate.
      destruct (lo_on_ack D HD PK AK L d3 m) as [d4| |]; cbn; try discriminate.
      intro H; inversion H; subst; cbn.
      split; [reflexivity|]. split; [reflexivity|]. split; [reflexivity|].
      exists d1, a. split; [reflexivity|]. split; [reflexivity|]. split; [exact Z|].
      intros _. exists payee, d2, d3. auto.
    - intro H; inversion H; subst; cbn.
      split; [reflexivity|]. split; [reflexivity|]. split; [reflexivity|].
      exists d1, a. split; [reflexivity|]. split; [reflexivity|]. split; [exact Z|].
      intro; contradiction.
  Qed.

  (** * Steps and histories *)
  Lemma deliver_rejected s r : snd (deliver D s r) = false -> fst (deliver D s r) = s.
  Proof. destruct r; cbn; [discriminate | reflexivity | reflexivity]. Qed.

  Lemma step_rejected s o : snd (step s o) = false -> fst (step s o) = s.
  Proof.
    destruct o; cbn; try apply deliver_rejected; try discriminate.
    destruct (validate_basic bech32_ok a chains addrs); [apply deliver_rejected | reflexivity].
  Qed.

  Lemma do_register_step s a cs ads :
    reg D (fst (deliver D s (do_register D s a cs ads))) =
    match reg_write a cs ads with Some (a', x) => reg_set (reg D s) a' x | None => reg D s end.
  Proof. unfold do_register, register_relayers, reg_write. destruct a; reflexivity. Qed.

  Lemma step_reg s o :
    reg D (fst (step s o)) =
    match reg_effect o with Some (a, x) => reg_set (reg D s) a x | None => reg D s end.
  Proof.
    destruct o; cbn; try reflexivity.
    - destruct (validate_basic bech32_ok a chains addrs); [apply do_register_step | reflexivity].
    - apply do_register_step.
    - destruct (handle_update s m) as [s'| |] eqn:E; cbn; try reflexivity.
      apply handle_update_ok in E as [_ [c [d' [_ [_ [_ ->]]]]]]. reflexivity.
    - destruct (handle_recv s m) as [s'| |] eqn:E; cbn; try reflexivity.
      apply handle_recv_ok in E as [_ [d1 [rel [_ [_ [H _]]]]]]. exact H.
    - destruct (handle_ack s m) as [s'| |] eqn:E; cbn; try reflexivity.
      apply handle_ack_ok in E as [_ [H _]]. exact H.
  Qed.

  Lemma run_app l1 l2 s : run (l1 ++ l2) s = run l2 (run l1 s).
  Proof. revert s; induction l1 as [|o l1 IH]; intro s; cbn; [reflexivity | apply IH]. Qed.

  Lemma registers_false_get o a s :
    registers o a = false -> reg_get (reg D (fst (step s o))) a = reg_get (reg D s) a.
  Proof.
    unfold Auth.registers. rewrite step_reg. destruct (reg_effect o) as [[a' x]|]; [|reflexivity].
    intro H. apply bytes_eqb_neq in H. apply reg_get_set_other; exact H.
  Qed.

  (** operations that do not (successfully) register [a] leave [a]'s record alone *)
  Lemma run_reg_untouched ops s a :
    (forall o, In o ops -> registers o a = false) -> reg_get (reg D (run ops s)) a = reg_get (reg D s) a.
  Proof.
    revert s; induction ops as [|o ops IH]; intros s H; cbn; [reflexivity|].
    rewrite IH by (intros o' Ho'; apply H; right; exact Ho').
    apply registers_false_get. apply H; left; reflexivity.
  Qed.

  (** the current record of [a] is the one written by the LAST registration of [a] *)
  Lemma run_reg_last pre o post s a x :
    reg_effect o = Some (a, x) -> (forall o', In o' post -> registers o' a = false) ->
    reg_get (reg D (run (pre ++ o :: post) s)) a = Some x.
  Proof.
    intros E H. rewrite run_app. cbn. rewrite run_reg_untouched by exact H.
    rewrite step_reg, E. apply reg_get_set_same.
  Qed.

  Lemma step_sorted s o : reg_sorted (reg D s) -> reg_sorted (reg D (fst (step s o))).
  Proof.
    rewrite step_reg. destruct (reg_effect o) as [[a x]|]; [apply reg_set_sorted | trivial].
  Qed.

  Lemma run_sorted ops s : reg_sorted (reg D s) -> reg_sorted (reg D (run ops s)).
  Proof. revert s; induction ops as [|o ops IH]; intros s H; cbn; [exact H | apply IH, step_sorted, H]. Qed.

  (** every record written through governance has equally long, non-empty lists and a
      parsable address — so the lookups cannot panic on a governance-only registry *)
  Definition rec_wf (kx : bytes * relayer) : Prop :=
    length (r_chains (snd kx)) = length (r_addrs (snd kx)) /\ bech32_ok (fst kx) = true.

  Lemma reg_set_wf r a x : Forall rec_wf r -> rec_wf (a, x) -> Forall rec_wf (reg_set r a x).
  Proof.
    induction r as [|[k y] r IH]; cbn; intros H W; [auto|].
    inversion H; subst. destruct (bytes_cmp a k); auto.
  Qed.

  Definition gov_only (o : op) : Prop := match o with ORegRaw _ _ _ _ _ _ _ => False | _ => True end.

  Lemma run_wf ops s :
    Forall gov_only ops -> Forall rec_wf (reg D s) -> Forall rec_wf (reg D (run ops s)).
  Proof.
    revert s; induction ops as [|o ops IH]; intros s G W; cbn; [exact W|].
    inversion G; subst. apply IH; [assumption|]. rewrite step_reg.
    destruct o; cbn in *; try exact W; try contradiction.
    unfold validate_basic. destruct (bech32_ok a) eqn:Bk; cbn; [|exact W].
    destruct (length addrs =? 0)%nat; cbn; [exact W|].
    destruct (length addrs =? length chains)%nat eqn:El; cbn; [|exact W].
    destruct (forallb chain_id_ok chains); cbn; [|exact W].
    unfold reg_write. destruct a as [|b a]; [exact W|].
    apply reg_set_wf; [exact W|]. split; cbn [fst snd r_chains r_addrs]; [apply Nat.eqb_eq in El; lia | exact Bk].
  Qed.

  Lemma reg_get_wf r a x : Forall rec_wf r -> reg_get r a = Some x -> length (r_chains x) = length (r_addrs x).
  Proof.
    induction r as [|[k y] r IH]; cbn; [discriminate|]. intros H. inversion H; subst.
    destruct (bytes_eqb k a); [intro E; inversion E; subst; apply H2 | apply IH; assumption].
  Qed.

  Lemma other_chain_addr_no_panic r c s : Forall rec_wf r -> other_chain_addr r c s <> Panic.
  Proof.
    intro W. unfold other_chain_addr. destruct (reg_get r s) as [x|] eqn:E; [|discriminate].
    apply addr_at_no_panic. eapply reg_get_wf; eassumption.
  Qed.
End Handlers.
