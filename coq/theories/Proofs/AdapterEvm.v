(** End-to-end attribution in the MODELLED EVM (Model/AdapterEvm.v): the items the hooks extract
    from the logs of any call tree are exactly the surviving invocations of system-contract code
    running AT the system address, each signed by that frame's msg.sender. *)
From Teleport Require Import Base.Bytes Base.Outcome Model.Adapter Model.AdapterEvm
  Proofs.Adapter Proofs.AdapterAbi Proofs.AdapterFields.
Local Open Scope N_scope.

Definition item_of_inv (iv : invocation) : outcome msg := item_of_event (event_of (snd iv) (snd (fst iv))).

Definition inv_for (h : hkind) (iv : invocation) : bool := hkind_eqb (fst (fst iv)) h.

(** sizes: addresses are 20 bytes and every event the tree can emit is shorter than 2^62 bytes *)
Definition addr_ok (a : bytes) : Prop := length a = 20%nat.

Fixpoint sizes_ok (c : code) : Prop :=
  match c with
  | CSys _ f => forall sender, addr_ok sender -> blen (encode_event (event_of f sender)) < 2 ^ 62
  | CEmit _ _ => True
  | CProxy _ _ _ _ target inner => addr_ok target /\ sizes_ok inner
  | CStop => True
  | CSeq _ _ target inner rest => addr_ok target /\ sizes_ok inner /\ sizes_ok rest
  end.

(** frame invariant: only system-contract code ever runs at a system address *)
Definition frame_inv (c : code) (x : fctx) : Prop :=
  match c with
  | CSys h _ => fx_self x = sys_addr h \/ is_sys_addr (fx_self x) = false
  | _ => is_sys_addr (fx_self x) = false
  end.

Lemma hkind_eqb_eq a b : hkind_eqb a b = true <-> a = b.
Proof. destruct a, b; cbn; split; congruence. Qed.

Lemma sys_addr_is_sys h : is_sys_addr (sys_addr h) = true.
Proof. destruct h; vm_compute; reflexivity. Qed.

Lemma not_sys_neq a h : is_sys_addr a = false -> a <> sys_addr h.
Proof. intros H E. subst a. rewrite sys_addr_is_sys in H. discriminate. Qed.

Lemma event_hook f s : hook_of_kind (kind_of_event (event_of f s)) = fn_contract f.
Proof. destruct f; reflexivity. Qed.

Lemma two_consts : two64 = 2 ^ 64 /\ two32 = 2 ^ 32.
Proof. split; reflexivity. Qed.

Lemma event_wf f s :
  addr_ok s -> args_ok f = true -> blen (encode_event (event_of f s)) < 2 ^ 62 -> wf_event (event_of f s).
Proof.
  intros A R B. split; [exact B|]. destruct two_consts as [E64 E32]. unfold two256 in *.
  destruct f as [v a | v a | sv tv a | v | pid opt | pid os]; cbn [event_of args_ok] in *.
  - apply N.ltb_lt in R. split; assumption.
  - apply N.ltb_lt in R. split; assumption.
  - apply N.ltb_lt in R. split; assumption.
  - exact A.
  - apply andb_true_iff in R as [R1 R2]. apply N.ltb_lt in R1, R2. rewrite E64 in R1. rewrite E32 in R2. repeat split; assumption.
  - apply andb_true_iff in R as [R1 R2]. apply N.ltb_lt in R1. rewrite E64 in R1. repeat split; try assumption.
    rewrite forallb_forall in R2. apply Forall_forall. intros ow I. specialize (R2 _ I).
    apply andb_true_iff in R2 as [R3 R4]. apply N.ltb_lt in R3, R4. rewrite E32 in R3. rewrite E64 in R4. split; assumption.
Qed.

Lemma filter_app' {A} (f : A -> bool) a b : filter f (a ++ b) = filter f a ++ filter f b.
Proof. apply filter_app. Qed.

(** the statement for one hook and one frame *)
Definition frame_spec (h : hkind) (r : fres) : Prop :=
  filter_map (classify h) (fr_logs r) = map item_of_inv (filter (inv_for h) (fr_inv r)).

Lemma frame_spec_fail h : frame_spec h ffail.
Proof. reflexivity. Qed.

Lemma frame_spec_app h a b : frame_spec h a -> frame_spec h b -> frame_spec h (fapp a b).
Proof.
  unfold frame_spec, fapp. cbn [fr_logs fr_inv]. intros Ha Hb.
  rewrite filter_map_app, filter_app, map_app, Ha, Hb. reflexivity.
Qed.

(** the invariant passes to the callee's frame, whatever the call kind *)
Lemma child_frame_inv k target inner x :
  code_at_ok target inner = true -> is_sys_addr (fx_self x) = false -> frame_inv inner (child_ctx k target x).
Proof.
  intros W1 I. unfold code_at_ok in W1.
  destruct k; cbn [child_ctx fx_self]; destruct inner; cbn [frame_inv];
    try (apply bytes_eqb_eq in W1; left; exact W1);
    try (apply negb_true_iff in W1; exact W1);
    try (right; exact I); try exact I.
Qed.

Lemma child_addr_ok k target x :
  addr_ok target -> addr_ok (fx_self x) -> addr_ok (fx_sender x) ->
  addr_ok (fx_self (child_ctx k target x)) /\ addr_ok (fx_sender (child_ctx k target x)).
Proof. intros; destruct k; cbn [child_ctx fx_self fx_sender]; split; assumption. Qed.

Lemma batch_tail_inv rest x : is_batch_tail rest = true -> is_sys_addr (fx_self x) = false -> frame_inv rest x.
Proof. destruct rest; cbn; try discriminate; intros _ I; exact I. Qed.

Theorem exec_code_spec h : forall c x,
  wf_code c = true -> sizes_ok c -> frame_inv c x -> addr_ok (fx_self x) -> addr_ok (fx_sender x) ->
  frame_spec h (exec_code c x).
Proof.
  induction c as [hc f | ts d | k ign rev twice target inner IH | | k ign target inner IH rest IHr];
    intros x W Z I As Asd; cbn [exec_code].
  - (* system contract code *)
    destruct (fx_static x); [apply frame_spec_fail|].
    destruct (hkind_eqb (fn_contract f) hc) eqn:Ec; cbn [negb]; [|apply frame_spec_fail].
    apply hkind_eqb_eq in Ec.
    destruct (args_ok f) eqn:Ea; cbn [negb]; [|apply frame_spec_fail].
    unfold frame_spec. cbn [fr_logs fr_inv filter_map].
    cbn [frame_inv] in I. cbn [sizes_ok] in Z.
    pose proof (event_wf f (fx_sender x) Asd Ea (Z _ Asd)) as Wf.
    destruct I as [I|I].
    + (* at the system address *)
      rewrite I, bytes_eqb_refl. unfold inv_for. cbn [filter fst].
      destruct (hkind_eqb hc h) eqn:Eh.
      * apply hkind_eqb_eq in Eh. subst h.
        pose proof (classify_canonical _ Wf) as C. rewrite event_hook, Ec in C. rewrite C. reflexivity.
      * assert (N : h <> hook_of_kind (kind_of_event (event_of f (fx_sender x)))).
        { rewrite event_hook, Ec. intro E. subst h. destruct hc; discriminate. }
        rewrite (classify_canonical_other_hook _ _ _ N). reflexivity.
    + (* system code running at another address (DELEGATECALL / CALLCODE): nothing *)
      rewrite (classify_canonical_foreign _ h _ (not_sys_neq _ h I)).
      pose proof (not_sys_neq _ hc I) as N. apply bytes_eqb_neq in N. rewrite N. reflexivity.
  - (* emitter *)
    destruct (fx_static x); [apply frame_spec_fail|]. destruct (4 <? length ts)%nat; [apply frame_spec_fail|].
    unfold frame_spec. cbn [fr_logs fr_inv filter_map filter map].
    cbn [frame_inv] in I. rewrite classify_foreign; [reflexivity|]. cbn [l_addr]. apply not_sys_neq; exact I.
  - (* proxy *)
    destruct (fx_static x) eqn:Es; [apply frame_spec_fail|].
    cbn [wf_code] in W. apply andb_true_iff in W as [W1 W2]. cbn [sizes_ok] in Z. destruct Z as [At Z].
    cbn [frame_inv] in I.
    assert (Hc : frame_spec h (exec_code inner (child_ctx k target x))).
    { destruct (child_addr_ok k target x At As Asd) as [A1 A2].
      apply IH; [exact W2 | exact Z | apply child_frame_inv; assumption | exact A1 | exact A2]. }
    set (r := exec_code inner (child_ctx k target x)) in *.
    destruct (negb (fr_ok r) && negb ign); [apply frame_spec_fail|].
    set (r1 := if fr_ok r then r else {| fr_ok := true; fr_logs := []; fr_ctr := []; fr_inv := [] |}).
    assert (H1 : frame_spec h r1) by (unfold r1; destruct (fr_ok r); [exact Hc | reflexivity]).
    assert (Hrr : frame_spec h (if twice then fapp r1 r1 else r1)).
    { destruct twice; [apply frame_spec_app; exact H1 | exact H1]. }
    destruct rev; [apply frame_spec_fail|]. exact Hrr.
  - (* end of a batch *)
    destruct (fx_static x); [apply frame_spec_fail|]. reflexivity.
  - (* batch: one call, then the rest of the list in the same frame *)
    destruct (fx_static x) eqn:Es; [apply frame_spec_fail|].
    cbn [wf_code] in W. apply andb_true_iff in W as [W W4]. apply andb_true_iff in W as [W W3].
    apply andb_true_iff in W as [W1 W2]. cbn [sizes_ok] in Z. destruct Z as [At [Z Zr]].
    cbn [frame_inv] in I.
    assert (Hc : frame_spec h (exec_code inner (child_ctx k target x))).
    { destruct (child_addr_ok k target x At As Asd) as [A1 A2].
      apply IH; [exact W2 | exact Z | apply child_frame_inv; assumption | exact A1 | exact A2]. }
    assert (Hr : frame_spec h (exec_code rest x)).
    { apply IHr; [exact W4 | exact Zr | apply batch_tail_inv; assumption | exact As | exact Asd]. }
    set (r := exec_code inner (child_ctx k target x)) in *.
    destruct (negb (fr_ok r) && negb ign); [apply frame_spec_fail|].
    set (r1 := if fr_ok r then r else {| fr_ok := true; fr_logs := []; fr_ctr := []; fr_inv := [] |}).
    assert (H1 : frame_spec h r1) by (unfold r1; destruct (fr_ok r); [exact Hc | reflexivity]).
    destruct (fr_ok (exec_code rest x)); [apply frame_spec_app; assumption | apply frame_spec_fail].
Qed.

(** signer of the item = msg.sender of the invocation *)
Definition msg_signer (m : msg) : bytes :=
  match m with
  | MDelegate d _ _ | MUndelegate d _ _ | MRedelegate d _ _ _ | MWithdraw d _ | MVote d _ _ | MVoteW d _ _ => d
  end.

Lemma item_signer iv m : item_of_inv iv = Ok m -> msg_signer m = snd (fst iv).
Proof.
  unfold item_of_inv, item_of_event. destruct iv as [[h s] f]. cbn [fst snd].
  destruct f as [v a | v a | sv tv a | v | pid opt | pid os]; cbn [event_of msg_of_event obind];
    try (destruct (validate_basic _); [intros [= <-]; reflexivity | discriminate]).
  destruct os; [discriminate|]. cbn [obind]. destruct (validate_basic _); [intros [= <-]; reflexivity | discriminate].
Qed.

(** whole transactions *)
Definition tx_sizes_ok (t : txd) : Prop := sizes_ok (tx_code t) /\ addr_ok (tx_to t) /\ addr_ok (tx_sender t).

Lemma wf_tx_inv t : wf_tx t = true ->
  frame_inv (tx_code t) {| fx_self := tx_to t; fx_sender := tx_sender t; fx_static := false |}.
Proof.
  unfold wf_tx. intro W. apply andb_true_iff in W as [W _]. unfold code_at_ok in W.
  destruct (tx_code t); cbn [frame_inv fx_self].
  - left. apply bytes_eqb_eq; exact W.
  - apply negb_true_iff; exact W.
  - apply negb_true_iff; exact W.
  - apply negb_true_iff; exact W.
  - apply negb_true_iff; exact W.
Qed.

Theorem run_tx_spec h t :
  wf_tx t = true -> tx_sizes_ok t ->
  filter_map (classify h) (fr_logs (run_tx t)) = map item_of_inv (filter (inv_for h) (fr_inv (run_tx t))).
Proof.
  intros W [Z [At As]]. apply exec_code_spec; auto.
  - unfold wf_tx in W. apply andb_true_iff in W as [_ W]. exact W.
  - apply wf_tx_inv; exact W.
Qed.

(** an invocation is recorded only for a frame entered by CALL / STATICCALL on the system address:
    its sender is the immediate caller.  (Stated on [child_ctx]: DELEGATECALL and CALLCODE keep the
    caller's own address, so they can never produce a frame at the system address from a
    non-system contract.) *)
Lemma child_at_sys_only_by_call k target x h :
  is_sys_addr (fx_self x) = false -> fx_self (child_ctx k target x) = sys_addr h ->
  (k = KCall \/ k = KStaticCall) /\ target = sys_addr h /\ fx_sender (child_ctx k target x) = fx_self x.
Proof.
  intros N E. destruct k; cbn [child_ctx fx_self fx_sender] in *.
  - repeat split; auto.
  - exfalso. apply (not_sys_neq _ h N). exact E.
  - repeat split; auto.
  - exfalso. apply (not_sys_neq _ h N). exact E.
Qed.

(** ** a whole user transaction in the modelled stack: EVM call tree, hooks, ethermint's commit-or-discard *)
Lemma items_are_messages (ivs : list invocation) : forall ms,
  map item_of_inv ivs = map Ok ms -> Forall2 (fun iv m => item_of_inv iv = Ok m) ivs ms.
Proof.
  induction ivs as [|iv ivs IH]; intros [|m ms] H; try discriminate; [constructor|].
  cbn [map] in H. inversion H. constructor; [assumption | apply IH; assumption].
Qed.

Theorem user_tx_end_to_end (S : Type) (exec : msg -> S -> outcome S) (evm : S -> S) t s r s' :
  wf_tx t = true -> tx_sizes_ok t ->
  deliver exec evm (fr_logs (run_tx t)) s = (r, s') ->
  (r = Ok tt ->
     exists ms,
       Forall2 (fun iv m => item_of_inv iv = Ok m)
               (filter (inv_for HStaking) (fr_inv (run_tx t)) ++ filter (inv_for HGov) (fr_inv (run_tx t))) ms /\
       run_msgs S exec ms (evm s) = Ok s') /\
  (r <> Ok tt -> s' = s).
Proof.
  intros W Z D. split.
  - intros ->. apply deliver_ok in D. rewrite multi_hook_char, !run_tx_spec in D by assumption.
    destruct (run_items_ok S exec _ _ _ D) as [ms [E R]]. exists ms. split; [|exact R].
    apply items_are_messages. rewrite map_app. exact E.
  - intro N. eapply deliver_fail; eauto.
Qed.
