(** The message built from an event carries the event's fields verbatim; where a Go cast could
    change a value ([uint32 -> VoteOption(int32)], [uint64 -> int64] weights) the value is rejected
    by [ValidateBasic] before the router is reached. *)
From Teleport Require Import Base.Bytes Base.Outcome Model.Adapter Proofs.Adapter Proofs.AdapterAbi.
From Coq Require Import ZifyN ZifyNat.
Local Open Scope N_scope.

Lemma handler_of_topic k : handler_of (hook_of_kind k) (topic_of k) = Some k.
Proof. destruct k; vm_compute; reflexivity. Qed.

(** the six event ids are pairwise distinct, and an event id of one contract is unknown to the other hook *)
Lemma handler_of_other_hook k h : h <> hook_of_kind k -> handler_of h (topic_of k) = None.
Proof. destruct k, h; cbn; intro N; try (exfalso; apply N; reflexivity); vm_compute; reflexivity. Qed.

Lemma handler_of_sound h t k : handler_of h t = Some k -> t = topic_of k /\ hook_of_kind k = h.
Proof.
  unfold handler_of. intro H. apply find_some in H as [I E]. apply bytes_eqb_eq in E. split; [exact E|].
  destruct h; cbn in I; repeat (destruct I as [<-|I]; [reflexivity|]); contradiction.
Qed.

(** the canonical log of a well-formed event emitted AT the system address is classified as the
    item of exactly that event *)
Theorem classify_canonical e :
  wf_event e ->
  classify (hook_of_kind (kind_of_event e)) (log_of_event (sys_addr (hook_of_kind (kind_of_event e))) e)
  = Some (item_of_event e).
Proof.
  intro W. unfold classify, log_of_event. cbn [l_addr l_topics l_data length].
  rewrite bytes_eqb_refl, handler_of_topic, (parse_log_encode e W). reflexivity.
Qed.

(** ... and is skipped by the other hook, and by both hooks when emitted from any other address *)
Lemma classify_canonical_other_hook e h self :
  h <> hook_of_kind (kind_of_event e) -> classify h (log_of_event self e) = None.
Proof.
  intro N. unfold classify, log_of_event. cbn [l_addr l_topics l_data].
  destruct (bytes_eqb self (sys_addr h)); [|reflexivity]. rewrite (handler_of_other_hook _ _ N). reflexivity.
Qed.

Lemma classify_canonical_foreign e h self : self <> sys_addr h -> classify h (log_of_event self e) = None.
Proof. intro N. apply classify_foreign. exact N. Qed.

(** ** casts *)
Lemma to_int32_small n : n < 2 ^ 32 -> (1 <= to_int32 n <= 4)%Z -> to_int32 n = Z.of_N n /\ 1 <= n <= 4.
Proof.
  intros H V. unfold to_int32 in *. change 4294967296 with (2 ^ 32) in *. rewrite N.mod_small in * by exact H.
  destruct (n <? 2147483648) eqn:E; [split; [reflexivity|lia]|]. apply N.ltb_ge in E. lia.
Qed.

Lemma to_int64_small n : n < 2 ^ 64 -> (0 < to_int64 n <= 100)%Z -> to_int64 n = Z.of_N n /\ 1 <= n <= 100.
Proof.
  intros H V. unfold to_int64 in *. change 18446744073709551616 with (2 ^ 64) in *. rewrite N.mod_small in * by exact H.
  destruct (n <? 9223372036854775808) eqn:E; [split; [reflexivity|lia]|]. apply N.ltb_ge in E. lia.
Qed.

Lemma valid_option_iff o : valid_option o = true <-> (1 <= o <= 4)%Z.
Proof. unfold valid_option. rewrite andb_true_iff, !Z.leb_le. reflexivity. Qed.

Definition weight_sum (os : list (Z * Z)) : Z := fold_right (fun ow acc => (snd ow + acc)%Z) 0%Z os.

Lemma weights_ok_spec os : forall seen total,
  weights_ok seen total os = true ->
  Forall (fun ow => (1 <= fst ow <= 4)%Z /\ (0 < snd ow <= 100)%Z) os /\ (total + weight_sum os = 100)%Z.
Proof.
  induction os as [|[o w] os IH]; intros seen total H; cbn in H.
  - split; [constructor|]. apply Z.eqb_eq in H. cbn. lia.
  - rewrite !andb_true_iff in H. destruct H as [[[[H1 H2] H3] _] H5].
    apply Z.ltb_lt in H1. apply Z.leb_le in H2. apply valid_option_iff in H3.
    destruct (IH _ _ H5) as [F T]. split; [constructor; [cbn; lia | exact F]|]. cbn [weight_sum fold_right snd]. fold (weight_sum os). lia.
Qed.

Lemma nonempty_iff b : nonempty b = true <-> b <> [].
Proof. destruct b; cbn; split; congruence. Qed.

(** ** fields_verbatim: whenever a handler submits a message to the router, every field of the
    message is the corresponding field of the decoded event, unchanged:
    - signer (delegator / voter) = the event's first field;
    - validator strings = the event's strings, byte for byte (non-empty);
    - amount = the event's uint256, for EVERY value 1 .. 2^256-1 ([sdk.NewIntFromBigInt] accepts
      256 bits in SDK v0.45.2); amount 0 is rejected;
    - proposal id = the event's uint64;
    - vote option / weights: a message exists only for options 1..4 and weights 1..100 (hundredths)
      summing to 100, and then the Go casts are the identity — so option values >= 2^31 and weights
      >= 2^63, where the casts change the value, never reach the router.
    The range hypotheses [opt < 2^32], [opt_in_range] are those of the Go types the decoder
    produces ([uint32], [uint64]). *)
Theorem item_fields_verbatim e m :
  item_of_event e = Ok m ->
  match e with
  | EDelegated d v a => exists x, a = Some x /\ m = MDelegate d v (Z.of_N x) /\ v <> [] /\ 0 < x
  | EUndelegated d v a => exists x, a = Some x /\ m = MUndelegate d v (Z.of_N x) /\ v <> [] /\ 0 < x
  | ERedelegated d s t a => exists x, a = Some x /\ m = MRedelegate d s t (Z.of_N x) /\ s <> [] /\ t <> [] /\ 0 < x
  | EWithdrew d v => m = MWithdraw d v /\ v <> []
  | EVoted d pid opt => opt < 2 ^ 32 -> m = MVote d pid (Z.of_N opt) /\ 1 <= opt <= 4
  | EVotedW d pid os =>
      Forall opt_in_range os ->
      m = MVoteW d pid (map (fun ow => (Z.of_N (fst ow), Z.of_N (snd ow))) os) /\
      Forall (fun ow => 1 <= fst ow <= 4 /\ 1 <= snd ow <= 100) os /\
      fold_right (fun ow acc => snd ow + acc) 0 os = 100
  end.
Proof.
  unfold item_of_event. destruct e as [d v [a|] | d v [a|] | d s t [a|] | d v | d pid opt | d pid os]; cbn [msg_of_event obind];
    try discriminate.
  - destruct (validate_basic (MDelegate d v (Z.of_N a))) eqn:V; [|discriminate]. intro H; inversion H; subst.
    cbn in V. apply andb_true_iff in V as [V1 V2]. apply nonempty_iff in V1. apply Z.ltb_lt in V2.
    exists a. repeat split; auto. lia.
  - destruct (validate_basic (MUndelegate d v (Z.of_N a))) eqn:V; [|discriminate]. intro H; inversion H; subst.
    cbn in V. apply andb_true_iff in V as [V1 V2]. apply nonempty_iff in V1. apply Z.ltb_lt in V2.
    exists a. repeat split; auto. lia.
  - destruct (validate_basic (MRedelegate d s t (Z.of_N a))) eqn:V; [|discriminate]. intro H; inversion H; subst.
    cbn in V. rewrite !andb_true_iff in V. destruct V as [[V1 V2] V3].
    apply nonempty_iff in V1. apply nonempty_iff in V2. apply Z.ltb_lt in V3.
    exists a. repeat split; auto. lia.
  - destruct (validate_basic (MWithdraw d v)) eqn:V; [|discriminate]. intro H; inversion H; subst.
    cbn in V. apply nonempty_iff in V. split; auto.
  - destruct (validate_basic (MVote d pid (to_int32 opt))) eqn:V; [|discriminate]. intros H R; inversion H; subst.
    cbn in V. apply valid_option_iff in V. destruct (to_int32_small opt R V) as [E B]. rewrite E. split; [reflexivity|exact B].
  - destruct os as [|ow os]; [discriminate|]. cbn [obind].
    set (l := ow :: os) in *.
    destruct (validate_basic (MVoteW d pid (map (fun ow0 => (to_int32 (fst ow0), to_int64 (snd ow0))) l))) eqn:V; [|discriminate].
    intros H R; inversion H; subst. clear H.
    assert (V' : weights_ok [] 0%Z (map (fun ow0 => (to_int32 (fst ow0), to_int64 (snd ow0))) l) = true).
    { unfold l in *. cbn [validate_basic map] in V. exact V. }
    apply weights_ok_spec in V' as [F T].
    assert (K : forall l0, Forall opt_in_range l0 ->
              Forall (fun ow0 : Z * Z => (1 <= fst ow0 <= 4)%Z /\ (0 < snd ow0 <= 100)%Z)
                     (map (fun ow0 => (to_int32 (fst ow0), to_int64 (snd ow0))) l0) ->
              map (fun ow0 => (to_int32 (fst ow0), to_int64 (snd ow0))) l0 = map (fun ow0 => (Z.of_N (fst ow0), Z.of_N (snd ow0))) l0 /\
              Forall (fun ow0 => 1 <= fst ow0 <= 4 /\ 1 <= snd ow0 <= 100) l0 /\
              weight_sum (map (fun ow0 => (to_int32 (fst ow0), to_int64 (snd ow0))) l0) = Z.of_N (fold_right (fun ow0 acc => snd ow0 + acc) 0 l0)).
    { induction l0 as [|[o w] l0 IH]; intros R0 F0; [repeat split; constructor|].
      inversion R0 as [|x y [Ro Rw] R1]; subst. cbn [map] in F0. inversion F0 as [|x y [Fo Fw] F1]; subst.
      cbn [fst snd] in *. destruct (to_int32_small o Ro Fo) as [Eo Bo]. destruct (to_int64_small w Rw Fw) as [Ew Bw].
      destruct (IH R1 F1) as [E1 [E2 E3]]. cbn [map fst snd]. rewrite Eo, Ew, E1.
      split; [reflexivity|]. split; [constructor; [cbn; lia|exact E2]|].
      cbn [weight_sum fold_right snd]. fold (weight_sum (map (fun ow0 => (Z.of_N (fst ow0), Z.of_N (snd ow0))) l0)).
      rewrite <- E1, E3. lia. }
    destruct (K l R F) as [E1 [E2 E3]].
    change ((to_int32 (fst ow), to_int64 (snd ow)) :: map (fun ow0 : N * N => (to_int32 (fst ow0), to_int64 (snd ow0))) os)
      with (map (fun ow0 : N * N => (to_int32 (fst ow0), to_int64 (snd ow0))) l).
    rewrite E1. split; [reflexivity|]. split; [exact E2|].
    rewrite E3 in T. lia.
Qed.

(** the boundary cases, stated directly *)
Corollary vote_option_cast_boundary_rejected d pid opt :
  2 ^ 31 <= opt < 2 ^ 32 -> item_of_event (EVoted d pid opt) = Err.
Proof.
  intros [L U]. destruct (item_of_event (EVoted d pid opt)) as [m| |] eqn:E; [|reflexivity|].
  - apply item_fields_verbatim in E. destruct (E U) as [_ B]. assert (4 < 2 ^ 31) by (vm_compute; reflexivity). lia.
  - unfold item_of_event in E. cbn [msg_of_event obind] in E.
    destruct (validate_basic (MVote d pid (to_int32 opt))); discriminate E.
Qed.

Corollary vote_weight_cast_boundary_rejected d pid os o w :
  Forall opt_in_range os -> In (o, w) os -> 2 ^ 63 <= w -> item_of_event (EVotedW d pid os) = Err.
Proof.
  intros R I L. destruct (item_of_event (EVotedW d pid os)) as [m| |] eqn:E; [|reflexivity|].
  - apply item_fields_verbatim in E. destruct (E R) as [_ [F _]]. rewrite Forall_forall in F. specialize (F _ I). cbn in F.
    assert (100 < 2 ^ 63) by (vm_compute; reflexivity). lia.
  - unfold item_of_event in E. destruct os as [|ow os']; cbn [msg_of_event obind] in E; [discriminate E|].
    destruct (validate_basic _); discriminate E.
Qed.

Corollary zero_amount_rejected d v : item_of_event (EDelegated d v (Some 0)) = Err.
Proof. unfold item_of_event. cbn. rewrite andb_false_r. reflexivity. Qed.

(** every amount 1 .. 2^256-1 is carried over unchanged *)
Corollary amount_verbatim_full_range d v a :
  v <> [] -> 0 < a -> item_of_event (EDelegated d v (Some a)) = Ok (MDelegate d v (Z.of_N a)).
Proof.
  intros V A. unfold item_of_event. cbn. apply nonempty_iff in V. rewrite V.
  destruct (0 <? Z.of_N a)%Z eqn:E; [reflexivity|]. apply Z.ltb_ge in E. lia.
Qed.
