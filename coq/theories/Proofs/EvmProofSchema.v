(** Tie of the mechanical parts of Model/EvmProof.v to the Go source, through Gen/EvmProofSchemaGen.v (regenerated
    on every run by tools/gotocoq/evmproof from both client packages): the RLP account tuple [rlp_account], the
    way its fields are computed from the proof record [account_of_record], the JSON names of the proof record, the
    "exactly one storage proof" constant and the slot index constants.

    Shape: generic lemma ([rlp_account_of_sem_expected]) + decidable side conditions on the regenerated terms
    ([json_ok], [account_ok], [storage_proof_count_ok], [slot_constants_ok], evaluated by [vm_compute]; one per item).
    This file does not depend on Gen/: the side conditions are evaluated on the regenerated terms in
    Props/C08_schema_{json,account,count,consts}.v, ONE FILE PER ITEM, so that an item the translator could not
    determine breaks exactly the obligations that read it and nothing else.  A harmless rewrite of the Go code (renamed ProofAccount fields or
    local variables, reordered JSON struct fields, unkeyed literal) re-checks; a harmful one (swapped account
    fields, another conversion, renamed JSON tag, other constant) makes the corresponding condition compute to [false]. *)
From Teleport Require Import Base.Bytes Base.Outcome Model.EvmProof Proofs.EvmProofRlp.
Local Open Scope N_scope.

(** the value of a proof-record field, by its Go name *)
Definition proof_field (r : proof_rec) (name : bytes) : option bytes :=
  if bytes_eqb name (B "Address") then Some (p_address r)
  else if bytes_eqb name (B "Balance") then Some (p_balance r)
  else if bytes_eqb name (B "CodeHash") then Some (p_code_hash r)
  else if bytes_eqb name (B "Nonce") then Some (p_nonce r)
  else if bytes_eqb name (B "StorageHash") then Some (p_storage_hash r)
  else None.

(** semantic content of the ProofAccount schema + wiring: per RLP position (Go type, conversion, proof field) *)
Definition sem := list (bytes * bytes * bytes).

Fixpoint schema_sem (fields wiring : list (bytes * bytes * bytes)) : option sem :=
  match fields, wiring with
  | [], [] => Some []
  | (fname, fty, _) :: fs, (wname, conv, pf) :: ws =>
      if bytes_eqb fname wname then
        match schema_sem fs ws with Some s => Some ((fty, conv, pf) :: s) | None => None end
      else None
  | _, _ => None
  end.

(** [rlp.EncodeToBytes] of one field as [verifyMerkleProof] computes it *)
Definition enc_field (r : proof_rec) (e : bytes * bytes * bytes) : option bytes :=
  match e with
  | (ty, conv, pf) =>
      match proof_field r pf with
      | None => None
      | Some s =>
          if bytes_eqb ty (B "*big.Int") && bytes_eqb conv (B "big") then
            Some (rlp_string (be_min (N_of_be (hex_to_hash s))))
          else if bytes_eqb ty (B "common.Hash") && bytes_eqb conv (B "hash") then
            Some (rlp_string (hex_to_hash s))
          else None
      end
  end.

Fixpoint enc_fields (r : proof_rec) (s : sem) : option (list bytes) :=
  match s with
  | [] => Some []
  | e :: s' =>
      match enc_field r e, enc_fields r s' with
      | Some x, Some xs => Some (x :: xs)
      | _, _ => None
      end
  end.

(** the account encoding read off the Go source: a struct is the RLP list of its fields in declaration order *)
Definition rlp_account_of_sem (s : sem) (r : proof_rec) : option bytes :=
  match enc_fields r s with Some items => Some (rlp_list items) | None => None end.

(** what Model/EvmProof.v was written from *)
Definition expected_sem : sem :=
  [(B "*big.Int", B "big", B "Nonce"); (B "*big.Int", B "big", B "Balance");
   (B "common.Hash", B "hash", B "StorageHash"); (B "common.Hash", B "hash", B "CodeHash")].

Lemma enc_field_big r pf s :
  proof_field r pf = Some s ->
  enc_field r (B "*big.Int", B "big", pf) = Some (rlp_string (be_min (N_of_be (hex_to_hash s)))).
Proof. intro H. unfold enc_field. rewrite H, !bytes_eqb_refl. reflexivity. Qed.

Lemma enc_field_hash r pf s :
  proof_field r pf = Some s ->
  enc_field r (B "common.Hash", B "hash", pf) = Some (rlp_string (hex_to_hash s)).
Proof.
  intro H. unfold enc_field. rewrite H.
  replace (bytes_eqb (B "common.Hash") (B "*big.Int")) with false by (vm_compute; reflexivity).
  rewrite !bytes_eqb_refl. reflexivity.
Qed.

Lemma rlp_account_of_sem_expected r :
  rlp_account_of_sem expected_sem r = Some (rlp_account (account_of_record r)).
Proof.
  unfold rlp_account_of_sem, expected_sem. cbn [enc_fields].
  rewrite (enc_field_big r (B "Nonce") (p_nonce r)) by (vm_compute; reflexivity).
  rewrite (enc_field_big r (B "Balance") (p_balance r)) by (vm_compute; reflexivity).
  rewrite (enc_field_hash r (B "StorageHash") (p_storage_hash r)) by (vm_compute; reflexivity).
  rewrite (enc_field_hash r (B "CodeHash") (p_code_hash r)) by (vm_compute; reflexivity).
  unfold rlp_account, account_of_record. cbn [a_nonce a_balance a_storage a_code]. reflexivity.
Qed.

(** JSON names and Go types of the proof record, as a set (sorted by tag) *)
Fixpoint insert_by_tag (x : bytes * bytes) (l : list (bytes * bytes)) : list (bytes * bytes) :=
  match l with
  | [] => [x]
  | y :: l' => if bytes_ltb (fst x) (fst y) then x :: l else y :: insert_by_tag x l'
  end.

Definition json_set (fields : list (bytes * bytes * bytes)) : list (bytes * bytes) :=
  fold_right insert_by_tag [] (map (fun f => match f with (_, ty, tag) => (tag, ty) end) fields).

Fixpoint pairs_eqb (a b : list (bytes * bytes)) : bool :=
  match a, b with
  | [], [] => true
  | (x1, x2) :: a', (y1, y2) :: b' => bytes_eqb x1 y1 && bytes_eqb x2 y2 && pairs_eqb a' b'
  | _, _ => false
  end.

Definition expected_proof_json : list (bytes * bytes) :=
  [(B "account_proof", B "[]string"); (B "address", B "string"); (B "balance", B "string"); (B "code_hash", B "string");
   (B "nonce", B "string"); (B "storage_hash", B "string"); (B "storage_proof", B "[]*StorageResult")].

Definition expected_storage_result_json : list (bytes * bytes) :=
  [(B "key", B "string"); (B "proof", B "[]string"); (B "value", B "string")].

Fixpoint sem_eqb (a b : sem) : bool :=
  match a, b with
  | [], [] => true
  | (x1, x2, x3) :: a', (y1, y2, y3) :: b' => bytes_eqb x1 y1 && bytes_eqb x2 y2 && bytes_eqb x3 y3 && sem_eqb a' b'
  | _, _ => false
  end.

Lemma sem_eqb_eq a b : sem_eqb a b = true -> a = b.
Proof.
  revert b; induction a as [|[[x1 x2] x3] a IH]; intros [|[[y1 y2] y3] b]; cbn; try discriminate; [reflexivity|].
  rewrite !andb_true_iff. intros [[[E1 E2] E3] E]. apply bytes_eqb_eq in E1, E2, E3. subst. rewrite (IH b E). reflexivity.
Qed.

(** one obligation per regenerated item, so that an item the translator could not determine (an "unknown" wiring entry,
    a 0 constant, an empty field list) fails exactly the obligation that reads it *)
Definition json_schema_ok (proof_fields sr_fields : list (bytes * bytes * bytes)) : bool :=
  pairs_eqb (json_set proof_fields) expected_proof_json &&
  pairs_eqb (json_set sr_fields) expected_storage_result_json.

Definition account_schema_ok (acct_fields wiring : list (bytes * bytes * bytes)) : bool :=
  match schema_sem acct_fields wiring with Some s => sem_eqb s expected_sem | None => false end.

(** the account encoding of the model IS the interpretation of any schema + wiring that passes the side condition *)
Lemma account_encoding_generic acct_fields wiring :
  account_schema_ok acct_fields wiring = true ->
  exists s, schema_sem acct_fields wiring = Some s /\
            forall r, rlp_account_of_sem s r = Some (rlp_account (account_of_record r)).
Proof.
  unfold account_schema_ok. destruct (schema_sem acct_fields wiring) as [s|]; [|discriminate].
  intro Q. exists s. split; [reflexivity|]. intro r. rewrite (sem_eqb_eq _ _ Q). apply rlp_account_of_sem_expected.
Qed.

(** [common.LeftPadBytes(big.NewInt(idx).Bytes(), len)] *)
Definition slot_pad (idx len : N) : bytes := zeros (N.to_nat len - length (be_min idx)) ++ be_min idx.

Lemma slot_pad_generic idx len : (idx =? 208) && (len =? 32) = true -> pad32_208 = slot_pad idx len.
Proof.
  rewrite andb_true_iff. intros [A B]. apply N.eqb_eq in A, B. subst. vm_compute. reflexivity.
Qed.
