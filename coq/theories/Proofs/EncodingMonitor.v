(** The executable monitors of Model/EncodingCheck.v accept what the theorems predict. *)
From Teleport Require Import Base.Bytes Base.Outcome Base.Fmt Base.AbiSchema Gen.KeysGen Gen.AbiSchemaGen
  Model.Keys Model.Abi Model.EncodingCheck.
Local Open Scope N_scope.

Lemma fval_eqb_refl x : fval_eqb x x = true.
Proof. destruct x; cbn; [apply N.eqb_refl | apply bytes_eqb_refl | apply bytes_eqb_refl]. Qed.

Lemma fvals_eqb_refl v : fvals_eqb v v = true.
Proof. induction v as [|x v IH]; cbn; [reflexivity|]. rewrite fval_eqb_refl. exact IH. Qed.

(** an "abi" observation in which the decoder returned the value and the
    re-encoding returned the same bytes passes the monitor — i.e. the monitor
    demands exactly the conclusion of the round-trip / canonicity theorems *)
Lemma abi_monitor_sound ty v bz :
  case_monitor (CAbi ty v 0 bz 0 v 0 bz true) = [].
Proof.
  cbn [case_monitor]. destruct (value_in_domain (schema_of ty) v); [|reflexivity].
  rewrite fvals_eqb_refl, bytes_eqb_refl. reflexivity.
Qed.

(** the monitor rejects a lost field: a decoded value different from the
    original (e.g. FeeOption 7 read back as 0) *)
Lemma abi_monitor_detects ty v d bz r rc :
  value_in_domain (schema_of ty) v = true -> fvals_eqb d v = false ->
  In 31%nat (case_monitor (CAbi ty v 0 bz 0 d rc r true)).
Proof.
  intros D N. cbn [case_monitor]. rewrite D, N. cbn. left. reflexivity.
Qed.

(** a "raw" observation in which the value decoded from an accepted input
    re-encodes and decodes to itself passes the monitor — the conclusion of
    [decode_normalises] (Proofs/AbiNormal.v) *)
Lemma abiraw_monitor_sound ty inp d r : case_monitor (CAbiRaw ty inp 0 d 0 r 0 d) = [].
Proof.
  cbn [case_monitor]. destruct (Nat.eqb 0 0 && value_in_domain (schema_of ty) d); [|reflexivity].
  rewrite fvals_eqb_refl. reflexivity.
Qed.
