(** C04 — send sequencing, and C05 part 2 — an acknowledgement is processed at most once.
    Both need the hypothesis "no client is registered under the chain's own name" (observation O7; shown
    necessary in Refuted/C04_selfclient.v and Refuted/C05_selfclient.v): with such a client the relay branch of
    Keeper.RecvPacket writes commitments under (this chain, dst, seq). *)
From Teleport Require Import Base.Bytes Base.Outcome Base.AList Model.Packet
     Proofs.Packet Proofs.PacketC01 Proofs.PacketC02 Proofs.PacketC05.
Local Open Scope N_scope.

(** successful sends to [d] recorded in a piece of the ghost log, in order *)
Definition sent_seqs (d : bytes) (l : list event) : list N :=
  flat_map (fun e => match e with EvSent p => if bytes_eqb (p_dst p) d then [p_seq p] else [] | _ => [] end) l.

Lemma sent_seqs_app d a b : sent_seqs d (a ++ b) = sent_seqs d a ++ sent_seqs d b.
Proof. unfold sent_seqs. apply flat_map_app. Qed.

(** [chain a l b]: the counter moves from [a] to [b] while sends carry exactly the sequences [l]:
    each send carries the current counter (never 0) and advances it by one (mod 2^64). *)
Inductive chain : N -> list N -> N -> Prop :=
| chain_nil a : chain a [] a
| chain_cons a l b : a <> 0 -> chain (add64 a 1) l b -> chain a (a :: l) b.

Lemma chain_app a l1 b l2 c : chain a l1 b -> chain b l2 c -> chain a (l1 ++ l2) c.
Proof. induction 1; intro H2; cbn; [exact H2 | constructor; auto]. Qed.

(** no gap, no repeat, no wrap-around inside the list: the i-th send carries a + i *)
Lemma chain_nth a l b : chain a l b -> a < two64 ->
  forall i x, nth_error l i = Some x -> x = a + N.of_nat i /\ x < two64.
Proof.
  induction 1 as [a|a l b Na H IH]; intros Ha i x E.
  - destruct i; discriminate.
  - destruct i as [|i]; cbn in E.
    + inversion E; subst. split; [lia | assumption].
    + destruct l as [|y l]; [destruct i; discriminate|].
      destruct (add64_succ a Ha) as [[Lt Eq]|[Eq1 Eq2]].
      * rewrite Eq in IH. destruct (IH Lt i x E) as [X1 X2]. split; [lia | assumption].
      * (* the counter wrapped to 0: no further send is possible *)
        rewrite Eq2 in H. inversion H; subst. congruence.
Qed.

Lemma chain_final a l b : chain a l b -> a < two64 -> b = (a + N.of_nat (length l)) mod two64.
Proof.
  induction 1 as [a|a l b Na H IH]; intro Ha.
  - cbn. rewrite N.add_0_r, N.mod_small by assumption. reflexivity.
  - rewrite (IH (add64_lt a 1)). unfold add64. cbn [length].
    rewrite N.add_mod_idemp_l by discriminate. f_equal. lia.
Qed.

Definition ackev (j : nat) (d : bytes) (k : N) (e : event) : bool :=
  match e, j with
  | EvAckStatus d' k' _, O => bytes_eqb d d' && (k =? k')
  | EvFee d' k' _, S O => bytes_eqb d d' && (k =? k')
  | EvOnAck p _, S (S O) => bytes_eqb d (p_dst p) && (k =? p_seq p)
  | _, _ => false
  end.

Definition act_noself (name : bytes) (a : action) : Prop :=
  match a with ARegisterClient n _ _ => n <> name | _ => True end.

Section C04.
  Variable P : params.
  Hypothesis KO : keys_ok P.

  Local Notation slog s := (log (st_app s)).

  Definition noself (s : cstate) : Prop := aget (st_name s) (st_clients s) = None.
  Definition own (s : cstate) (d : bytes) (k : N) : triple := (st_name s, d, k).
  Definition below (s : cstate) (d : bytes) (k : N) : Prop :=
    forall n, next_seq P s (st_name s) d = Ok n -> k < n \/ n = 0.

  Definition inv4 (s : cstate) : Prop :=
    valid_name P (st_name s) = true /\
    (forall n c, aget n (st_clients s) = Some c -> valid_name P n = true) /\
    noself s /\
    (forall d k, valid_name P d = true -> sget (ckey P (own s d k)) s <> None -> below s d k) /\
    (forall d, valid_name P d = true -> next_seq P s (st_name s) d = Ok (cseq_view s d)).

  (** "acknowledged": the commitment is gone and lies below the counter, so it can never come back *)
  Definition acked (s : cstate) (d : bytes) (k : N) : Prop :=
    sget (ckey P (own s d k)) s = None /\ below s d k.

  (** ** frame: the store changed, but no commitment appeared and no counter moved *)
  Definition frame (s s' : cstate) : Prop :=
    st_name s' = st_name s /\ st_clients s' = st_clients s /\ cseq (st_app s') = cseq (st_app s) /\
    (forall t, sget (ckey P t) s' <> None -> sget (ckey P t) s <> None) /\
    (forall a b, sget (nextseq_key P a b) s' = sget (nextseq_key P a b) s).

  Lemma frame_next_seq s s' a b : frame s s' -> next_seq P s' a b = next_seq P s a b.
  Proof. intros (_ & _ & _ & _ & N). apply next_seq_ext. apply N. Qed.

  Lemma frame_below s s' d k : frame s s' -> below s d k -> below s' d k.
  Proof.
    intros F B n. pose proof F as (Nm & _). rewrite Nm, (frame_next_seq _ _ _ _ F). apply B.
  Qed.

  Lemma inv4_frame s s' : inv4 s -> frame s s' -> inv4 s'.
  Proof.
    intros (Vn & Vc & Ns & K & CS) F. pose proof F as (Nm & Cl & Cq & Cm & Nx).
    unfold inv4, noself, own. rewrite Nm, Cl. split; [exact Vn|]. split; [exact Vc|]. split; [exact Ns|]. split.
    - intros d k Vd Cp. eapply frame_below; [exact F|]. apply K; [exact Vd|]. apply Cm. exact Cp.
    - intros d Vd. rewrite (frame_next_seq _ _ _ _ F). unfold cseq_view. rewrite Cq. apply CS; exact Vd.
  Qed.

  Lemma acked_frame s s' d k : frame s s' -> acked s d k -> acked s' d k.
  Proof.
    intros F [A B]. pose proof F as (Nm & _ & _ & Cm & _). split; [|eapply frame_below; eauto].
    unfold own. rewrite Nm. destruct (sget (ckey P (st_name s, d, k)) s') eqn:X; [|reflexivity].
    exfalso. apply (Cm (st_name s, d, k)); [rewrite X; discriminate | exact A].
  Qed.

  Lemma frame_refl s : frame s s.
  Proof. repeat split; auto. Qed.
  Lemma frame_trans a b c : frame a b -> frame b c -> frame a c.
  Proof.
    intros (N1 & C1 & Q1 & M1 & X1) (N2 & C2 & Q2 & M2 & X2).
    split; [congruence|]. split; [congruence|]. split; [congruence|]. split.
    - intros t H. apply M1, M2, H.
    - intros x y. rewrite X2. apply X1.
  Qed.
  Lemma frame_add_log e s : frame s (add_log e s).
  Proof. repeat split; auto. Qed.
  Lemma frame_set_r t v s : frame s (set_kv (rkey P t) v s).
  Proof.
    split; [reflexivity|]. split; [reflexivity|]. split; [reflexivity|]. split.
    - intros t' H. rewrite sget_set_kv_other in H; [exact H|]. intro E. eapply (ko_rc P KO); eauto.
    - intros a b. apply sget_set_kv_other. intro E. eapply (ko_rn P KO); eauto.
  Qed.
  Lemma frame_set_a t v s : frame s (set_kv (akey P t) v s).
  Proof.
    split; [reflexivity|]. split; [reflexivity|]. split; [reflexivity|]. split.
    - intros t' H. rewrite sget_set_kv_other in H; [exact H|]. intro E. eapply (ko_ac P KO); eauto.
    - intros a b. apply sget_set_kv_other. intro E. eapply (ko_an P KO); eauto.
  Qed.
  Lemma frame_del_c t s : frame s (del_kv (ckey P t) s).
  Proof.
    split; [reflexivity|]. split; [reflexivity|]. split; [reflexivity|]. split.
    - intros t' H. rewrite sget_del_kv in H. destruct (bytes_eqb _ _); [congruence | exact H].
    - intros a b. apply sget_del_kv_other. intro E. eapply (ko_cn P KO); eauto.
  Qed.

  (** ** SendPacket *)
  Lemma next_seq_sent s p bz d :
    valid_name P (p_src p) = true -> valid_name P d = true ->
    next_seq P s (p_src p) (p_dst p) = Ok (p_seq p) ->
    next_seq P (sent_state P s p bz) (p_src p) d =
    if bytes_eqb d (p_dst p) then Ok (add64 (p_seq p) 1) else next_seq P s (p_src p) d.
  Proof.
    intros Vs Vd Nx. destruct (bytes_eqb_spec d (p_dst p)) as [->|Nd].
    - apply next_seq_val; [apply add64_lt|]. rewrite sget_sent.
      destruct (bytes_eqb_spec (nextseq_key P (p_src p) (p_dst p)) (ckey P (triple_of p))) as [E|_];
        [exfalso; eapply (ko_cn P KO); eauto|].
      rewrite bytes_eqb_refl. reflexivity.
    - apply next_seq_ext. rewrite sget_sent.
      destruct (bytes_eqb_spec (nextseq_key P (p_src p) d) (ckey P (triple_of p))) as [E|_];
        [exfalso; eapply (ko_cn P KO); eauto|].
      destruct (bytes_eqb_spec (nextseq_key P (p_src p) d) (nextseq_key P (p_src p) (p_dst p))) as [E|_]; [|reflexivity].
      apply (ko_ninj P KO) in E as [_ E]; [contradiction | exact Vs | exact Vd].
  Qed.

  Lemma cseq_view_sent s p bz d :
    cseq_view (sent_state P s p bz) d = if bytes_eqb d (p_dst p) then add64 (p_seq p) 1 else cseq_view s d.
  Proof. unfold cseq_view, sent_state. cbn. rewrite aget_aset. destruct (bytes_eqb d (p_dst p)); reflexivity. Qed.

  (** the exact effect of one successful SendPacket (C04.send_step_exact) *)
  Lemma send_step_exact s p ok s' :
    inv4 s -> send_packet P s p ok = Ok s' ->
    p_src p = st_name s /\ p_seq p <> 0 /\ valid_name P (p_dst p) = true /\
    next_seq P s (st_name s) (p_dst p) = Ok (p_seq p) /\
    next_seq P s' (st_name s) (p_dst p) = Ok (add64 (p_seq p) 1) /\
    cseq_view s' (p_dst p) = add64 (p_seq p) 1 /\
    sget (ckey P (triple_of p)) s = None /\
    (exists bz, abi_pack P p = Some bz /\ sget (ckey P (triple_of p)) s' = Some (sha256 P bz)) /\
    (forall k, k <> ckey P (triple_of p) -> k <> nextseq_key P (st_name s) (p_dst p) -> sget k s' = sget k s) /\
    st_name s' = st_name s /\ st_clients s' = st_clients s /\ st_relayers s' = st_relayers s /\
    (forall d, d <> p_dst p -> cseq_view s' d = cseq_view s d) /\
    slog s' = (slog s ++ [EvSetSeq (p_dst p) (add64 (p_seq p) 1)]) ++ [EvSent p].
  Proof.
    intros (Vn & Vc & Ns & K & CS) H.
    apply send_packet_ok in H as (Vb & Src & [c Cd] & Nx & _ & bz & A & ->).
    assert (Vd : valid_name P (p_dst p) = true) by (eapply Vc; eauto).
    assert (Vs : valid_name P (p_src p) = true) by (rewrite Src; exact Vn).
    pose proof Nx as Nx0. rewrite Src in Nx.
    split; [exact Src|]. split; [apply validate_basic_seq; exact Vb|]. split; [exact Vd|]. split; [exact Nx|].
    split. { rewrite <- Src. rewrite (next_seq_sent s p bz (p_dst p) Vs Vd Nx0), bytes_eqb_refl. reflexivity. }
    split. { rewrite cseq_view_sent, bytes_eqb_refl. reflexivity. }
    split.
    { destruct (sget (ckey P (triple_of p)) s) eqn:X; [|reflexivity]. exfalso.
      unfold triple_of in X. rewrite Src in X.
      destruct (K (p_dst p) (p_seq p) Vd) with (n := p_seq p) as [L|Z]; [unfold own; rewrite X; discriminate | exact Nx | lia |].
      apply validate_basic_seq in Vb. contradiction. }
    split. { exists bz. split; [exact A|]. rewrite sget_sent, bytes_eqb_refl. reflexivity. }
    split.
    { intros k N1 N2. rewrite sget_sent. apply bytes_eqb_neq in N1. rewrite N1.
      rewrite Src. apply bytes_eqb_neq in N2. rewrite N2. reflexivity. }
    split; [reflexivity|]. split; [reflexivity|]. split; [reflexivity|]. split.
    - intros d Nd. rewrite cseq_view_sent. apply bytes_eqb_neq in Nd. rewrite Nd. reflexivity.
    - reflexivity.
  Qed.

  Lemma inv4_send s p ok s' : inv4 s -> send_packet P s p ok = Ok s' -> inv4 s'.
  Proof.
    intros I H. pose proof I as (Vn & Vc & Ns & K & CS).
    apply send_packet_ok in H as (Vb & Src & [c Cd] & Nx & _ & bz & A & ->).
    assert (Vd : valid_name P (p_dst p) = true) by (eapply Vc; eauto).
    assert (Vs : valid_name P (p_src p) = true) by (rewrite Src; exact Vn).
    pose proof (next_seq_bound P _ _ _ _ Nx) as Bq.
    pose proof (validate_basic_seq _ Vb) as Nz.
    split; [exact Vn|]. split; [exact Vc|]. split; [exact Ns|]. split.
    - intros d k Vd' Cp n. unfold own in *. change (st_name (sent_state P s p bz)) with (st_name s) in *.
      rewrite <- Src. rewrite next_seq_sent by assumption. rewrite sget_sent in Cp.
      destruct (bytes_eqb_spec (ckey P (st_name s, d, k)) (ckey P (triple_of p))) as [E|Ne].
      + apply (ko_cinj P KO) in E; [|split; assumption]. unfold triple_of in E. inversion E; subst d k.
        rewrite bytes_eqb_refl. intro X; inversion X; subst n.
        destruct (add64_succ _ Bq) as [[_ ->]|[_ ->]]; [left; lia | right; reflexivity].
      + destruct (bytes_eqb_spec (ckey P (st_name s, d, k)) (nextseq_key P (p_src p) (p_dst p))) as [E|_];
          [exfalso; eapply (ko_cn P KO); eauto|].
        pose proof (K d k Vd' Cp) as B. unfold below in B. rewrite <- Src in B.
        destruct (bytes_eqb_spec d (p_dst p)) as [->|Nd].
        * intro X; inversion X; subst n. destruct (B _ Nx) as [L|Z]; [|contradiction].
          destruct (add64_succ _ Bq) as [[_ ->]|[_ ->]]; [left; lia | right; reflexivity].
        * apply B.
    - intros d Vd'. change (st_name (sent_state P s p bz)) with (st_name s). rewrite <- Src.
      rewrite next_seq_sent, cseq_view_sent by assumption.
      destruct (bytes_eqb d (p_dst p)); [reflexivity|]. rewrite Src. apply CS; exact Vd'.
  Qed.

  Lemma acked_send s p ok s' d k : inv4 s -> valid_name P d = true -> acked s d k -> send_packet P s p ok = Ok s' -> acked s' d k.
  Proof.
    intros I Vd' [Ab B] H. pose proof I as (Vn & Vc & Ns & K & CS).
    apply send_packet_ok in H as (Vb & Src & [c Cd] & Nx & _ & bz & A & ->).
    assert (Vd : valid_name P (p_dst p) = true) by (eapply Vc; eauto).
    assert (Vs : valid_name P (p_src p) = true) by (rewrite Src; exact Vn).
    pose proof (next_seq_bound P _ _ _ _ Nx) as Bq.
    pose proof (validate_basic_seq _ Vb) as Nz.
    unfold acked, below, own in *. change (st_name (sent_state P s p bz)) with (st_name s).
    rewrite <- Src in B |- *. split.
    - rewrite sget_sent.
      destruct (bytes_eqb_spec (ckey P (p_src p, d, k)) (ckey P (triple_of p))) as [E|Ne].
      + exfalso. apply (ko_cinj P KO) in E; [|split; assumption]. unfold triple_of in E. inversion E; subst d k.
        destruct (B _ Nx) as [L|Z]; [lia | contradiction].
      + destruct (bytes_eqb_spec (ckey P (p_src p, d, k)) (nextseq_key P (p_src p) (p_dst p))) as [E|_];
          [exfalso; eapply (ko_cn P KO); eauto|].
        rewrite Src. exact Ab.
    - intro n. rewrite next_seq_sent by assumption.
      destruct (bytes_eqb_spec d (p_dst p)) as [->|Nd]; [|apply B].
      intro X; inversion X; subst n. destruct (B _ Nx) as [L|Z]; [|contradiction].
      destruct (add64_succ _ Bq) as [[_ ->]|[_ ->]]; [left; lia | right; reflexivity].
  Qed.

  (** ** the ghost-log invariant: each ack effect at most once per (dst, seq), and only for acknowledged packets *)
  Definition acklog_ok (s : cstate) : Prop :=
    forall j d k, valid_name P d = true ->
      (cnt (ackev j d k) (slog s) <= 1)%nat /\ ((1 <= cnt (ackev j d k) (slog s))%nat -> acked s d k).

  Lemma acklog_ok_empty s : slog s = [] -> acklog_ok s.
  Proof. intros E j d k _. rewrite E. cbn. split; [lia | intro; lia]. Qed.

  Lemma ackev_blind j d k : send_blind (ackev j d k).
  Proof. split; intros; destruct j as [|[|[|j]]]; reflexivity. Qed.

  (** the combined invariant *)
  Definition inv45 (s : cstate) : Prop := inv4 s /\ acklog_ok s.

  (** how a step relates the two states, for a fixed destination [d]:
      counter / sent-sequence chaining (gap freedom) *)
  Definition gap_rel (d : bytes) (s s' : cstate) : Prop :=
    st_name s' = st_name s /\
    exists l, slog s' = slog s ++ l /\
      forall n0, next_seq P s (st_name s) d = Ok n0 ->
        exists n, next_seq P s' (st_name s) d = Ok n /\ chain n0 (sent_seqs d l) n.

  Lemma gap_refl d s : gap_rel d s s.
  Proof. split; [reflexivity|]. exists []. rewrite app_nil_r. split; [reflexivity|]. intros n0 H. exists n0. split; [exact H | constructor]. Qed.

  Lemma gap_trans d a b c : gap_rel d a b -> gap_rel d b c -> gap_rel d a c.
  Proof.
    intros (N1 & l1 & L1 & H1) (N2 & l2 & L2 & H2). split; [congruence|].
    exists (l1 ++ l2). split; [rewrite L2, L1, app_assoc; reflexivity|].
    intros n0 X. destruct (H1 _ X) as (n1 & X1 & C1). rewrite N1 in H2. destruct (H2 _ X1) as (n2 & X2 & C2).
    exists n2. split; [exact X2|]. rewrite sent_seqs_app. eapply chain_app; eauto.
  Qed.

  Lemma gap_frame_log d s s' l :
    frame s s' -> slog s' = slog s ++ l -> sent_seqs d l = [] -> gap_rel d s s'.
  Proof.
    intros F L E. pose proof F as (Nm & _). split; [exact Nm|]. exists l. split; [exact L|].
    intros n0 X. exists n0. rewrite (frame_next_seq _ _ _ _ F), E. split; [exact X | constructor].
  Qed.

  Lemma gap_send d s p ok s' : inv4 s -> valid_name P d = true -> send_packet P s p ok = Ok s' -> gap_rel d s s'.
  Proof.
    intros I Vd H. pose proof I as (Vn & _).
    destruct (send_step_exact _ _ _ _ I H) as (Src & Nz & Vdp & Nx & Nx' & _ & _ & _ & _ & Nm & _ & _ & _ & Lg).
    apply send_packet_ok in H as (_ & _ & _ & _ & _ & bz & _ & ->).
    split; [exact Nm|]. eexists. split; [rewrite Lg, <- app_assoc; reflexivity|].
    intros n0 X. cbn [sent_seqs flat_map List.app]. rewrite <- Src. rewrite next_seq_sent; try assumption; try (rewrite Src; assumption).
    rewrite (bytes_eqb_sym (p_dst p) d).
    destruct (bytes_eqb_spec d (p_dst p)) as [->|Nd].
    - rewrite X in Nx. inversion Nx; subst n0. exists (add64 (p_seq p) 1). split; [reflexivity|].
      rewrite app_nil_r. constructor; [exact Nz | constructor].
    - exists n0. rewrite Src. split; [exact X | constructor].
  Qed.

  Lemma inv4_call_gen s e cb s' :
    inv4 s -> call_packet P s e cb = Ok s' ->
    inv4 s' /\ (forall d k, valid_name P d = true -> acked s d k -> acked s' d k) /\
    (forall d, valid_name P d = true -> sent_seqs d [e] = [] -> gap_rel d s s').
  Proof.
    intros I H. split; [|split].
    - eapply proj1. eapply (call_packet_rel_inv P inv4 (fun _ _ => True)); [auto | auto | | | exact I | exact H].
      + intros s0 p ok s1 I0 H0. split; [eapply inv4_send; eauto | exact Logic.I].
      + intros I0. split; [eapply inv4_frame; [exact I0 | apply frame_add_log] | exact Logic.I].
    - intros d k Vd.
      eapply proj2. eapply (call_packet_rel_inv P inv4 (fun a b => acked a d k -> acked b d k)); [auto | auto | | | exact I | exact H].
      + intros s0 p ok s1 I0 H0. split; [eapply inv4_send; eauto|]. intro A. eapply acked_send; eauto.
      + intros I0. split; [eapply inv4_frame; [exact I0 | apply frame_add_log]|].
        intro A. eapply acked_frame; [apply frame_add_log | exact A].
    - intros d Vd E.
      eapply proj2. eapply (call_packet_rel_inv P inv4 (gap_rel d)); [apply gap_refl | apply gap_trans | | | exact I | exact H].
      + intros s0 p ok s1 I0 H0. split; [eapply inv4_send; eauto | eapply gap_send; eauto].
      + intros I0. split; [eapply inv4_frame; [exact I0 | apply frame_add_log]|].
        eapply gap_frame_log; [apply frame_add_log | reflexivity | exact E].
  Qed.

  (** ** the step relation used for all histories *)
  Definition G (s s' : cstate) : Prop :=
    inv4 s' /\ st_name s' = st_name s /\
    (forall d k, valid_name P d = true -> acked s d k -> acked s' d k) /\
    (forall d, valid_name P d = true -> gap_rel d s s').

  Lemma G_refl s : inv4 s -> G s s.
  Proof. intro I. split; [exact I|]. split; [reflexivity|]. split; [auto | intros; apply gap_refl]. Qed.

  Lemma G_trans a b c : G a b -> G b c -> G a c.
  Proof.
    intros (I1 & N1 & A1 & G1) (I2 & N2 & A2 & G2). split; [exact I2|]. split; [congruence|]. split.
    - intros d k Vd X. apply A2; [exact Vd|]. apply A1; assumption.
    - intros d Vd. eapply gap_trans; [apply G1 | apply G2]; exact Vd.
  Qed.

  Lemma G_frame s s' l :
    inv4 s -> frame s s' -> slog s' = slog s ++ l -> (forall d, sent_seqs d l = []) -> G s s'.
  Proof.
    intros I F L E. split; [eapply inv4_frame; eauto|]. split; [apply F|]. split.
    - intros d k _ A. eapply acked_frame; eauto.
    - intros d _. eapply gap_frame_log; eauto.
  Qed.

  Lemma G_call s e cb s' :
    inv4 s -> (forall d, sent_seqs d [e] = []) -> call_packet P s e cb = Ok s' -> G s s'.
  Proof.
    intros I E H. destruct (inv4_call_gen _ _ _ _ I H) as (I' & A & Gp).
    split; [exact I'|]. split.
    - destruct (I) as (Vn & _). destruct (Gp _ Vn (E _)) as [Nm _]. exact Nm.
    - split; [exact A | intros d Vd; apply Gp; [exact Vd | apply E]].
  Qed.

  Lemma G_hook s l s' : inv4 s -> hook_sends P s l = Ok s' -> G s s'.
  Proof.
    intros I H.
    assert (X : inv4 s' /\ G s s').
    { eapply (hook_sends_rel_inv P inv4 (fun a b => inv4 a -> G a b)) in H.
      - destruct H as [I' Gx]. split; [exact I' | apply Gx; exact I].
      - intros s0 I0. apply G_refl; exact I0.
      - intros a b c H1 H2 Ia. pose proof (H1 Ia) as G1. eapply G_trans; [exact G1|]. apply H2. apply G1.
      - intros s0 p ok s1 I0 H0. split; [eapply inv4_send; eauto|]. intros _.
        split; [eapply inv4_send; eauto|].
        destruct (send_step_exact _ _ _ _ I0 H0) as (_ & _ & _ & _ & _ & _ & _ & _ & _ & Nm & _).
        split; [exact Nm|]. split.
        + intros d k Vd A. eapply acked_send; eauto.
        + intros d Vd. eapply gap_send; eauto.
      - exact I. }
    apply X.
  Qed.

  (** under the hypothesis an accepted receive is addressed to this chain and only writes the receipt *)
  Lemma recv_keeper_noself env s m s1 :
    inv4 s -> recv_keeper P env s m = Ok s1 ->
    p_dst (fst (decode P (rm_packet m))) = st_name s /\
    s1 = set_kv (rkey P (triple_of (fst (decode P (rm_packet m))))) receipt_value s.
  Proof.
    intros (Vn & Vc & Ns & _) H. apply recv_keeper_ok in H. cbv zeta in H.
    set (p := fst (decode P (rm_packet m))) in *.
    destruct H as (_ & V & _ & ct & bz & Cs & _ & _ & ->).
    assert (D : p_dst p = st_name s).
    { destruct (validate_packet_side _ _ V) as [D|S]; [exact D|]. unfold noself in Ns. rewrite <- S in Ns. congruence. }
    split; [exact D|]. unfold recv_relay.
    replace (bytes_eqb (p_dst p) (st_name s)) with true by (symmetry; apply bytes_eqb_eq; exact D).
    destruct (aget (p_dst p) (st_clients s)); reflexivity.
  Qed.

  (** sha256 never returns the empty string (bytes.Equal(nil, []) holds in AcknowledgePacket) *)
  Hypothesis sha_nonempty : forall x, sha256 P x <> [].

  Lemma ack_keeper_noself env s m s1 :
    inv4 s -> ack_keeper P env s m = Ok s1 ->
    let p := fst (decode P (am_packet m)) in
    p_src p = st_name s /\ valid_name P (p_dst p) = true /\ sget (ckey P (triple_of p)) s <> None /\
    s1 = del_kv (ckey P (triple_of p)) s.
  Proof.
    intros (Vn & Vc & Ns & _) H. apply ack_keeper_ok in H. cbv zeta in H. cbv zeta.
    set (p := fst (decode P (am_packet m))) in *.
    destruct H as (_ & V & bz & ct & _ & E & Cd & _ & Hs).
    change (commitment_key P (p_src p) (p_dst p) (p_seq p)) with (ckey P (triple_of p)) in *.
    assert (S : p_src p = st_name s).
    { destruct (validate_packet_side _ _ V) as [D|S]; [|exact S]. unfold noself in Ns. rewrite <- D in Ns. congruence. }
    split; [exact S|]. split; [eapply Vc; eauto|]. split.
    - destruct (sget (ckey P (triple_of p)) s); [discriminate|].
      apply bytes_eqb_eq in E. symmetry in E. apply sha_nonempty in E. contradiction.
    - destruct Hs as [[_ ->] | (Ns' & _)]; [reflexivity | contradiction].
  Qed.

  Lemma G_recv_handler env s m cb s' : inv4 s -> recv_handler P env s m cb = Ok s' -> G s s'.
  Proof.
    intros I H. apply recv_handler_ok in H. cbv zeta in H.
    set (p := fst (decode P (rm_packet m))) in *.
    destruct H as (s1 & relayer & RK & _ & _ & Hc).
    destruct (recv_keeper_noself _ _ _ _ I RK) as [Dn S1]. fold p in Dn, S1.
    assert (G1 : G s s1).
    { subst s1. eapply (G_frame _ _ []); [exact I | apply frame_set_r | rewrite app_nil_r; reflexivity | reflexivity]. }
    assert (W : forall s3 bz s'', inv4 s3 -> write_ack P s3 p bz = Ok s'' -> G s3 s'').
    { intros s3 bz s'' I3 WA. apply write_ack_ok in WA as (_ & _ & _ & ->).
      eapply (G_frame _ _ [_]); [exact I3 | | reflexivity | reflexivity].
      eapply frame_trans; [|apply frame_add_log].
      change (ack_key P (p_src p) (p_dst p) (p_seq p)) with (akey P (triple_of p)). apply frame_set_a. }
    eapply G_trans; [exact G1|]. destruct G1 as (I1 & _).
    destruct Hc as [(_ & s3 & a & bz & _ & WA & Hcb) | [(_ & _ & bz & _ & WA) | (_ & _ & ->)]].
    - destruct Hcb as [(_ & -> & _) | (s2 & code & res & msg & CP & _ & _ & ->)]; [eapply W; eauto|].
      destruct (code =? 0); [|eapply W; eauto].
      assert (G2 : G s1 s2) by (eapply G_call; [exact I1 | | exact CP]; reflexivity).
      eapply G_trans; [exact G2|]. eapply W; [apply G2 | exact WA].
    - eapply W; eauto.
    - apply G_refl; exact I1.
  Qed.

  Lemma G_ack_handler env s m cb1 cb2 cb3 s' :
    inv4 s -> ack_handler P env s m cb1 cb2 cb3 = Ok s' ->
    G s s' /\ acked s' (p_dst (fst (decode P (am_packet m)))) (p_seq (fst (decode P (am_packet m)))).
  Proof.
    intros I H. apply ack_handler_ok in H. cbv zeta in H.
    set (p := fst (decode P (am_packet m))) in *.
    destruct H as (s1 & a & AK & _ & _ & Hc).
    destruct (ack_keeper_noself _ _ _ _ I AK) as (Src & Vd & Cp & S1). fold p in Src, Vd, Cp, S1.
    assert (G1 : G s s1).
    { subst s1. eapply (G_frame _ _ []); [exact I | apply frame_del_c | rewrite app_nil_r; reflexivity | reflexivity]. }
    assert (A1 : acked s1 (p_dst p) (p_seq p)).
    { subst s1. split.
      - unfold own. cbn [st_name del_kv]. rewrite <- Src. apply sget_del_kv_same.
      - eapply frame_below; [apply frame_del_c|]. destruct I as (_ & _ & _ & K & _).
        apply K; [exact Vd|]. unfold own. rewrite <- Src. exact Cp. }
    destruct Hc as [(Ns & _) | (_ & s2 & s3 & r & addr & C1 & _ & _ & C2 & C3)].
    - exfalso. apply Ns. destruct G1 as (_ & Nm & _). rewrite Nm. exact Src.
    - assert (G2 : G s1 s2) by (eapply G_call; [apply G1 | | exact C1]; reflexivity).
      assert (G3 : G s2 s3) by (eapply G_call; [apply G2 | | exact C2]; reflexivity).
      assert (G4 : G s3 s') by (eapply G_call; [apply G3 | | exact C3]; reflexivity).
      split; [eapply G_trans; [exact G1|]; eapply G_trans; [exact G2|]; eapply G_trans; eauto|].
      destruct G2 as (_ & _ & X2 & _), G3 as (_ & _ & X3 & _), G4 as (_ & _ & X4 & _).
      apply X4, X3, X2; assumption.
  Qed.

  Lemma noself_clients s name c :
    inv4 s -> name <> st_name s -> valid_name P name = true -> inv4 (set_clients (aset name c (st_clients s)) s).
  Proof.
    intros (Vn & Vc & Ns & K & CS) Nn Vname. split; [exact Vn|]. split; [|split; [|split; assumption]].
    - intros n c0. cbn [st_clients set_clients]. rewrite aget_aset.
      destruct (bytes_eqb_spec n name) as [->|_]; [intros _; exact Vname | apply Vc].
    - unfold noself. cbn [st_clients set_clients st_name]. rewrite aget_aset_other; [exact Ns | congruence].
  Qed.

  Lemma gap_same_store d s s' :
    st_name s' = st_name s -> st_store s' = st_store s -> slog s' = slog s -> gap_rel d s s'.
  Proof.
    intros Nm St Lg. split; [exact Nm|]. exists []. rewrite app_nil_r. split; [exact Lg|].
    intros n0 X. exists n0. split; [|constructor].
    rewrite <- X. unfold next_seq, sget. rewrite St. reflexivity.
  Qed.

  (** no hypothesis on the operation: HandleCreateClient refuses the chain's own name (fix a9e74e1), ToggleClient and
      UpgradeClient need an existing client — so [noself] (a conjunct of [inv4]) is preserved by EVERY operation *)
  Lemma G_exec env s a s' : inv4 s -> exec P env s a = Ok s' -> G s s'.
  Proof.
    intros I.
    destruct a as [m cb|m cb1 cb2 cb3|cb|name ok| |name c ok|name c ok|addr chains addrs|name c ok]; cbn [exec]; intro H.
    - eapply G_recv_handler; eauto.
    - eapply G_ack_handler; eauto.
    - destruct (cb_fail cb); [discriminate|]. eapply G_hook; eauto.
    - destruct ok; inversion H; subst; apply G_refl; exact I.
    - inversion H; subst; apply G_refl; exact I.
    - apply register_client_ok in H as (Vn & Nn & _ & H); subst s'.
      split; [apply noself_clients; assumption|]. split; [reflexivity|]. split; [intros d k _ A; exact A|].
      intros d _. apply gap_same_store; reflexivity.
    - unfold toggle_client in H. destruct (valid_name P name) eqn:Vn; cbn in H; [|discriminate].
      destruct (aget name (st_clients s)) as [c0|] eqn:C0; [|discriminate].
      destruct (c0 =? c); [discriminate|]. destruct ok; inversion H; subst.
      assert (Nn : name <> st_name s).
      { intros ->. destruct I as (_ & _ & Ns & _). unfold noself in Ns. congruence. }
      split; [apply noself_clients; assumption|]. split; [reflexivity|]. split; [intros d k _ A; exact A|].
      intros d _. apply gap_same_store; reflexivity.
    - inversion H; subst.
      split; [exact I|]. split; [reflexivity|]. split; [intros d k _ A; exact A|].
      intros d _. apply gap_same_store; reflexivity.
    - apply upgrade_client_ok in H; subst s'. apply G_refl; exact I.
  Qed.

  Definition ops_noself (name : bytes) (ops : list op) : Prop := Forall (fun o => act_noself name (snd o)) ops.

  Lemma G_run ops : forall s, inv4 s -> G s (run P s ops).
  Proof.
    induction ops as [|o ops IH]; intros s I; cbn [run]; [apply G_refl; exact I|].
    unfold step. destruct (deliver P (fst o) s (snd o)) as [s'| |] eqn:E0; [apply deliver_ok in E0 as E| |]; cbn [fst]; try (apply IH; assumption).
    pose proof (G_exec _ _ _ _ I E) as G1.
    eapply G_trans; [exact G1|]. apply IH. apply G1.
  Qed.

  (** *** C05.ack_processed_once *)
  Lemma ack_rejected_if_acked env s m cb1 cb2 cb3 :
    inv4 s ->
    acked s (p_dst (fst (decode P (am_packet m)))) (p_seq (fst (decode P (am_packet m)))) ->
    step P s (env, AAck m cb1 cb2 cb3) = (s, false).
  Proof.
    intros I [A _]. apply step_rejected. intros s' E. cbn [exec] in E. apply ack_handler_ok in E. cbv zeta in E.
    destruct E as (s1 & a & AK & _).
    destruct (ack_keeper_noself _ _ _ _ I AK) as (Src & _ & Cp & _).
    apply Cp. unfold triple_of. rewrite Src. exact A.
  Qed.

  Theorem ack_processed_once env s m cb1 cb2 cb3 s1 ops env' m' cb1' cb2' cb3' :
    inv4 s -> exec P env s (AAck m cb1 cb2 cb3) = Ok s1 ->
    triple_of (fst (decode P (am_packet m'))) = triple_of (fst (decode P (am_packet m))) ->
    step P (run P s1 ops) (env', AAck m' cb1' cb2' cb3') = (run P s1 ops, false).
  Proof.
    intros I E T. cbn [exec] in E.
    destruct (G_ack_handler _ _ _ _ _ _ _ I E) as [(I1 & Nm & _) A1].
    destruct (G_run ops s1 I1) as (I2 & _ & A2 & _).
    apply ack_rejected_if_acked; [exact I2|].
    unfold triple_of in T. inversion T as [[T1 T2 T3]]. rewrite T2, T3.
    apply A2; [|exact A1].
    apply ack_handler_ok in E. cbv zeta in E. destruct E as (s1' & a & AK & _).
    destruct (ack_keeper_noself _ _ _ _ I AK) as (_ & Vd & _). exact Vd.
  Qed.

  (** *** C04.send_gap_free *)
  Theorem send_gap_free ops s d :
    inv4 s -> valid_name P d = true ->
    inv4 (run P s ops) /\
    exists l n0 n,
      slog (run P s ops) = slog s ++ l /\
      next_seq P s (st_name s) d = Ok n0 /\ next_seq P (run P s ops) (st_name s) d = Ok n /\
      chain n0 (sent_seqs d l) n /\ cseq_view (run P s ops) d = n /\
      (forall i x, nth_error (sent_seqs d l) i = Some x -> x = n0 + N.of_nat i /\ x < two64) /\
      n = (n0 + N.of_nat (length (sent_seqs d l))) mod two64 /\
      (forall k, sget (ckey P (st_name s, d, k)) (run P s ops) <> None -> k < n \/ n = 0).
  Proof.
    intros I Vd. destruct (G_run ops s I) as (I' & Nm & _ & Gp).
    split; [exact I'|].
    destruct (Gp d Vd) as (_ & l & L & H).
    pose proof I as (_ & _ & _ & _ & CS). pose proof (CS d Vd) as N0.
    destruct (H _ N0) as (n & N1 & Ch).
    exists l, (cseq_view s d), n. split; [exact L|]. split; [exact N0|]. split; [exact N1|]. split; [exact Ch|].
    pose proof (next_seq_bound P _ _ _ _ N0) as B0.
    split.
    { destruct I' as (_ & _ & _ & _ & CS'). pose proof (CS' d Vd) as X. rewrite Nm, N1 in X. inversion X; reflexivity. }
    split; [apply (chain_nth _ _ _ Ch B0)|]. split; [apply (chain_final _ _ _ Ch B0)|].
    intros k Cp. destruct I' as (_ & _ & _ & K' & _).
    pose proof (K' d k Vd) as X. unfold own, below in X. rewrite Nm in X. apply X; assumption.
  Qed.

  (** ** C05: every ack effect (setAckStatus, fee payout, OnAcknowledgePacket) at most once per packet *)
  Lemma recv_handler_cnt f env s m cb s' :
    send_blind f -> (forall q, f (EvOnRecv q) = false) -> (forall t h, f (EvAckWritten t h) = false) ->
    recv_handler P env s m cb = Ok s' -> cnt f (slog s') = cnt f (slog s).
  Proof.
    intros B E1 E2 H. apply recv_handler_ok in H. cbv zeta in H.
    destruct H as (s1 & relayer & RK & _ & _ & Hc).
    assert (L1 : slog s1 = slog s).
    { apply recv_keeper_ok in RK. cbv zeta in RK. destruct RK as (_ & _ & _ & ct & bz & _ & _ & _ & ->).
      destruct (recv_relay s _); reflexivity. }
    assert (W : forall s3 p bz s'', write_ack P s3 p bz = Ok s'' -> cnt f (slog s'') = cnt f (slog s3)).
    { intros s3 p bz s'' WA. apply write_ack_ok in WA as (_ & _ & _ & ->).
      rewrite slog_add_log, slog_set_kv, cnt_app, cnt_one, E2. lia. }
    destruct Hc as [(_ & s3 & a & bz & _ & WA & Hcb) | [(_ & _ & bz & _ & WA) | (_ & _ & ->)]].
    - rewrite (W _ _ _ _ WA).
      destruct Hcb as [(_ & -> & _) | (s2 & code & res & msg & CP & _ & _ & ->)]; [rewrite L1; reflexivity|].
      destruct (code =? 0); [|rewrite L1; reflexivity].
      rewrite (call_cnt P _ _ _ _ _ B CP), E1, L1. lia.
    - rewrite (W _ _ _ _ WA), L1. reflexivity.
    - rewrite L1. reflexivity.
  Qed.

  Lemma ackev_match j d k d0 k0 st r p a :
    p_dst p = d0 -> p_seq p = k0 ->
    ((if ackev j d k (EvAckStatus d0 k0 st) then 1 else 0) + (if ackev j d k (EvFee d0 k0 r) then 1 else 0) +
     (if ackev j d k (EvOnAck p a) then 1 else 0) <= if bytes_eqb d d0 && N.eqb k k0 then 1 else 0)%nat.
  Proof.
    intros <- <-. destruct j as [|[|[|j]]]; cbn [ackev]; destruct (bytes_eqb d (p_dst p) && N.eqb k (p_seq p)); cbn; lia.
  Qed.

  Lemma acklog_exec env s a s' :
    inv4 s -> acklog_ok s -> exec P env s a = Ok s' -> acklog_ok s'.
  Proof.
    intros I AL H. pose proof (G_exec _ _ _ _ I H) as (_ & _ & AK & _).
    assert (Same : (forall j d k, cnt (ackev j d k) (slog s') = cnt (ackev j d k) (slog s)) -> acklog_ok s').
    { intros E j d k Vd. rewrite E. destruct (AL j d k Vd) as [A1 A2]. split; [exact A1|].
      intro X. apply AK; [exact Vd | apply A2; exact X]. }
    destruct a as [m cb|m cb1 cb2 cb3|cb|name ok| |name c ok|name c ok|addr chains addrs|name c ok]; cbn [exec] in H.
    - apply Same. intros j d k. apply (recv_handler_cnt _ _ _ _ _ _ (ackev_blind j d k)) in H; [exact H | |];
        intros; destruct j as [|[|[|j]]]; reflexivity.
    - pose proof (G_ack_handler _ _ _ _ _ _ _ I H) as [_ A0].
      apply ack_handler_ok in H. cbv zeta in H.
      set (p := fst (decode P (am_packet m))) in *.
      destruct H as (s1 & a & AKp & _ & _ & Hc).
      destruct (ack_keeper_noself _ _ _ _ I AKp) as (Src & Vd0 & Cp & S1). fold p in Src, Vd0, Cp, S1.
      destruct Hc as [(Ns & _) | (_ & s2 & s3 & r & addr & C1 & _ & _ & C2 & C3)].
      { exfalso. apply Ns. subst s1. exact Src. }
      intros j d k Vd.
      pose proof (call_cnt P _ _ _ _ _ (ackev_blind j d k) C1) as X1.
      pose proof (call_cnt P _ _ _ _ _ (ackev_blind j d k) C2) as X2.
      pose proof (call_cnt P _ _ _ _ _ (ackev_blind j d k) C3) as X3.
      assert (L1 : slog s1 = slog s) by (subst s1; reflexivity). rewrite L1 in X1.
      pose proof (ackev_match j d k (p_dst p) (p_seq p) (if a_code a =? 0 then 1 else 2) addr p a eq_refl eq_refl) as M.
      destruct (AL j d k Vd) as [A1 A2].
      destruct (bytes_eqb_spec d (p_dst p)) as [Ed|Nd]; [destruct (N.eqb_spec k (p_seq p)) as [Ek|Nk]|]; cbn [andb] in M.
      + subst d k.
        assert (Z : cnt (ackev j (p_dst p) (p_seq p)) (slog s) = 0%nat).
        { destruct (cnt (ackev j (p_dst p) (p_seq p)) (slog s)) eqn:E; [reflexivity|]. exfalso.
          destruct A2 as [Ab _]; [lia|]. apply Cp. unfold triple_of. rewrite Src. exact Ab. }
        split; [lia|]. intros _. exact A0.
      + split; [lia|]. intro X. apply AK; [exact Vd|]. apply A2. lia.
      + split; [lia|]. intro X. apply AK; [exact Vd|]. apply A2. lia.
    - apply Same. intros j d k. destruct (cb_fail cb); [discriminate|].
      apply (hook_sends_cnt P _ _ (ackev_blind j d k) _ _ H).
    - apply Same. destruct ok; inversion H; subst; reflexivity.
    - apply Same. inversion H; subst; reflexivity.
    - apply Same. apply register_client_ok in H as (Vn & Nn & _ & H); subst s'. reflexivity.
    - apply Same. unfold toggle_client in H. destruct (valid_name P name); cbn in H; [|discriminate].
      destruct (aget name (st_clients s)) as [c0|]; [|discriminate].
      destruct (c0 =? c); [discriminate|]. destruct ok; inversion H; subst. reflexivity.
    - apply Same. inversion H; subst. reflexivity.
    - apply Same. apply upgrade_client_ok in H; subst s'. reflexivity.
  Qed.

  Lemma acklog_run ops : forall s, inv4 s -> acklog_ok s -> acklog_ok (run P s ops).
  Proof.
    induction ops as [|o ops IH]; intros s I AL; cbn [run]; [exact AL|].
    unfold step. destruct (deliver P (fst o) s (snd o)) as [s'| |] eqn:E0; [apply deliver_ok in E0 as E| |]; cbn [fst]; try (apply IH; assumption).
    pose proof (G_exec _ _ _ _ I E) as (I' & Nm & _).
    apply IH; [exact I' | eapply acklog_exec; [exact I | exact AL | exact E]].
  Qed.

  Theorem ack_effects_once ops s j d k :
    inv4 s -> acklog_ok s -> valid_name P d = true ->
    (cnt (ackev j d k) (slog (run P s ops)) <= 1)%nat.
  Proof. intros I AL Vd. apply (acklog_run ops s I AL j d k Vd). Qed.

  (** the statement with the premise [ops_noself] that was needed before fix a9e74e1 (no longer used by Props/;
      kept under its old name because Proofs/BridgePacket.v of C03 applies it) *)
  Theorem ack_effects_at_most_once ops s j d k :
    inv4 s -> ops_noself (st_name s) ops -> acklog_ok s -> valid_name P d = true ->
    (cnt (ackev j d k) (slog (run P s ops)) <= 1)%nat.
  Proof. intros I _. apply ack_effects_once; exact I. Qed.


  (** ** C04: a stored commitment of ours keeps its value until exactly that packet is acknowledged *)
  Lemma ckey_not_n k : is_ckey P k -> forall a b, k <> nextseq_key P a b.
  Proof. intros [t ->] a b. apply (ko_cn P KO). Qed.

  Lemma send_keeps_c s p ok s' : inv4 s -> send_packet P s p ok = Ok s' -> keeps (is_ckey P) s s'.
  Proof.
    intros I H. destruct (send_step_exact _ _ _ _ I H) as (_ & _ & _ & _ & _ & _ & Fresh & _).
    apply send_packet_ok in H as (_ & _ & _ & _ & _ & bz & _ & ->). unfold sent_state.
    eapply keeps_trans; [|apply keeps_add_log].
    eapply keeps_trans; [|apply keeps_set_fresh].
    - eapply keeps_trans; [|apply keeps_add_log].
      eapply keeps_trans; [|apply keeps_set_cseq].
      apply keeps_set_other. intros k K. apply ckey_not_n; exact K.
    - rewrite sget_add_log, sget_set_cseq, sget_set_kv_other; [exact Fresh|].
      intro E. exact (ko_cn P KO (triple_of p) _ _ E).
  Qed.

  Lemma call_keeps_c s e cb s' : inv4 s -> call_packet P s e cb = Ok s' -> keeps (is_ckey P) s s'.
  Proof.
    intros I H. eapply proj2.
    eapply (call_packet_rel_inv P inv4 (keeps (is_ckey P))); [apply keeps_refl | apply keeps_trans | | | exact I | exact H].
    - intros s0 p ok s1 I0 H0. split; [eapply inv4_send; eauto | eapply send_keeps_c; eauto].
    - intros I0. split; [eapply inv4_frame; [exact I0 | apply frame_add_log] | apply keeps_add_log].
  Qed.

  Lemma hook_keeps_c l s s' : inv4 s -> hook_sends P s l = Ok s' -> keeps (is_ckey P) s s'.
  Proof.
    intros I H. eapply proj2.
    eapply (hook_sends_rel_inv P inv4 (keeps (is_ckey P))); [apply keeps_refl | apply keeps_trans | | exact I | exact H].
    intros s0 p ok s1 I0 H0. split; [eapply inv4_send; eauto | eapply send_keeps_c; eauto].
  Qed.

  Theorem commitment_kept_unless_acked env s a s' t v :
    inv4 s -> exec P env s a = Ok s' -> sget (ckey P t) s = Some v ->
    sget (ckey P t) s' = Some v \/
    (exists m cb1 cb2 cb3, a = AAck m cb1 cb2 cb3 /\ ckey P t = ckey P (triple_of (fst (decode P (am_packet m)))) /\
                           ack_verified P env s m).
  Proof.
    intros I H Hv.
    destruct a as [m cb|m cb1 cb2 cb3|cb|name ok| |name c ok|name c ok|addr chains addrs|name c ok]; cbn [exec] in H.
    - left. apply recv_handler_ok in H. cbv zeta in H.
      set (p := fst (decode P (rm_packet m))) in *.
      destruct H as (s1 & relayer & RK & _ & _ & Hc).
      destruct (recv_keeper_noself _ _ _ _ I RK) as [_ S1]. fold p in S1.
      assert (I1 : inv4 s1) by (subst s1; eapply inv4_frame; [exact I | apply frame_set_r]).
      assert (K1 : keeps (is_ckey P) s s1).
      { subst s1. apply keeps_set_other. intros k [t' ->] E. eapply (ko_rc P KO); eauto. }
      assert (W : forall s3 bz s'', write_ack P s3 p bz = Ok s'' -> keeps (is_ckey P) s3 s'').
      { intros s3 bz s'' WA. apply write_ack_ok in WA as (_ & _ & _ & ->).
        eapply keeps_trans; [|apply keeps_add_log]. apply keeps_set_other.
        intros k [t' ->] E. rewrite akey_eq in E. eapply (ko_ac P KO); eauto. }
      assert (K : keeps (is_ckey P) s s').
      { eapply keeps_trans; [exact K1|].
        destruct Hc as [(_ & s3 & a & bz & _ & WA & Hcb) | [(_ & _ & bz & _ & WA) | (_ & _ & ->)]].
        - eapply keeps_trans; [|eapply W; exact WA].
          destruct Hcb as [(_ & -> & _) | (s2 & code & res & msg & CP & _ & _ & ->)]; [apply keeps_refl|].
          destruct (code =? 0); [eapply call_keeps_c; eauto | apply keeps_refl].
        - eapply W; exact WA.
        - apply keeps_refl. }
      apply K; [eexists; reflexivity | exact Hv].
    - pose proof (ack_accepted_verified P sha_nonempty env s m cb1 cb2 cb3 s' H) as AV.
      apply ack_handler_ok in H. cbv zeta in H.
      set (p := fst (decode P (am_packet m))) in *.
      destruct H as (s1 & a & AKp & _ & _ & Hc).
      destruct (ack_keeper_noself _ _ _ _ I AKp) as (Src & Vd0 & Cp & S1). fold p in Src, Vd0, Cp, S1.
      destruct (bytes_eq_dec (ckey P t) (ckey P (triple_of p))) as [E|Ne].
      + right. exists m, cb1, cb2, cb3. split; [reflexivity|]. split; [exact E | exact AV].
      + left.
        assert (I1 : inv4 s1) by (subst s1; eapply inv4_frame; [exact I | apply frame_del_c]).
        assert (V1 : sget (ckey P t) s1 = Some v) by (subst s1; rewrite sget_del_kv_other; assumption).
        destruct Hc as [(_ & ->) | (_ & s2 & s3 & r & addr & C1 & _ & _ & C2 & C3)]; [exact V1|].
        pose proof (proj1 (inv4_call_gen _ _ _ _ I1 C1)) as I2.
        pose proof (proj1 (inv4_call_gen _ _ _ _ I2 C2)) as I3.
        apply (call_keeps_c _ _ _ _ I3 C3); [eexists; reflexivity|].
        apply (call_keeps_c _ _ _ _ I2 C2); [eexists; reflexivity|].
        apply (call_keeps_c _ _ _ _ I1 C1); [eexists; reflexivity | exact V1].
    - left. destruct (cb_fail cb); [discriminate|].
      apply (hook_keeps_c _ _ _ I H); [eexists; reflexivity | exact Hv].
    - left. destruct ok; inversion H; subst; exact Hv.
    - left. inversion H; subst; exact Hv.
    - left. apply register_client_ok in H as (Vn & Nn & _ & H); subst s'. exact Hv.
    - left. unfold toggle_client in H. destruct (valid_name P name); cbn in H; [|discriminate].
      destruct (aget name (st_clients s)) as [c0|]; [|discriminate].
      destruct (c0 =? c); [discriminate|]. destruct ok; inversion H; subst. exact Hv.
    - left. inversion H; subst. exact Hv.
    - left. apply upgrade_client_ok in H; subst s'. exact Hv.
  Qed.
End C04.
