(** Packet core, transaction level (C04 / C05 / C01 extensions).

    * one EVM transaction may carry SEVERAL PacketSent logs (a contract calling Endpoint.crossChainCall more than
      once): evm_hooks.go PostTxProcessing hands them to SendPacket one after the other and the first error reverts
      the whole transaction ([hook_sends]).  [hook_sends_exact]: an accepted transaction gives EVERY one of its sends
      its own (previously free) commitment, its counter step on both counters and its pair of ghost events, in
      order, and touches nothing else; [tx_unknown_dst_rejected], [tx_repeated_seq_rejected]: a transaction
      containing — at ANY position — a send to a destination without client, or two sends to one destination with
      the same sequence (what the packet contract produces, because it learns the new counter only after the
      transaction), is rejected as a whole.
    * one accepted acknowledgement on the sending chain logs each of its three effects EXACTLY once
      ([ack_step_effects]).
    * a cosmos transaction may carry several messages; BaseApp.runTx is atomic over all of them ([step_tx]).  Every
      state reachable by transactions is reachable by the accepted messages alone ([run_txs_as_run]), so every
      theorem about [run] covers multi-message transactions. *)
From Teleport Require Import Base.Bytes Base.Outcome Base.AList Model.Packet
     Proofs.Packet Proofs.PacketC01 Proofs.PacketC02 Proofs.PacketC05 Proofs.PacketC04.
Local Open Scope N_scope.

(** the ghost events of the sends of one transaction, in order *)
Definition send_events (l : list (packet * bool)) : list event :=
  flat_map (fun pk => [EvSetSeq (p_dst (fst pk)) (add64 (p_seq (fst pk)) 1); EvSent (fst pk)]) l.

Lemma sent_seqs_send_events d l :
  sent_seqs d (send_events l) =
  flat_map (fun pk => if bytes_eqb (p_dst (fst pk)) d then [p_seq (fst pk)] else []) l.
Proof.
  induction l as [|[p ok] l IH]; [reflexivity|].
  change (send_events ((p, ok) :: l)) with ([EvSetSeq (p_dst p) (add64 (p_seq p) 1); EvSent p] ++ send_events l).
  rewrite sent_seqs_app, IH. cbn [flat_map fst]. f_equal.
  unfold sent_seqs. cbn [flat_map]. rewrite app_nil_r. reflexivity.
Qed.

Section Tx.
  Variable P : params.
  Hypothesis KO : keys_ok P.

  Local Notation slog s := (log (st_app s)).

  (** ** several sends in one transaction *)
  Lemma hook_sends_exact l : forall s s',
    inv4 P s -> hook_sends P s l = Ok s' ->
    inv4 P s' /\
    slog s' = slog s ++ send_events l /\
    st_name s' = st_name s /\ st_clients s' = st_clients s /\ st_relayers s' = st_relayers s /\
    (forall p ok, In (p, ok) l ->
       ok = true /\ p_src p = st_name s /\ valid_name P (p_dst p) = true /\
       sget (ckey P (triple_of p)) s = None /\
       exists bz, abi_pack P p = Some bz /\ sget (ckey P (triple_of p)) s' = Some (sha256 P bz)) /\
    (forall k, (forall p ok, In (p, ok) l -> k <> ckey P (triple_of p) /\ k <> nextseq_key P (st_name s) (p_dst p)) ->
       sget k s' = sget k s) /\
    (forall d, (forall p ok, In (p, ok) l -> p_dst p <> d) -> cseq_view s' d = cseq_view s d).
  Proof.
    induction l as [|[p ok] l IH]; intros s s' I H; cbn [hook_sends] in H.
    - inversion H; subst s'. split; [exact I|]. split; [cbn; rewrite app_nil_r; reflexivity|].
      repeat (split; [reflexivity|]). split; [intros p ok []|]. split; reflexivity.
    - destruct (send_packet P s p ok) as [s1| |] eqn:E; cbn [obind] in H; try discriminate.
      pose proof (inv4_send P KO _ _ _ _ I E) as I1.
      destruct (send_step_exact P KO _ _ _ _ I E)
        as (Src & Nz & Vd & Nx & Nx' & Cv & Fresh & (bz & A & Cm) & Fr & Nm & Cl & Rl & Cq & Lg).
      destruct (IH _ _ I1 H) as (I' & Lg' & Nm' & Cl' & Rl' & Each & Fr' & Cq').
      pose proof (hook_keeps_c P KO _ _ _ I1 H) as Kp.
      split; [exact I'|].
      split. { rewrite Lg', Lg. cbn [send_events flat_map fst]. rewrite <- !app_assoc. reflexivity. }
      split; [congruence|]. split; [congruence|]. split; [congruence|].
      split.
      { intros p0 ok0 [X|X].
        - inversion X; subst p0 ok0.
          apply send_packet_ok in E as (_ & _ & _ & _ & Ok & _).
          split; [exact Ok|]. split; [exact Src|]. split; [exact Vd|]. split; [exact Fresh|].
          exists bz. split; [exact A|]. apply Kp; [eexists; reflexivity | exact Cm].
        - destruct (Each _ _ X) as (Ok0 & Src0 & Vd0 & Fresh0 & Fin0).
          split; [exact Ok0|]. split; [congruence|]. split; [exact Vd0|]. split; [|exact Fin0].
          rewrite <- Fresh0. symmetry. apply Fr.
          + intro Eq. rewrite Eq, Cm in Fresh0. discriminate.
          + intro Eq. exact (ko_cn P KO _ _ _ Eq). }
      split.
      { intros k Hk. rewrite Fr'.
        - apply Fr; apply (Hk p ok); left; reflexivity.
        - intros p0 ok0 X. rewrite Nm. apply (Hk p0 ok0). right; exact X. }
      intros d Hd. rewrite Cq'.
      + apply Cq. intro Eq. apply (Hd p ok); [left; reflexivity | symmetry; exact Eq].
      + intros p0 ok0 X. apply (Hd p0 ok0). right; exact X.
  Qed.

  (** the commitment keys written by one transaction are pairwise different: one commitment per send *)
  Lemma hook_sends_nodup l : forall s s',
    inv4 P s -> hook_sends P s l = Ok s' -> NoDup (map (fun pk => ckey P (triple_of (fst pk))) l).
  Proof.
    induction l as [|[p ok] l IH]; intros s s' I H; cbn [hook_sends] in H; [constructor|].
    destruct (send_packet P s p ok) as [s1| |] eqn:E; cbn [obind] in H; try discriminate.
    pose proof (inv4_send P KO _ _ _ _ I E) as I1.
    destruct (send_step_exact P KO _ _ _ _ I E) as (_ & _ & _ & _ & _ & _ & _ & (bz & _ & Cm) & _).
    cbn [map fst]. constructor; [|eapply IH; eauto].
    intro In1. apply in_map_iff in In1 as ([p0 ok0] & Eq & X). cbn [fst] in Eq.
    destruct (hook_sends_exact l _ _ I1 H) as (_ & _ & _ & _ & _ & Each & _).
    destruct (Each _ _ X) as (_ & _ & _ & Fresh0 & _). rewrite Eq, Cm in Fresh0. discriminate.
  Qed.

  (** SendPacket never changes the registered clients, whatever the state *)
  Lemma hook_sends_clients l : forall s s', hook_sends P s l = Ok s' -> st_clients s' = st_clients s.
  Proof.
    induction l as [|[p ok] l IH]; intros s s' H; cbn [hook_sends] in H; [inversion H; reflexivity|].
    destruct (send_packet P s p ok) as [s1| |] eqn:E; cbn [obind] in H; try discriminate.
    rewrite (IH _ _ H). apply send_packet_ok in E as (_ & _ & _ & _ & _ & bz & _ & ->). reflexivity.
  Qed.

  (** a transaction with a send to a destination without client — at any position — is rejected as a whole
      (no invariant needed) *)
  Theorem tx_unknown_dst_rejected env s cb p ok :
    In (p, ok) (cb_sends cb) -> aget (p_dst p) (st_clients s) = None ->
    step P s (env, ASend cb) = (s, false).
  Proof.
    intros X C. unfold step, deliver. cbn [fst snd msg_basic exec].
    destruct (cb_fail cb); [reflexivity|].
    destruct (hook_sends P s (cb_sends cb)) as [s'| |] eqn:H; try reflexivity. exfalso.
    revert s H C. induction (cb_sends cb) as [|[p0 ok0] l IH]; intros s H C; [destruct X|].
    cbn [hook_sends] in H.
    destruct (send_packet P s p0 ok0) as [s1| |] eqn:E; cbn [obind] in H; try discriminate.
    destruct X as [X|X].
    - inversion X; subst p0 ok0. apply send_packet_ok in E as (_ & _ & [c Cd] & _). congruence.
    - apply (IH X s1 H).
      apply send_packet_ok in E as (_ & _ & _ & _ & _ & bz & _ & ->). exact C.
  Qed.

  (** a transaction with two sends to the same destination carrying the same sequence is rejected as a whole *)
  Theorem tx_repeated_seq_rejected env s cb i j p1 ok1 p2 ok2 :
    inv4 P s -> (i < j)%nat ->
    nth_error (cb_sends cb) i = Some (p1, ok1) -> nth_error (cb_sends cb) j = Some (p2, ok2) ->
    p_dst p1 = p_dst p2 -> p_seq p1 = p_seq p2 ->
    step P s (env, ASend cb) = (s, false).
  Proof.
    intros I Lt N1 N2 Ed Eq. unfold step, deliver. cbn [fst snd msg_basic exec].
    destruct (cb_fail cb); [reflexivity|].
    destruct (hook_sends P s (cb_sends cb)) as [s'| |] eqn:H; try reflexivity. exfalso.
    set (l := cb_sends cb) in *. set (d := p_dst p1).
    destruct (hook_sends_exact l _ _ I H) as (_ & Lg & _ & _ & _ & Each & _).
    destruct (Each _ _ (nth_error_In _ _ N1)) as (_ & _ & Vd & _).
    destruct (G_hook P KO _ _ _ I H) as (_ & _ & _ & Gp).
    destruct (Gp d Vd) as (_ & l' & Lg2 & Hc).
    rewrite Lg in Lg2. apply app_inv_head in Lg2. subst l'.
    pose proof I as (_ & _ & _ & _ & CS). pose proof (CS d Vd) as N0.
    destruct (Hc _ N0) as (n & _ & Ch).
    pose proof (chain_nth _ _ _ Ch (next_seq_bound P _ _ _ _ N0)) as Nth.
    rewrite sent_seqs_send_events in Nth.
    (* positions of the two sends inside the list of sequences sent to d *)
    assert (Pos : forall (l0 : list (packet * bool)) k p ok, nth_error l0 k = Some (p, ok) -> p_dst p = d ->
              let f := fun pk : packet * bool => if bytes_eqb (p_dst (fst pk)) d then [p_seq (fst pk)] else [] in
              nth_error (flat_map f l0) (length (flat_map f (firstn k l0))) = Some (p_seq p)).
    { clear. intros l0. induction l0 as [|[q okq] l0 IH]; intros k p ok Hn Hd f; [destruct k; discriminate|].
      destruct k as [|k]; cbn [nth_error firstn flat_map] in *.
      - inversion Hn; subst q okq. unfold f at 1. cbn [fst length]. rewrite Hd, bytes_eqb_refl. reflexivity.
      - rewrite app_length. rewrite nth_error_app2 by lia.
        replace (length (f (q, okq)) + length (flat_map f (firstn k l0)) - length (f (q, okq)))%nat
          with (length (flat_map f (firstn k l0))) by lia.
        eapply IH; eauto. }
    pose proof (Pos l i p1 ok1 N1 eq_refl) as Q1.
    assert (Ed' : p_dst p2 = d) by (symmetry; exact Ed).
    pose proof (Pos l j p2 ok2 N2 Ed') as Q2. cbv zeta in Q1, Q2.
    destruct (Nth _ _ Q1) as [X1 _]. destruct (Nth _ _ Q2) as [X2 _].
    (* the second position is strictly behind the first *)
    set (f := fun pk : packet * bool => if bytes_eqb (p_dst (fst pk)) d then [p_seq (fst pk)] else []) in *.
    assert (Len : (length (flat_map f (firstn i l)) < length (flat_map f (firstn j l)))%nat).
    { assert (Sp : firstn j l = firstn i l ++ firstn (j - i) (skipn i l)).
      { rewrite <- (firstn_skipn i l) at 1. rewrite firstn_app, firstn_firstn.
        rewrite firstn_length_le by (apply Nat.lt_le_incl; apply nth_error_Some; rewrite N1; discriminate).
        replace (Nat.min j i) with i by lia. reflexivity. }
      rewrite Sp, flat_map_app, app_length.
      destruct (skipn i l) as [|[q okq] rest] eqn:Sk.
      { exfalso. pose proof (nth_error_Some l i) as Q. rewrite N1 in Q.
        assert (length (skipn i l) = 0%nat) as L0 by (rewrite Sk; reflexivity).
        rewrite skipn_length in L0. assert (i < length l)%nat by (apply Q; discriminate). lia. }
      assert (q = p1) as ->.
      { pose proof (nth_error_app2 (firstn i l) (skipn i l) (n := i)) as Q.
        rewrite firstn_skipn in Q.
        rewrite firstn_length_le in Q by (apply Nat.lt_le_incl; apply nth_error_Some; rewrite N1; discriminate).
        rewrite Nat.sub_diag, Sk, N1 in Q. specialize (Q (Nat.le_refl _)). cbn in Q. inversion Q; reflexivity. }
      destruct (j - i)%nat as [|m] eqn:Dj; [lia|].
      cbn [firstn flat_map]. rewrite app_length.
      assert (f (p1, okq) = [p_seq p1]) as -> by (unfold f; cbn [fst]; change (p_dst p1) with d; rewrite bytes_eqb_refl; reflexivity).
      cbn [length]. lia. }
    rewrite Eq in X1. rewrite X1 in X2. lia.
  Qed.

  (** the whole transaction, all or nothing *)
  Theorem tx_sends_all_or_nothing env s cb :
    inv4 P s ->
    match exec P env s (ASend cb) with
    | Ok s' =>
        cb_fail cb = false /\ inv4 P s' /\
        slog s' = slog s ++ send_events (cb_sends cb) /\
        NoDup (map (fun pk => ckey P (triple_of (fst pk))) (cb_sends cb)) /\
        (forall p ok, In (p, ok) (cb_sends cb) ->
           p_src p = st_name s /\ sget (ckey P (triple_of p)) s = None /\
           exists bz, abi_pack P p = Some bz /\ sget (ckey P (triple_of p)) s' = Some (sha256 P bz)) /\
        (forall k, (forall p ok, In (p, ok) (cb_sends cb) ->
                      k <> ckey P (triple_of p) /\ k <> nextseq_key P (st_name s) (p_dst p)) ->
           sget k s' = sget k s) /\
        st_name s' = st_name s /\ st_clients s' = st_clients s /\ st_relayers s' = st_relayers s
    | _ => step P s (env, ASend cb) = (s, false)
    end.
  Proof.
    intro I. unfold step, deliver. cbn [fst snd msg_basic exec].
    destruct (cb_fail cb) eqn:F; [reflexivity|].
    destruct (hook_sends P s (cb_sends cb)) as [s'| |] eqn:H; try reflexivity.
    destruct (hook_sends_exact _ _ _ I H) as (I' & Lg & Nm & Cl & Rl & Each & Fr & _).
    split; [reflexivity|]. split; [exact I'|]. split; [exact Lg|].
    split; [exact (hook_sends_nodup _ _ _ I H)|].
    split. { intros p ok X. destruct (Each _ _ X) as (_ & Src & _ & Fresh & Fin). repeat split; assumption. }
    split; [exact Fr|]. repeat split; assumption.
  Qed.

  (** ** one accepted acknowledgement on the sending chain: each effect exactly once *)
  Theorem ack_step_effects (Sh : forall x, sha256 P x <> []) env s m cb1 cb2 cb3 s' :
    exec P env s (AAck m cb1 cb2 cb3) = Ok s' ->
    let p := fst (decode P (am_packet m)) in
    p_src p = st_name s ->
    forall j, (j < 3)%nat ->
      cnt (ackev j (p_dst p) (p_seq p)) (slog s') = S (cnt (ackev j (p_dst p) (p_seq p)) (slog s)) /\
      (exists a, decode_ack P (am_ack m) = Some a /\
                 cnt (fun e => match e with
                               | EvAckStatus d q st => bytes_eqb d (p_dst p) && (q =? p_seq p) && (st =? (if a_code a =? 0 then 1 else 2))
                               | _ => false end) (slog s')
                 = S (cnt (fun e => match e with
                               | EvAckStatus d q st => bytes_eqb d (p_dst p) && (q =? p_seq p) && (st =? (if a_code a =? 0 then 1 else 2))
                               | _ => false end) (slog s))).
  Proof.
    intros E p Src j Lj. cbn [exec] in E. apply ack_handler_ok in E. cbv zeta in E. fold p in E.
    destruct E as (s1 & a & AK & DA & _ & [[Ne _]|(_ & s2 & s3 & r & addr & C1 & _ & _ & C2 & C3)]).
    { exfalso. apply Ne. pose proof (ack_keeper_ok P _ _ _ _ AK) as X. cbv zeta in X. fold p in X.
      destruct X as (_ & _ & bz & ct & _ & _ & _ & _ & [[_ ->]|[Ne2 _]]); [exact Src | contradiction]. }
    assert (L1 : slog s1 = slog s).
    { pose proof (ack_keeper_ok P _ _ _ _ AK) as X. cbv zeta in X. fold p in X.
      destruct X as (_ & _ & bz & ct & _ & _ & _ & _ & [[_ ->]|[Ne2 _]]); [reflexivity | contradiction]. }
    split.
    - pose proof (ackev_blind j (p_dst p) (p_seq p)) as Bl.
      rewrite (call_cnt P _ _ _ _ _ Bl C3), (call_cnt P _ _ _ _ _ Bl C2), (call_cnt P _ _ _ _ _ Bl C1), L1.
      destruct j as [|[|[|j]]]; [| | |lia]; cbn [ackev]; rewrite ?bytes_eqb_refl, ?N.eqb_refl; cbn; lia.
    - exists a. split; [exact DA|].
      set (f := fun e => match e with
                         | EvAckStatus d q st => bytes_eqb d (p_dst p) && (q =? p_seq p) && (st =? (if a_code a =? 0 then 1 else 2))
                         | _ => false end).
      assert (Bl : send_blind f) by (split; reflexivity).
      rewrite (call_cnt P _ _ _ _ _ Bl C3), (call_cnt P _ _ _ _ _ Bl C2), (call_cnt P _ _ _ _ _ Bl C1), L1.
      cbn [f]. rewrite bytes_eqb_refl, !N.eqb_refl. cbn. lia.
  Qed.

  (** ** cosmos transactions with several messages: BaseApp.runTx is atomic over ALL messages *)
  Definition tx := list op.

  Fixpoint exec_tx (s : cstate) (t : tx) : option cstate :=
    match t with
    | [] => Some s
    | o :: t' => match deliver P (fst o) s (snd o) with Ok s' => exec_tx s' t' | _ => None end
    end.

  Definition step_tx (s : cstate) (t : tx) : cstate * bool :=
    match exec_tx s t with Some s' => (s', true) | None => (s, false) end.

  Fixpoint run_txs (s : cstate) (l : list tx) : cstate :=
    match l with [] => s | t :: l' => run_txs (fst (step_tx s t)) l' end.

  Lemma exec_tx_run t : forall s s', exec_tx s t = Some s' -> run P s t = s'.
  Proof.
    induction t as [|o t IH]; intros s s' H; cbn in H; [inversion H; reflexivity|].
    cbn [run]. unfold step. destruct (deliver P (fst o) s (snd o)) as [s1| |]; try discriminate. cbn [fst]. auto.
  Qed.

  Lemma run_app a : forall s b, run P s (a ++ b) = run P (run P s a) b.
  Proof. induction a as [|o a IH]; intros s b; [reflexivity|]. cbn [run List.app]. apply IH. Qed.

  (** the accepted transactions of a history, flattened *)
  Fixpoint accepted (s : cstate) (l : list tx) : list op :=
    match l with
    | [] => []
    | t :: l' => match exec_tx s t with
                 | Some s' => t ++ accepted s' l'
                 | None => accepted s l'
                 end
    end.

  Theorem run_txs_as_run l : forall s,
    run_txs s l = run P s (accepted s l) /\
    (forall o, In o (accepted s l) -> exists t, In t l /\ In o t).
  Proof.
    induction l as [|t l IH]; intro s; cbn [run_txs accepted]; [split; [reflexivity | intros o []]|].
    unfold step_tx. destruct (exec_tx s t) as [s'|] eqn:E; cbn [fst].
    - destruct (IH s') as [R In1]. split.
      + rewrite run_app, (exec_tx_run _ _ _ E). exact R.
      + intros o X. apply in_app_or in X as [X|X]; [exists t; split; [left; reflexivity | exact X]|].
        destruct (In1 _ X) as (t0 & A & B). exists t0. split; [right; exact A | exact B].
    - destruct (IH s) as [R In1]. split; [exact R|].
      intros o X. destruct (In1 _ X) as (t0 & A & B). exists t0. split; [right; exact A | exact B].
  Qed.

  (** a rejected transaction changes nothing, wherever its failing message is *)
  Lemma step_tx_rejected s t : snd (step_tx s t) = false -> fst (step_tx s t) = s.
  Proof. unfold step_tx. destruct (exec_tx s t); [discriminate | reflexivity]. Qed.

  (** C01 at transaction level: after a transaction containing an accepted receive of triple t, a later receive of t
      fails — and with it the whole transaction that carries it — after any history of transactions; in
      particular a transaction carrying the same triple twice is rejected as a whole. *)
  Theorem recv_twice_tx_rejected env s m cb t1 t2 env' m' cb' t3 t4 l s1 :
    exec_tx s (t1 ++ (env, ARecv m cb) :: t2) = Some s1 ->
    triple_of (fst (decode P (rm_packet m'))) = triple_of (fst (decode P (rm_packet m))) ->
    step_tx (run_txs s1 l) (t3 ++ (env', ARecv m' cb') :: t4) = (run_txs s1 l, false).
  Proof.
    intros E T.
    (* split the first transaction at the receive *)
    assert (Sp : forall t s0 s2 rest, exec_tx s0 (t ++ rest) = Some s2 ->
                   exists sm, exec_tx s0 t = Some sm /\ exec_tx sm rest = Some s2).
    { induction t as [|o t IH]; intros s0 s2 rest H; [exists s0; split; [reflexivity | exact H]|].
      cbn [List.app exec_tx] in *. destruct (deliver P (fst o) s0 (snd o)) as [sx| |]; try discriminate. eauto. }
    destruct (Sp _ _ _ _ E) as (sa & _ & E2). cbn [exec_tx fst snd] in E2.
    destruct (deliver P env sa (ARecv m cb)) as [sb| |] eqn:Ex0; try discriminate. pose proof (deliver_ok _ _ _ _ _ Ex0) as Ex.
    destruct (run_txs_as_run l s1) as [R _].
    unfold step_tx.
    destruct (exec_tx (run_txs s1 l) (t3 ++ (env', ARecv m' cb') :: t4)) as [sz|] eqn:Ez; [|reflexivity]. exfalso.
    destruct (Sp _ _ _ _ Ez) as (sy & Ey & Ez2). cbn [exec_tx fst snd] in Ez2.
    apply exec_tx_run in E2, Ey.
    (* sy = run sb (t2 ++ accepted ++ t3) *)
    assert (Hy : sy = run P sb (t2 ++ accepted s1 l ++ t3)).
    { rewrite !run_app, E2, <- R, Ey. reflexivity. }
    destruct (recv_at_most_once P KO env sa m cb sb (t2 ++ accepted s1 l ++ t3) env' m' cb' Ex T) as [Er _].
    rewrite <- Hy in Er.
    destruct (deliver P env' sy (ARecv m' cb')) as [sq| |] eqn:Dq; try discriminate.
    apply deliver_ok in Dq. rewrite Er in Dq. discriminate.
  Qed.
End Tx.

(** ** every state reachable from a fresh chain satisfies all invariants at once *)
Section Reach.
  Variable P : params.
  Hypothesis KO : keys_ok P.
  Hypothesis Sh : forall x, sha256 P x <> [].

  (** a chain before its first packet: empty packet families, contract counters never set, empty ghost log, valid
      names, no client under the chain's own name (O7) *)
  Definition fresh (s : cstate) : Prop :=
    st_store s = [] /\ cseq (st_app s) = [] /\ log (st_app s) = [] /\
    valid_name P (st_name s) = true /\
    (forall n c, aget n (st_clients s) = Some c -> valid_name P n = true) /\
    aget (st_name s) (st_clients s) = None.

  Definition all_inv (s : cstate) : Prop := inv4 P s /\ inv5 P s /\ log_ok P s /\ acklog_ok P s.

  Lemma sget_fresh s k : st_store s = [] -> sget k s = None.
  Proof. unfold sget. intros ->. reflexivity. Qed.

  Lemma fresh_all_inv s : fresh s -> all_inv s.
  Proof.
    intros (St & Cq & Lg & Vn & Vc & Ns). split; [|split; [|split]].
    - split; [exact Vn|]. split; [exact Vc|]. split; [exact Ns|]. split.
      + intros d k _ H. exfalso. apply H. apply sget_fresh; exact St.
      + intros d _. unfold next_seq, cseq_view. rewrite (sget_fresh _ _ St), Cq. reflexivity.
    - split; [exact Vn|]. split; [exact Vc|]. split.
      + intros t _ H. exfalso. apply H. apply sget_fresh; exact St.
      + intros t _ _ H. exfalso. apply H. apply sget_fresh; exact St.
    - apply log_ok_empty; exact Lg.
    - apply acklog_ok_empty; exact Lg.
  Qed.

  Theorem reachable_all_inv ops s : fresh s -> all_inv (run P s ops).
  Proof.
    intros F. destruct (fresh_all_inv _ F) as (I4 & I5 & L & AL).
    split; [|split; [|split]].
    - exact (proj1 (G_run P KO Sh ops s I4)).
    - exact (proj1 (run_inv5 P KO Sh ops s I5)).
    - exact (run_log_ok P KO ops s L).
    - exact (acklog_run P KO Sh ops s I4 AL).
  Qed.
End Reach.

(** ** [noself] — no client under the chain's own name — is an invariant of EVERY history, with no other hypothesis
    (since fix a9e74e1: HandleCreateClient refuses the own name; ToggleClient and UpgradeClient need an existing client;
    no message handler touches the client table or the chain name) *)
Section NoSelf.
  Variable P : params.

  Definition cn_same (a b : cstate) : Prop := st_name b = st_name a /\ st_clients b = st_clients a.
  Lemma cn_refl a : cn_same a a. Proof. split; reflexivity. Qed.
  Lemma cn_trans a b c : cn_same a b -> cn_same b c -> cn_same a c.
  Proof. intros [A1 A2] [B1 B2]. split; congruence. Qed.

  Lemma cn_send s p ok s' : send_packet P s p ok = Ok s' -> cn_same s s'.
  Proof. intro H. apply send_packet_ok in H as (_ & _ & _ & _ & _ & bz & _ & ->). split; reflexivity. Qed.

  Lemma cn_call s e cb s' : call_packet P s e cb = Ok s' -> cn_same s s'.
  Proof.
    apply (call_packet_rel P cn_same cn_refl cn_trans); [intros; eapply cn_send; eauto | intros; split; reflexivity].
  Qed.

  Lemma cn_hook l s s' : hook_sends P s l = Ok s' -> cn_same s s'.
  Proof. apply (hook_sends_rel P cn_same cn_refl cn_trans). intros; eapply cn_send; eauto. Qed.

  Lemma cn_write_ack s p bz s' : write_ack P s p bz = Ok s' -> cn_same s s'.
  Proof. intro H. apply write_ack_ok in H as (_ & _ & _ & ->). split; reflexivity. Qed.

  Lemma cn_recv_handler env s m cb s' : recv_handler P env s m cb = Ok s' -> cn_same s s'.
  Proof.
    intro H. apply recv_handler_ok in H. cbv zeta in H. destruct H as (s1 & relayer & RK & _ & _ & Hc).
    assert (C1 : cn_same s s1).
    { pose proof (recv_keeper_ok P _ _ _ _ RK) as X. cbv zeta in X.
      destruct X as (_ & _ & _ & ct & bz & _ & _ & _ & Es1). rewrite Es1. destruct (recv_relay _ _); split; reflexivity. }
    eapply cn_trans; [exact C1|].
    destruct Hc as [(_ & s3 & a & bz & _ & WA & Hcb) | [(_ & _ & bz & _ & WA) | (_ & _ & ->)]].
    - eapply cn_trans; [|eapply cn_write_ack; exact WA].
      destruct Hcb as [(_ & -> & _) | (s2 & code & res & msg & CP & _ & _ & ->)]; [apply cn_refl|].
      destruct (code =? 0); [eapply cn_call; exact CP | apply cn_refl].
    - eapply cn_write_ack; exact WA.
    - apply cn_refl.
  Qed.

  Lemma cn_ack_handler env s m cb1 cb2 cb3 s' : ack_handler P env s m cb1 cb2 cb3 = Ok s' -> cn_same s s'.
  Proof.
    intro H. apply ack_handler_ok in H. cbv zeta in H. destruct H as (s1 & a & AK & _ & _ & Hc).
    assert (C1 : cn_same s s1).
    { pose proof (ack_keeper_ok P _ _ _ _ AK) as X. cbv zeta in X.
      destruct X as (_ & _ & bz & ct & _ & _ & _ & _ & [[_ Es1] | (_ & _ & Es1)]); rewrite Es1; split; reflexivity. }
    eapply cn_trans; [exact C1|].
    destruct Hc as [(_ & ->) | (_ & s2 & s3 & r & addr & C1' & _ & _ & C2 & C3)]; [apply cn_refl|].
    eapply cn_trans; [eapply cn_call; exact C1'|]. eapply cn_trans; [eapply cn_call; exact C2 | eapply cn_call; exact C3].
  Qed.

  Lemma noself_cn s s' : cn_same s s' -> noself s -> noself s'.
  Proof. intros [A B] N. unfold noself. rewrite A, B. exact N. Qed.

  Lemma exec_noself env s a s' : noself s -> exec P env s a = Ok s' -> noself s'.
  Proof.
    intro N.
    destruct a as [m cb|m cb1 cb2 cb3|cb|name ok| |name c ok|name c ok|addr chains addrs|name c ok]; cbn [exec]; intro H.
    - eapply noself_cn; [eapply cn_recv_handler; exact H | exact N].
    - eapply noself_cn; [eapply cn_ack_handler; exact H | exact N].
    - destruct (cb_fail cb); [discriminate|]. eapply noself_cn; [eapply cn_hook; exact H | exact N].
    - destruct ok; inversion H; subst; exact N.
    - inversion H; subst; exact N.
    - (* CreateClientProposal: the own name is refused *)
      apply register_client_ok in H as (_ & Nn & _ & ->).
      unfold noself. cbn [st_name st_clients set_clients]. rewrite aget_aset_other; [exact N | congruence].
    - (* ToggleClientProposal: only an existing client can be toggled *)
      unfold toggle_client in H. destruct (valid_name P name); cbn in H; [|discriminate].
      destruct (aget name (st_clients s)) as [c0|] eqn:C0; [|discriminate].
      destruct (c0 =? c); [discriminate|]. destruct ok; inversion H; subst.
      unfold noself in *. cbn [st_name st_clients set_clients]. rewrite aget_aset_other; [exact N|].
      intro E. rewrite <- E in C0. congruence.
    - inversion H; subst; exact N.
    - (* UpgradeClientProposal: the client table is unchanged *)
      apply upgrade_client_ok in H; subst s'. exact N.
  Qed.

  Theorem run_noself ops : forall s, noself s -> noself (run P s ops).
  Proof.
    induction ops as [|o ops IH]; intros s N; cbn [run]; [exact N|]. apply IH.
    unfold step. destruct (deliver P (fst o) s (snd o)) as [s'| |] eqn:D; cbn [fst]; try exact N.
    eapply exec_noself; [exact N | exact (deliver_ok _ _ _ _ _ D)].
  Qed.

  (** the same for histories of multi-message transactions *)
  Corollary run_txs_noself l s : noself s -> noself (run_txs P s l).
  Proof. intro N. rewrite (proj1 (run_txs_as_run P l s)). apply run_noself; exact N. Qed.

  (** and the client-creating proposal for the own name is refused in every state, changing nothing *)
  Theorem create_own_name_refused env s c ok : step P s (env, ARegisterClient (st_name s) c ok) = (s, false).
  Proof. apply step_rejected. intros s' H. cbn [exec] in H. rewrite register_own_name_refused in H. discriminate. Qed.
End NoSelf.
