(** A small concrete world for the non-vacuity examples and the refutation witnesses of C16: concrete oracles
    (a toy 32-byte "hash", a fixed decoded packet, a transfer application that mints / releases like ibc-go's),
    a registry with one pair, a receiver with a few coins. *)
From Coq Require Import List ZArith Bool.
From Teleport Require Import Base.Bytes Base.Outcome Model.Ics20 Model.Ics20Transfer Proofs.Ics20EndToEnd.
Import ListNotations.
Local Open Scope Z_scope.

Definition MOD : bytes := repeat xee 20.          (* the aggregate module account *)
Definition RCV : bytes := repeat x11 20.          (* an ordinary (20-byte) receiver *)
Definition RCV32 : bytes := repeat x22 12 ++ repeat x33 20.   (* a 32-byte receiver (interchain account) *)
Definition CTR : bytes := repeat xcc 20.          (* the pair's ERC-20 contract *)

(** stands in for sha256: 32 bytes, injective on the strings used below *)
Definition toy_sha (x : bytes) : bytes := firstn 32 (rev x ++ repeat x00 32).

Definition data_mint : ftpd :=
  {| fd_denom := B "uatom"; fd_amount := B "100"; fd_sender := B "cosmos1sender"; fd_receiver := B "tele1receiver" |}.
Definition data_return : ftpd :=
  {| fd_denom := B "transfer/channel-7/atele"; fd_amount := B "100"; fd_sender := B "cosmos1sender";
     fd_receiver := B "tele1receiver" |}.

Definition pkt0 : packet :=
  {| pk_data := B "{}"; pk_seq := 1; pk_sport := B "transfer"; pk_schan := B "channel-7";
     pk_dport := B "transfer"; pk_dchan := B "channel-0" |}.

Definition VOUCHER : bytes := ibc_denom toy_sha (B "transfer") (B "channel-0") (B "uatom").
Definition RVOUCHER : bytes := ibc_denom toy_sha (B "transfer") (B "channel-0") (B "transfer/channel-7/atele").

Definition ok_ack : ack := {| ack_success := true; ack_bytes := B "{""result"":""AQ==""}" |}.
Definition err_ack : ack := {| ack_success := false; ack_bytes := B "{""error"":""ABCI code: 1""}" |}.

(** ibc-go's transfer application on the concrete state: mint the voucher of the packet's trace to the receiver,
    or (returning tokens) release the stripped denomination from the channel escrow account [ESC]; a receiver that
    does not decode gives an error acknowledgement *)
Definition ESC : bytes := repeat xe5 20.
Definition toy_transfer (d : ftpd) (amt : Z) (recv : option bytes) (st : cstate) (pkt : packet) : outcome (cstate * ack) :=
  match recv with
  | None => Ok (st, err_ack)
  | Some r =>
      let g := received_denom toy_sha pkt d in
      if receiver_chain_is_source (pk_sport pkt) (pk_schan pkt) (fd_denom d) then
        if get2 (c_bank st) (ESC, g) <? amt then Ok (st, err_ack) else
        Ok (with_funds st (((r, g), get2 (c_bank st) (r, g) + amt) :: ((ESC, g), get2 (c_bank st) (ESC, g) - amt) :: c_bank st)
                       (c_supply st) (c_tokens st) (c_tok_total st), ok_ack)
      else
        Ok (with_funds st (((r, g), get2 (c_bank st) (r, g) + amt) :: c_bank st)
                       ((g, get1 (c_supply st) g + amt) :: c_supply st) (c_tokens st) (c_tok_total st), ok_ack)
  end.

Definition the_pair (owner : nat) (d : bytes) : cpair :=
  {| cp_erc20 := CTR; cp_denoms := [d]; cp_enabled := true; cp_owner := owner |}.

(** pair registered for denomination [d]; the receiver already holds 5 coins of it; the module holds [mt] tokens *)
Definition world_h (held : Z) (owner : nat) (d : bytes) (holder : bytes) (mt : Z) (alive : bool) : cstate :=
  {| c_enabled := true;
     c_denom_idx := [(d, [x01])]; c_erc20_idx := [(CTR, [x01])]; c_pairs := [([x01], the_pair owner d)];
     c_bank := [((holder, d), held); ((ESC, B "atele"), 1000)]; c_supply := [(d, held); (B "atele", 1000)];
     c_tokens := [((CTR, MOD), mt)]; c_tok_total := [(CTR, mt)];
     c_code := if alive then [CTR] else []; c_blocked := [MOD]; c_send_disabled := [] |}.

Definition world := world_h 5.

Definition unregistered_world : cstate :=
  {| c_enabled := true; c_denom_idx := []; c_erc20_idx := []; c_pairs := [];
     c_bank := []; c_supply := []; c_tokens := []; c_tok_total := [];
     c_code := []; c_blocked := [MOD]; c_send_disabled := [] |}.

Section Toy.
  Variable d : ftpd.
  Variable recv : option bytes.
  Definition toy_mw := middleware cstate toy_sha (fun _ => Some d) (fun _ => Some 100) (fun _ => recv)
                                  c_is_registered (convert_coin MOD) (toy_transfer d 100 recv).
  Definition toy_mw_v1 := middleware_v1 cstate toy_sha (fun _ => Some d) (fun _ => Some 100) (fun _ => recv)
                                  c_is_registered (convert_coin MOD) (toy_transfer d 100 recv).
  Definition toy_mw_old := middleware_old cstate toy_sha (fun _ => Some d) (fun _ => Some 100) (fun _ => recv)
                                  c_is_registered (convert_coin MOD) (toy_transfer d 100 recv).
  Definition toy_bare := bare cstate (toy_transfer d 100 recv).
End Toy.

(** what the examples look at *)
Definition view (o : outcome (cstate * option ack * option hook_path)) (holder evm denom : bytes) :=
  match o with
  | Ok (s, oa, hp) => Some (bal s holder denom, bal s MOD denom, get1 (c_supply s) denom, tok s CTR evm, tok s CTR MOD,
                            option_map ack_success oa, option_map path_code hp)
  | _ => None
  end.

(** ** The whole stack with the CONCRETE transfer application (Model/Ics20Transfer.v) *)
Definition TMOD : bytes := repeat xdd 20.         (* the transfer module account *)

Definition block_also (a : bytes) (s : cstate) : cstate :=
  {| c_enabled := c_enabled s; c_denom_idx := c_denom_idx s; c_erc20_idx := c_erc20_idx s; c_pairs := c_pairs s;
     c_bank := c_bank s; c_supply := c_supply s; c_tokens := c_tokens s; c_tok_total := c_tok_total s;
     c_code := c_code s; c_blocked := a :: c_blocked s; c_send_disabled := c_send_disabled s |}.

Section ToyFull.
  Variable d : ftpd.
  Variable recv : option bytes.
  Variable enabled : bool.
  Definition toy_ctransfer := ctransfer toy_sha (fun _ => Some d) (fun _ => Some 100) (fun _ => recv) (fun _ => true)
                                        (fun _ => ack_bytes err_ack) enabled TMOD (fun _ _ => ESC).
  Definition toy_full := full_stack MOD toy_sha (fun _ => Some d) (fun _ => Some 100) (fun _ => recv) (fun _ => true)
                                    (fun _ => ack_bytes err_ack) enabled TMOD (fun _ _ => ESC).
End ToyFull.
