(** Exactness of the fixed-offset key parsers of /repo HEAD (parse k = x implies
    k = render x, for EVERY key — no well-formedness needed), separation of the
    iterator prefixes of the xibc store, and the fact that every key the Go key
    builders produce from valid arguments (ALL byte patterns of heights and
    revision numbers) is accepted by [wf_xibc_entry]'s classification.
    Builds on the key library of C19 (Proofs/Keys.v, Proofs/KeysParse.v). *)
From Teleport Require Import Base.Bytes Base.Outcome Base.AList Base.Fmt Gen.KeysGen Model.Keys Model.Genesis.
From Teleport Require Import Proofs.Keys Proofs.KeysParse.
Local Open Scope N_scope.

(** * [cut_sep], [ParseClientKey], [ParseConsensusStateKey] are exact *)
Lemma cut_sep_exact l a b : cut_sep l = Some (a, b) -> l = a ++ sep :: b /\ no_sep a = true.
Proof.
  revert a b. induction l as [|c r IH]; intros a b; cbn; [discriminate|].
  destruct (is_sep c) eqn:E.
  - intros [= <- <-]. unfold is_sep in E. apply byte_eqb_eq in E. subst c. split; reflexivity.
  - destruct (cut_sep r) as [[a' b']|] eqn:C; [|discriminate]. intros [= <- <-].
    destruct (IH a' b' eq_refl) as [-> N]. split; [reflexivity|].
    cbn. unfold not_sep. rewrite E. exact N.
Qed.

Lemma parse_client_key_exact k name path :
  parse_client_key k = Some (name, path) -> k = client_store_prefix name ++ path /\ no_sep name = true.
Proof.
  unfold parse_client_key. destruct (strip _ k) as [rest|] eqn:S; [|discriminate].
  intro C. apply strip_some in S. apply cut_sep_exact in C as [-> N]. split; [|exact N].
  rewrite client_prefix_bytes, S. rewrite <- !app_assoc. reflexivity.
Qed.

Lemma skipn_length_8 (hb : bytes) : length hb = 16%nat -> length (firstn 8 hb) = 8%nat /\ length (skipn 8 hb) = 8%nat.
Proof. intro L. rewrite firstn_length, skipn_length, L. split; reflexivity. Qed.

Lemma be8_of_val (l : bytes) : length l = 8%nat -> be_bytes 8 (be_val l) = l.
Proof. intro L. rewrite <- L at 1. apply be_bytes_val. Qed.

Lemma be_val_lt_two64 (l : bytes) : length l = 8%nat -> be_val l < two64.
Proof. intro L. pose proof (be_val_bound l) as B. rewrite L in B. rewrite two64_eq. exact B. Qed.

Lemma parse_consensus_state_key_exact p h :
  parse_consensus_state_key p = Some h -> p = consensus_state_key h /\ valid_height h = true.
Proof.
  unfold parse_consensus_state_key. destruct (strip _ p) as [hb|] eqn:S; [|discriminate].
  destruct (Nat.eqb (length hb) 16) eqn:L; [|discriminate].
  apply Nat.eqb_eq in L. apply strip_some in S. destruct (skipn_length_8 hb L) as [L1 L2].
  assert (L3 : length (firstn 8 (skipn 8 hb)) = 8%nat) by (rewrite firstn_all2; [exact L2 | rewrite L2; apply le_n]).
  assert (Hb : hb = firstn 8 hb ++ firstn 8 (skipn 8 hb)).
  { rewrite (firstn_all2 (skipn 8 hb)) by (rewrite L2; apply le_n). symmetry. apply firstn_skipn. }
  revert L1 L3 Hb. generalize (firstn 8 hb) as f1. generalize (firstn 8 (skipn 8 hb)) as f2. intros f2 f1 L1 L3 Hb E.
  injection E as <-. split.
  - rewrite consensus_key_bytes. cbn [rev_number rev_height]. rewrite S, Hb.
    rewrite (be8_of_val _ L1), (be8_of_val _ L3). reflexivity.
  - unfold valid_height. cbn [rev_number rev_height]. apply andb_true_iff. split; apply N.ltb_lt; apply be_val_lt_two64; assumption.
Qed.

(** consequently the two client-store iterators read back exactly the key they were given *)
Lemma iter_clients_exact k name : iter_clients k = Got name -> k = full_client_state_key name /\ no_sep name = true.
Proof.
  unfold iter_clients. destruct (parse_client_key k) as [[n path]|] eqn:P; [|discriminate].
  destruct (bytes_eqb_spec path host_KeyClientState) as [->|N]; [|discriminate]. intros [= <-].
  apply parse_client_key_exact in P as [-> Hn]. split; [|exact Hn].
  rewrite full_client_state_key_split. reflexivity.
Qed.

Lemma iter_consensus_states_exact k name h :
  iter_consensus_states k = Got (name, h) ->
  k = full_consensus_state_key name h /\ no_sep name = true /\ valid_height h = true.
Proof.
  unfold iter_consensus_states. destruct (parse_client_key k) as [[n path]|] eqn:P; [|discriminate].
  destruct (parse_consensus_state_key path) as [h'|] eqn:C; [|discriminate]. intros [= <- <-].
  apply parse_client_key_exact in P as [-> Hn]. apply parse_consensus_state_key_exact in C as [-> Hh].
  split; [|split; assumption]. rewrite full_consensus_key_split. reflexivity.
Qed.

(** a consensus state key is not the client state key, and conversely *)
Lemma consensus_key_not_client_state h : bytes_eqb (consensus_state_key h) host_KeyClientState = false.
Proof. rewrite consensus_key_bytes. reflexivity. Qed.

Lemma client_state_not_consensus_key : parse_consensus_state_key host_KeyClientState = None.
Proof. reflexivity. Qed.

(** * Two prefixes of one key are comparable; the iterator prefixes of the xibc store are not *)
Lemma prefix_comparable p q k : is_prefix p k = true -> is_prefix q k = true -> is_prefix p q = true \/ is_prefix q p = true.
Proof.
  revert q k. induction p as [|a p IH]; intros q k; [left; reflexivity|].
  destruct q as [|b q]; [right; reflexivity|]. destruct k as [|c k]; cbn; [discriminate|].
  intros H1 H2. apply andb_true_iff in H1 as [A1 P1]. apply andb_true_iff in H2 as [A2 P2].
  apply byte_eqb_eq in A1, A2. subst a b. rewrite byte_eqb_refl. cbn. eapply IH; eassumption.
Qed.

Lemma prefix_exclusive p q k : incomparable p q = true -> is_prefix p k = true -> is_prefix q k = false.
Proof.
  intros I H. destruct (is_prefix q k) eqn:Q; [|reflexivity].
  destruct (prefix_comparable _ _ _ H Q) as [X|X]; unfold incomparable in I; rewrite X in I; cbn in I;
    [discriminate | rewrite andb_false_r in I; discriminate].
Qed.

Lemma prefix_of_eq p k : is_prefix p k = true -> forall q, bytes_eqb k q = true -> is_prefix p q = true.
Proof. intros H q E. apply bytes_eqb_eq in E. subst. exact H. Qed.

(** the seven literals the iterators (and [wf_xibc_entry]) dispatch on *)
Definition xibc_prefixes : list bytes :=
  [host_KeyClientStorePrefix; clienttypes_KeyRelayers; host_KeyPacketAckPrefix; host_KeyPacketCommitmentPrefix;
   host_KeyPacketReceiptPrefix; host_KeyNextSeqSendPrefix].

Fixpoint pairwise_incomparable (l : list bytes) : bool :=
  match l with
  | [] => true
  | p :: r => forallb (incomparable p) r && pairwise_incomparable r
  end.

(** re-checked by computation on the regenerated constants *)
Lemma xibc_prefixes_ok :
  pairwise_incomparable xibc_prefixes = true /\
  forallb (fun p => negb (is_prefix p chain_name_key)) xibc_prefixes = true.
Proof. split; vm_compute; reflexivity. Qed.

Lemma chain_name_no_prefix p k : In p xibc_prefixes -> bytes_eqb k chain_name_key = true -> is_prefix p k = false.
Proof.
  intros I E. apply bytes_eqb_eq in E. subst k.
  destruct xibc_prefixes_ok as [_ H]. rewrite forallb_forall in H. specialize (H p I).
  apply negb_true_iff in H. exact H.
Qed.

(** * The dispatch of [wf_xibc_entry] / [valid_xibc_entry]: which branch a key takes *)
Ltac other_prefix_false :=
  match goal with
  | H : is_prefix ?p ?k = true |- context [is_prefix ?q ?k] =>
      lazymatch q with
      | p => fail
      | _ => rewrite (prefix_exclusive p q k (eq_refl : incomparable p q = true) H)
      end
  end.

Lemma not_chain_name p k : In p xibc_prefixes -> is_prefix p k = true -> bytes_eqb k chain_name_key = false.
Proof.
  intros I H. destruct (bytes_eqb k chain_name_key) eqn:E; [|reflexivity].
  rewrite (chain_name_no_prefix p k I E) in H. discriminate.
Qed.

(** * The keys the modules write are accepted (all byte patterns of heights) *)

Lemma is_prefix_client_store name path : is_prefix host_KeyClientStorePrefix (client_store_prefix name ++ path) = true.
Proof. rewrite client_prefix_bytes, <- !app_assoc. apply is_prefix_app. Qed.

Lemma parse_consensus_state_key_of_metadata h sfx :
  sfx <> [] -> parse_consensus_state_key (consensus_state_key h ++ sfx) = None.
Proof.
  intro NE. rewrite consensus_key_bytes. unfold parse_consensus_state_key. rewrite <- app_assoc, strip_app.
  rewrite !app_length, !be8_length. destruct sfx; [congruence|]. cbn [length].
  replace (8 + 8 + S (length sfx))%nat with (S (S (S (S (S (S (S (S (S (S (S (S (S (S (S (S (S (length sfx))))))))))))))))))%nat by lia.
  reflexivity.
Qed.

Lemma tm_processed_time_key_split h : tm_processed_time_key h = consensus_state_key h ++ tm_KeyProcessedTime.
Proof.
  unfold tm_processed_time_key, consensus_state_key, height_args. rewrite shape_processed_time, shape_consensus.
  cbn [render render_item get_n nth_error]. rewrite !app_nil_r, <- !app_assoc. reflexivity.
Qed.

Lemma is_prefix_consensus_prefix h sfx : is_prefix host_KeyConsensusStatePrefix (consensus_state_key h ++ sfx) = true.
Proof. rewrite consensus_key_bytes, <- !app_assoc. apply is_prefix_app. Qed.

(** Tendermint: processed-time key and iteration key of ANY height are metadata paths of a Tendermint client *)
Theorem tm_metadata_paths h :
  metadata_path TM (tm_processed_time_key h) = true /\ metadata_path TM (tm_iteration_key h) = true /\
  parse_consensus_state_key (tm_processed_time_key h) = None /\
  bytes_eqb (tm_processed_time_key h) host_KeyClientState = false /\
  parse_consensus_state_key (tm_iteration_key h) = None /\
  bytes_eqb (tm_iteration_key h) host_KeyClientState = false.
Proof.
  assert (P : parse_consensus_state_key (tm_processed_time_key h) = None).
  { rewrite tm_processed_time_key_split. apply parse_consensus_state_key_of_metadata. discriminate. }
  assert (I : tm_iteration_key h = tm_KeyIterateConsensusStatePrefix ++ be_bytes 8 (rev_number h) ++ be_bytes 8 (rev_height h)).
  { unfold tm_iteration_key, height_args. rewrite shape_iteration. cbn [render render_item get_n nth_error]. rewrite app_nil_r. reflexivity. }
  refine (conj _ (conj _ (conj _ (conj _ (conj _ _))))).
  - unfold metadata_path. apply orb_true_iff. left. apply andb_true_iff. split.
    + rewrite tm_processed_time_key_split. apply is_prefix_consensus_prefix.
    + destruct (processed_time_key_roundtrip h) as [R _]. rewrite R. reflexivity.
  - unfold metadata_path. apply orb_true_iff. right. rewrite I. apply is_prefix_app.
  - exact P.
  - rewrite tm_processed_time_key_split, consensus_key_bytes. reflexivity.
  - rewrite I. reflexivity.
  - rewrite I. reflexivity.
Qed.

(** BSC / ETH: every key under the exported prefixes is a metadata path (recent signers of any height,
    pending validators, header index and main-root entries of any hash and number) *)
Theorem evm_metadata_paths sfx :
  metadata_path BSC (bsc_PrefixKeyRecentSingers ++ sfx) = true /\ metadata_path BSC (bsc_PrefixPendingValidators ++ sfx) = true /\
  metadata_path ETH (eth_KeyIndexEthHeaderPrefix ++ sfx) = true /\ metadata_path ETH (eth_KeyMainRootPrefix ++ sfx) = true /\
  parse_consensus_state_key (bsc_PrefixKeyRecentSingers ++ sfx) = None /\ parse_consensus_state_key (bsc_PrefixPendingValidators ++ sfx) = None /\
  parse_consensus_state_key (eth_KeyIndexEthHeaderPrefix ++ sfx) = None /\ parse_consensus_state_key (eth_KeyMainRootPrefix ++ sfx) = None /\
  bytes_eqb (bsc_PrefixKeyRecentSingers ++ sfx) host_KeyClientState = false /\ bytes_eqb (bsc_PrefixPendingValidators ++ sfx) host_KeyClientState = false /\
  bytes_eqb (eth_KeyIndexEthHeaderPrefix ++ sfx) host_KeyClientState = false /\ bytes_eqb (eth_KeyMainRootPrefix ++ sfx) host_KeyClientState = false.
Proof.
  unfold metadata_path. rewrite !is_prefix_app. cbn [orb]. rewrite !orb_true_r.
  refine (conj _ (conj _ (conj _ (conj _ (conj _ (conj _ (conj _ (conj _ (conj _ (conj _ (conj _ _))))))))))); reflexivity.
Qed.

(** a consensus state key of ANY height and a client state key are read back by the classification *)
Theorem client_keys_classified name h :
  no_sep name = true -> valid_height h = true ->
  parse_client_key (full_consensus_state_key name h) = Some (name, consensus_state_key h) /\
  parse_consensus_state_key (consensus_state_key h) = Some h /\
  parse_client_key (full_client_state_key name) = Some (name, host_KeyClientState).
Proof.
  intros Hn Hh. rewrite full_consensus_key_split, full_client_state_key_split. refine (conj _ (conj _ _)).
  - apply parse_client_key_prefix. exact Hn.
  - apply parse_consensus_state_key_roundtrip. exact Hh.
  - apply parse_client_key_prefix. exact Hn.
Qed.

(** packet keys of valid triples and send-sequence keys of valid names are accepted *)
Theorem packet_keys_classified t a b :
  valid_triple t = true -> valid_chain_name a = true -> valid_chain_name b = true ->
  wf_packet_key packet_ack_key (packet_ack_key t) = true /\
  wf_packet_key packet_commitment_key (packet_commitment_key t) = true /\
  wf_packet_key packet_receipt_key (packet_receipt_key t) = true /\
  parse_path (next_seq_send_key a b) = Ok (a, b).
Proof.
  intros V Va Vb. unfold wf_packet_key.
  rewrite (ack_key_parse_roundtrip t V), (commitment_key_parse_roundtrip t V), (receipt_key_parse_roundtrip t V), !bytes_eqb_refl.
  refine (conj eq_refl (conj eq_refl (conj eq_refl _))). apply next_seq_key_parse_roundtrip; assumption.
Qed.

(** [sdk.BigEndianToUint64] of the 8 bytes [SetNextSequenceSend] writes *)
Lemma sdk_be_to_uint64_8 (v : bytes) : length v = 8%nat -> sdk_be_to_uint64 v = Ok (be_val v) /\ be_bytes 8 (be_val v) = v.
Proof.
  intro L. split; [|apply be8_of_val; exact L].
  unfold sdk_be_to_uint64. destruct v as [|c v]; [discriminate|].
  unfold go_be_uint64. rewrite L. cbn [Nat.ltb Nat.leb]. rewrite firstn_all2 by (rewrite L; apply le_n). reflexivity.
Qed.
