(** More proofs about Model/Lifecycle.v (property C18):
    - the frame of an upgrade inside the upgraded client store ("and nothing else changes");
    - consensus states that are not expired (and their Tendermint processed time) survive every update, so the
      proof gates at the installed height open once the delay (time for Tendermint, blocks for BSC / ETH) has
      passed;
    - the monitor's update clause ([LifecycleCheck.mon_update_post]) accepts every successful update of the model;
    - [valid_name] is the identifier rule regenerated from x/xibc/core/host/validate.go (Gen/KeysGen.v).
    Statements are collected in Props/C18.v. *)
From Teleport Require Import Base.Bytes Base.Outcome Base.AList Gen.KeysGen Model.Lifecycle Model.LifecycleCheck
  Proofs.Lifecycle Proofs.LifecycleMonitor.
Local Open Scope N_scope.

(** * Store algebra, continued *)
Lemma sget_filter_key (f : ckey -> bool) k s :
  sget k (filter (fun kv : ckey * value => f (fst kv)) s) = if f k then sget k s else None.
Proof.
  induction s as [|[k' v] s IH]; cbn; [destruct (f k); reflexivity|].
  destruct (f k') eqn:F; cbn.
  - destruct (ckey_eqb_spec k k') as [->|N]; [rewrite F; reflexivity | exact IH].
  - destruct (ckey_eqb_spec k k') as [->|N]; [rewrite IH, F; reflexivity | exact IH].
Qed.

Lemma sget_del_all_signers k s :
  sget k (del_all_signers s) = match k with KSigner _ => None | _ => sget k s end.
Proof.
  unfold del_all_signers.
  rewrite (sget_filter_key (fun k => match k with KSigner _ => false | _ => true end) k s).
  destruct k; reflexivity.
Qed.

Lemma sget_del_signers_range k rev n : forall start s,
  (forall h, k <> KSigner h) -> sget k (del_signers_range rev start n s) = sget k s.
Proof.
  induction n as [|n IH]; intros start s N; cbn; [reflexivity|].
  rewrite IH by exact N. apply sget_sdel_other. apply N.
Qed.

Lemma existsb_false_cons {A} (f : A -> bool) x l : existsb f (x :: l) = false -> f x = false /\ existsb f l = false.
Proof. cbn. intro H. apply orb_false_iff in H. exact H. Qed.

Lemma ckey_neq k k' : ckey_eqb k k' = false -> k <> k'.
Proof. intros H E. subst. rewrite ckey_eqb_refl in H. discriminate. Qed.

(** * The frame of an upgrade inside the client store *)

(** What an upgrade leaves under the keys that are NOT the installed ones ([installed_keys]: client state,
    consensus state at the new latest height, the metadata of that height): everything stays, except that the
    BSC UpgradeState deletes every recent signer and the earliest consensus state if it is expired. *)
Definition upgrade_other (tnow : N) (c : client_state) (s : cstore) (k : ckey) : option value :=
  match c with
  | ClBsc hd _ _ trusting _ =>
      match k with
      | KSigner _ => None
      | KCons h => match prune_target BSC trusting tnow s with
                   | Ok (Some h0) => if h_eqb h h0 then None else sget k s
                   | _ => sget k s
                   end
      | _ => sget k s
      end
  | _ => sget k s
  end.

Lemma upgrade_client_frame cf tnow c cns s s' :
  f_upgrade_tss_nocons cf = true ->
  upgrade_client cf tnow c cns s = Ok s' ->
  forall k, existsb (ckey_eqb k) (installed_keys c) = false -> sget k s' = upgrade_other tnow c s k.
Proof.
  intros F1. unfold upgrade_client.
  destruct (sget KClient s) as [[old| | | | | | |]|] eqn:Ho; try discriminate.
  destruct (negb (ctype_eqb (type_of old) (type_of c))); [discriminate|].
  destruct (upgrade_state cf tnow c s) as [s1| |] eqn:E; cbn; try discriminate.
  rewrite F1. intro H; inversion H; subst; clear H. intros k Hk.
  destruct c as [l t d y r | hd e v t r | hd b t r | a r]; unfold installed_keys in Hk; cbn in E; cbn [type_of ctype_eqb andb].
  - apply existsb_false_cons in Hk. destruct Hk as [K1 Hk].
    apply existsb_false_cons in Hk. destruct Hk as [K2 Hk].
    apply existsb_false_cons in Hk. destruct Hk as [K3 Hk].
    apply existsb_false_cons in Hk. destruct Hk as [K4 _].
    inversion E; subst; clear E. unfold put_cons. cbn [latest_of].
    rewrite !sget_sset, K2, K1.
    destruct (f_tm_upgrade_meta cf); [|reflexivity].
    unfold set_tm_meta. rewrite !sget_sset, K4, K3. reflexivity.
  - apply existsb_false_cons in Hk. destruct Hk as [K1 Hk].
    apply existsb_false_cons in Hk. destruct Hk as [K2 Hk].
    apply existsb_false_cons in Hk. destruct Hk as [K3 Hk].
    apply existsb_false_cons in Hk. destruct Hk as [K4 _].
    destruct (e =? 0); [discriminate|]. destruct (negb (snd (eh_height hd) mod e =? 0)); [discriminate|].
    destruct (prune_target BSC t tnow s) as [p| |] eqn:P; cbn in E; try discriminate.
    apply bsc_install_ok in E. destruct E as (_ & _ & _ & vs & _ & ->).
    unfold put_cons. cbn [latest_of]. rewrite !sget_sset, K2, K1, K4, K3.
    rewrite sget_del_all_signers. unfold upgrade_other. rewrite P.
    destruct k; destruct p as [h0|]; rewrite ?sget_sdel; cbn [ckey_eqb]; reflexivity.
  - apply existsb_false_cons in Hk. destruct Hk as [K1 Hk].
    apply existsb_false_cons in Hk. destruct Hk as [K2 Hk].
    apply existsb_false_cons in Hk. destruct Hk as [K3 Hk].
    apply existsb_false_cons in Hk. destruct Hk as [K4 _].
    inversion E; subst; clear E. unfold put_cons, eth_install. cbn [latest_of].
    rewrite !sget_sset, K2, K1, K4, K3. reflexivity.
  - apply existsb_false_cons in Hk. destruct Hk as [K1 _].
    inversion E; subst; clear E. rewrite sget_sset, K1. reflexivity.
Qed.

Lemma upgrade_frame cf st p st' :
  f_upgrade_tss_nocons cf = true ->
  exec cf st (Upgrade p) = Ok st' ->
  forall k, existsb (ckey_eqb k) (installed_keys (p_client p)) = false ->
    sget k (store_of st' (p_name p)) = upgrade_other (now st) (p_client p) (store_of st (p_name p)) k.
Proof.
  intros F1. unfold exec.
  destruct (negb _); [discriminate|]. destruct (negb _); [discriminate|]. destruct (negb _); [discriminate|].
  destruct (upgrade_client cf (now st) (p_client p) (p_cons p) (store_of st (p_name p))) as [s'| |] eqn:U; cbn; try discriminate.
  intro H; inversion H; subst; clear H. intros k Hk. rewrite store_of_with_same.
  eapply upgrade_client_frame; eassumption.
Qed.

(** * Consensus states that are not expired survive every update *)
Definition unexpired (tnow : N) (c : client_state) (k : cons_state) : Prop :=
  match c with
  | ClTm _ tr _ _ _ => tnow < cs_ts k + tr
  | ClBsc _ _ _ tr _ | ClEth _ _ tr _ => evm_expired (cs_ts k) tr tnow = false
  | ClTss _ _ => True
  end.

Lemma prune_target_spares t trusting tnow s p hh k :
  prune_target t trusting tnow s = Ok (Some p) ->
  sget (KCons hh) s = Some (VCons k) -> cs_type k = t -> evm_expired (cs_ts k) trusting tnow = false -> p <> hh.
Proof.
  unfold prune_target. destruct (first_cons s) as [h|]; [|discriminate].
  destruct (get_cons t h s) as [cs|] eqn:G; [|discriminate].
  destruct (evm_expired (cs_ts cs) trusting tnow) eqn:X; intro H; inversion H; subst; clear H.
  intros Hk T U E. subst. rewrite (get_cons_of _ _ _ _ Hk eq_refl) in G. inversion G; subst. congruence.
Qed.

Lemma h_eqb_neq a b : a <> b -> h_eqb a b = false.
Proof. intro N. destruct (h_eqb_spec a b); [contradiction | reflexivity]. Qed.

Lemma keeper_update_keeps_cons cf tnow h s s' c hh k :
  sget KClient s = Some (VClient c) ->
  keeper_update cf tnow h s = Ok s' ->
  sget (KCons hh) s = Some (VCons k) -> cs_type k = type_of c -> unexpired tnow c k ->
  hdr_height cf h <> Some hh ->
  sget (KCons hh) s' = Some (VCons k) /\ sget (KPTime hh) s' = sget (KPTime hh) s.
Proof.
  intros Hc U Hk T Ux Nh. unfold keeper_update in U. rewrite Hc in U.
  destruct (negb (Nat.eqb (status tnow c s) 0)); [discriminate|].
  destruct (check_header_and_update cf tnow c h s) as [[[c' cns] s1]| |] eqn:E; cbn in U; try discriminate.
  destruct (hdr_height cf h) as [hx|] eqn:Hh; [|discriminate].
  assert (Nx : h_eqb hh hx = false) by (apply h_eqb_neq; congruence).
  inversion U; subst; clear U.
  destruct c as [l t d y r | cur e v t r | cur b t r | a r];
    destruct h as [trusted hy kk hv | et hd hv | addr rest]; cbn in E; cbn [type_of] in T; cbn [unexpired] in Ux; try discriminate.
  - (* Tendermint *)
    unfold tm_update in E. destruct (get_cons TM trusted s) as [tc|]; [|discriminate].
    destruct (negb _); [discriminate|].
    destruct (tm_prune t tnow s) as [s0| |] eqn:P; cbn in E; try discriminate.
    inversion E; subst; clear E. cbn in Hh. inversion Hh; subst; clear Hh.
    assert (K0 : sget (KCons hh) s0 = Some (VCons k) /\ sget (KPTime hh) s0 = sget (KPTime hh) s).
    { unfold tm_prune in P. destruct (first_iter s) as [h0|]; [|inversion P; subst; auto].
      destruct (get_cons TM h0 s) as [cs0|] eqn:G; [|discriminate].
      destruct (N.leb_spec (cs_ts cs0 + t) tnow) as [L|L]; inversion P; subst; clear P; [|auto].
      assert (N0 : h_eqb hh h0 = false).
      { apply h_eqb_neq. intro X; subst. rewrite (get_cons_of _ _ _ _ Hk T) in G. inversion G; subst. cbn in Ux. lia. }
      rewrite !sget_sdel. cbn [ckey_eqb]. rewrite N0. auto. }
    destruct K0 as [K1 K2]. unfold set_tm_meta.
    split; rewrite !sget_sset; cbn [ckey_eqb]; rewrite Nx; assumption.
  - (* BSC *)
    destruct et; try discriminate. unfold bsc_update in E.
    destruct (get_cons BSC (eh_height cur) s); [|discriminate].
    destruct (e =? 0); [discriminate|]. destruct (negb hv); [discriminate|]. destruct (negb _); [discriminate|].
    destruct (eh_signer hd) as [sg0|]; [|discriminate].
    destruct (negb _); [discriminate|]. destruct (negb _); [discriminate|]. destruct (existsb _ _); [discriminate|].
    set (s1' := sset (KSigner (eh_height hd)) (VAddr sg0) s) in *.
    assert (G1 : sget (KCons hh) s1' = Some (VCons k)) by (subst s1'; rewrite sget_sset; exact Hk).
    assert (P1 : sget (KPTime hh) s1' = sget (KPTime hh) s) by (subst s1'; rewrite sget_sset; reflexivity).
    destruct (prune_target BSC t tnow s1') as [p| |] eqn:P; cbn [obind] in E; try discriminate.
    set (s2 := match p with Some h0 => sdel (KCons h0) s1' | None => s1' end) in *.
    assert (G2 : sget (KCons hh) s2 = Some (VCons k) /\ sget (KPTime hh) s2 = sget (KPTime hh) s).
    { subst s2. destruct p as [h0|]; [|auto].
      pose proof (prune_target_spares _ _ _ _ _ _ _ P G1 T Ux) as N0.
      rewrite !sget_sdel. cbn [ckey_eqb]. rewrite (h_eqb_neq hh h0) by congruence. auto. }
    destruct G2 as [G2 P2].
    destruct (if snd (eh_height hd) mod e =? 0
              then match eh_vals hd with None => Err | Some vs => Ok (sset KPending (VVals vs) s2) end
              else Ok s2) as [s3| |] eqn:E3; cbn [obind] in E; try discriminate.
    assert (G3 : sget (KCons hh) s3 = Some (VCons k) /\ sget (KPTime hh) s3 = sget (KPTime hh) s).
    { destruct (snd (eh_height hd) mod e =? 0).
      - destruct (eh_vals hd); [|discriminate]. inversion E3; subst. rewrite !sget_sset. auto.
      - inversion E3; subst. auto. }
    destruct G3 as [G3 P3].
    cbn in Hh. inversion Hh; subst; clear Hh.
    assert (G4 : forall q, (forall x, q <> KSigner x) ->
                 forall sx, sget q sx = sget q s3 ->
                 forall (cnd : bool) rv st n, sget q (if cnd then del_signers_range rv st n sx else sx) = sget q s3).
    { intros q Nq sx Hx cnd rv st n. destruct cnd; [rewrite sget_del_signers_range by exact Nq|]; exact Hx. }
    destruct (snd (eh_height hd) mod e =? lenN v / 2); cbn [obind] in E; inversion E; subst; clear E.
    + split; rewrite !sget_sset; cbn [ckey_eqb]; rewrite ?Nx.
      * match goal with |- sget _ (if ?c then _ else _) = _ => destruct c end;
          rewrite ?sget_sdel; cbn [ckey_eqb]; rewrite G4; try reflexivity; try assumption; intros; discriminate.
      * match goal with |- sget _ (if ?c then _ else _) = _ => destruct c end;
          rewrite ?sget_sdel; cbn [ckey_eqb]; rewrite G4; try reflexivity; try assumption; intros; discriminate.
    + split; rewrite !sget_sset; cbn [ckey_eqb]; rewrite ?Nx.
      * match goal with |- sget _ (if ?c then _ else _) = _ => destruct c end;
          rewrite ?sget_sdel; cbn [ckey_eqb]; assumption.
      * match goal with |- sget _ (if ?c then _ else _) = _ => destruct c end;
          rewrite ?sget_sdel; cbn [ckey_eqb]; assumption.
  - (* ETH *)
    destruct et; try discriminate. unfold eth_update in E.
    destruct (get_cons ETH (eh_height cur) s); [|discriminate].
    destruct (negb hv); [discriminate|]. destruct (f_eth_rev_check cf && _); [discriminate|].
    destruct (sget (KHIdx (eh_parent hd) (sub64 (snd (eh_height hd)) 1)) s) as [[| | | | | |ph|]|]; try discriminate.
    destruct (negb _); [discriminate|]. destruct (eh_time hd <=? eh_time ph); [discriminate|].
    destruct (f_eth_old_header cf && _); [discriminate|].
    destruct (eth_prune t tnow s) as [s0| |] eqn:P; cbn in E; try discriminate.
    destruct (eth_is_fork cur hd); [discriminate|]. inversion E; subst; clear E.
    cbn in Hh. inversion Hh; subst; clear Hh.
    assert (K0 : sget (KCons hh) s0 = Some (VCons k) /\ sget (KPTime hh) s0 = sget (KPTime hh) s).
    { unfold eth_prune in P. destruct (prune_target ETH t tnow s) as [p| |] eqn:PT; cbn in P; try discriminate.
      destruct p as [h0|]; [|inversion P; subst; auto].
      pose proof (prune_target_spares _ _ _ _ _ _ _ PT Hk T Ux) as N0.
      destruct (get_cons ETH h0 s) as [cs0|]; [|discriminate].
      destruct (sget (KRootMain (hash32 (cs_root cs0)) (snd h0)) s) as [[| | | | | | |hash n]|]; try discriminate.
      inversion P; subst; clear P. rewrite !sget_sdel. cbn [ckey_eqb]. rewrite (h_eqb_neq hh h0) by congruence. auto. }
    destruct K0 as [K1 K2]. unfold eth_install.
    split; rewrite !sget_sset; cbn [ckey_eqb]; rewrite ?Nx; assumption.
  - (* TSS *)
    inversion E; subst; clear E. split; rewrite !sget_sset; cbn [ckey_eqb]; [exact Hk | reflexivity].
Qed.

(** the same at the level of [exec] *)
Lemma update_keeps_cons cf st name h signer vb st' c hh k :
  sget KClient (store_of st name) = Some (VClient c) ->
  exec cf st (Update name h signer vb) = Ok st' ->
  sget (KCons hh) (store_of st name) = Some (VCons k) -> cs_type k = type_of c -> unexpired (now st) c k ->
  hdr_height cf h <> Some hh ->
  sget (KCons hh) (store_of st' name) = Some (VCons k) /\
  sget (KPTime hh) (store_of st' name) = sget (KPTime hh) (store_of st name).
Proof.
  intros Hc E Hk T Ux Nh. unfold exec in E.
  destruct (negb vb); [discriminate|]. destruct (negb _); [discriminate|]. rewrite Hc in E.
  destruct (negb _); [discriminate|].
  destruct (keeper_update cf (now st) h (store_of st name)) as [s'| |] eqn:U; cbn in E; try discriminate.
  inversion E; subst; clear E. rewrite store_of_with_same.
  eapply keeper_update_keeps_cons; eassumption.
Qed.

(** * The gates once the delay has passed *)
Lemma root_gate_own k : root_gate (cs_root k) k = 0%nat.
Proof. unfold root_gate. rewrite bytes_eqb_refl. reflexivity. Qed.

Lemma tm_gate_after_delay t fx prf l tr d y r s h k pt :
  get_cons TM h s = Some k -> sget (KPTime h) s = Some (VTime pt) -> h_lt l h = false ->
  pt + y < two64 -> pt + y <= t ->
  gate t fx prf (ClTm l tr d y r) s h = root_gate fx k.
Proof.
  intros G P L B D. cbn. rewrite L, G, P. unfold add64. rewrite N.mod_small by exact B.
  destruct (N.ltb_spec (pt + y) pt); [lia|]. destruct (N.ltb_spec t (pt + y)); [lia | reflexivity].
Qed.

(** when processed time + delay does not fit into a uint64 the gate never opens (ea14df6) *)
Lemma tm_gate_overflow t fx prf l tr d y r s h k pt :
  get_cons TM h s = Some k -> sget (KPTime h) s = Some (VTime pt) -> h_lt l h = false ->
  pt < two64 -> y < two64 -> two64 <= pt + y ->
  gate t fx prf (ClTm l tr d y r) s h = 5%nat.
Proof.
  intros G P L B1 B2 O. cbn. rewrite L, G, P. unfold add64.
  assert (E : (pt + y) mod two64 = pt + y - two64).
  { symmetry. apply N.mod_unique with (q := 1); [unfold two64 in *; lia | unfold two64 in *; lia]. }
  rewrite E. destruct (N.ltb_spec (pt + y - two64) pt); [reflexivity | unfold two64 in *; lia].
Qed.

Lemma bsc_gate_after_delay t fx prf cur e vals tr r s h k :
  get_cons BSC h s = Some k -> h_lt (eh_height cur) h = false -> fst h = fst (eh_height cur) ->
  lenN vals / 2 + 1 <= sub64 (snd (eh_height cur)) (snd h) ->
  gate t fx prf (ClBsc cur e vals tr r) s h = root_gate_evm fx k.
Proof.
  intros G L R D. cbn. rewrite L, R, N.eqb_refl, G. cbn.
  destruct (N.ltb_spec (sub64 (snd (eh_height cur)) (snd h)) (lenN vals / 2 + 1)); [lia | reflexivity].
Qed.

Lemma eth_gate_after_delay t fx prf cur bd tr r s h k :
  get_cons ETH h s = Some k -> h_lt (eh_height cur) h = false -> fst h = fst (eh_height cur) ->
  bd <= sub64 (snd (eh_height cur)) (snd h) ->
  gate t fx prf (ClEth cur bd tr r) s h = root_gate_evm fx k.
Proof.
  intros G L R D. cbn. rewrite L, R, N.eqb_refl, G. cbn.
  destruct (N.ltb_spec (sub64 (snd (eh_height cur)) (snd h)) bd); [lia | reflexivity].
Qed.

(** Tendermint, installed client: the honest proof against the installed root verifies from [tnow + delay] on *)
Lemma installed_tm_proof_verifies tnow t prf l tr d y r cns s :
  installed tnow (ClTm l tr d y r) cns s -> cs_type cns = TM ->
  tnow + y < two64 -> tnow + y <= t ->
  gate t (cs_root cns) prf (ClTm l tr d y r) s l = 0%nat.
Proof.
  intros (Hc & Hk & Hp & _) T B D. cbn in Hk, Hp.
  rewrite (tm_gate_after_delay t _ prf l tr d y r s l cns tnow); try assumption.
  - apply root_gate_own.
  - apply get_cons_of; assumption.
  - apply h_lt_irrefl.
Qed.

(** * The monitor's update clause accepts every successful update of the model *)
Lemma check_header_shape cf tnow c h s c' cns s1 :
  check_header_and_update cf tnow c h s = Ok (c', cns, s1) ->
  match c, h with
  | ClTss _ _, HTss addr rest => c' = ClTss addr rest /\ cns = None
  | ClTm _ _ _ _ _, HTm _ _ k _ => type_of c' = TM /\ cns = Some (as_tm k)
  | ClBsc _ _ _ _ _, HEvm BSC hd _ =>
      (exists e v t r, c' = ClBsc hd e v t r) /\
      cns = Some {| cs_type := BSC; cs_ts := eh_time hd; cs_root := eh_root hd; cs_dg := eh_cons_dg hd |}
  | ClEth _ _ _ _, HEvm ETH hd _ =>
      (exists b t r, c' = ClEth hd b t r) /\
      cns = Some {| cs_type := ETH; cs_ts := eh_time hd; cs_root := eh_root hd; cs_dg := eh_cons_dg hd |}
  | _, _ => False
  end.
Proof.
  destruct c as [l t d y r | cur e v t r | cur b t r | a r];
    destruct h as [trusted hy kk hv | et hd hv | addr rest]; cbn; try discriminate.
  - unfold tm_update. destruct (get_cons TM trusted s); [|discriminate]. destruct (negb _); [discriminate|].
    destruct (tm_prune t tnow s); cbn; try discriminate. intro H; inversion H; subst. split; reflexivity.
  - destruct et; try discriminate. unfold bsc_update.
    destruct (get_cons BSC (eh_height cur) s); [|discriminate].
    destruct (e =? 0); [discriminate|]. destruct (negb hv); [discriminate|]. destruct (negb _); [discriminate|].
    destruct (eh_signer hd) as [sg0|]; [|discriminate].
    destruct (negb _); [discriminate|]. destruct (negb _); [discriminate|]. destruct (existsb _ _); [discriminate|].
    destruct (prune_target BSC t tnow _) as [p| |]; cbn [obind]; try discriminate.
    destruct (if snd (eh_height hd) mod e =? 0 then _ else _) as [s3| |]; cbn [obind]; try discriminate.
    destruct (snd (eh_height hd) mod e =? lenN v / 2); cbn [obind]; intro H; inversion H; subst; split; eauto.
  - destruct et; try discriminate. unfold eth_update.
    destruct (get_cons ETH (eh_height cur) s); [|discriminate].
    destruct (negb hv); [discriminate|]. destruct (f_eth_rev_check cf && _); [discriminate|].
    destruct (sget (KHIdx (eh_parent hd) (sub64 (snd (eh_height hd)) 1)) s) as [[| | | | | |ph|]|]; try discriminate.
    destruct (negb _); [discriminate|]. destruct (eh_time hd <=? eh_time ph); [discriminate|].
    destruct (f_eth_old_header cf && _); [discriminate|].
    destruct (eth_prune t tnow s); cbn; try discriminate.
    destruct (eth_is_fork cur hd); [discriminate|]. intro H; inversion H; subst. split; eauto.
  - intro H; inversion H; subst. split; reflexivity.
Qed.

Lemma monitor_update_sound cf st name h signer vb st' :
  exec cf st (Update name h signer vb) = Ok st' ->
  mon_update_post st' (option_map type_of (client_of st name)) name h = [].
Proof.
  unfold exec. destruct (negb vb); [discriminate|]. destruct (negb _); [discriminate|].
  destruct (sget KClient (store_of st name)) as [[c| | | | | | |]|] eqn:Hc; try discriminate.
  destruct (negb _); [discriminate|].
  destruct (keeper_update cf (now st) h (store_of st name)) as [s'| |] eqn:U; cbn; try discriminate.
  intro H; inversion H; subst; clear H.
  unfold keeper_update in U. rewrite Hc in U.
  destruct (negb (Nat.eqb _ 0)); [discriminate|].
  destruct (check_header_and_update cf (now st) c h (store_of st name)) as [[[c' cns] s1]| |] eqn:E; cbn in U; try discriminate.
  destruct (hdr_height cf h) as [hx|] eqn:Hh; [|discriminate].
  inversion U; subst; clear U.
  apply check_header_shape in E.
  unfold mon_update_post, client_of. rewrite store_of_with_same, Hc. cbn [option_map].
  destruct c as [l t d y r | cur e v t r | cur b t r | a r];
    destruct h as [trusted hy kk hv | et hd hv | addr rest]; try contradiction;
    try (destruct et; try contradiction).
  - destruct E as [Tc ->]. cbn in Hh. inversion Hh; subst.
    rewrite sget_sset. cbn [ckey_eqb]. rewrite sget_sset_same.
    destruct c'; try discriminate. cbn [type_of opt_eqb ctype_eqb negb option_map].
    unfold has_key. rewrite sget_sset_same, value_eqb_refl. reflexivity.
  - destruct E as [(e' & v' & t' & r' & ->) ->]. cbn in Hh. inversion Hh; subst.
    rewrite sget_sset. cbn [ckey_eqb]. rewrite sget_sset_same. cbn [type_of opt_eqb ctype_eqb negb option_map].
    rewrite hdr_eqb_refl, sget_sset_same. cbn [andb cs_dg]. rewrite bytes_eqb_refl. reflexivity.
  - destruct E as [(b' & t' & r' & ->) ->]. cbn in Hh. inversion Hh; subst.
    rewrite sget_sset. cbn [ckey_eqb]. rewrite sget_sset_same. cbn [type_of opt_eqb ctype_eqb negb option_map].
    rewrite hdr_eqb_refl, sget_sset_same. cbn [andb cs_dg]. rewrite bytes_eqb_refl. reflexivity.
  - destruct E as [-> ->]. rewrite sget_sset_same. cbn [type_of opt_eqb ctype_eqb negb option_map].
    rewrite !bytes_eqb_refl. reflexivity.
Qed.

(** * Lifted to histories: what was installed stays until it expires *)

(** the parameters an update never changes: the client type and the trusting period *)
Definition same_params (c c' : client_state) : Prop :=
  match c, c' with
  | ClTm _ t _ _ _, ClTm _ t' _ _ _ => t = t'
  | ClBsc _ _ _ t _, ClBsc _ _ _ t' _ => t = t'
  | ClEth _ _ t _, ClEth _ _ t' _ => t = t'
  | ClTss _ _, ClTss _ _ => True
  | _, _ => False
  end.

Lemma same_params_refl c : same_params c c.
Proof. destruct c; cbn; auto. Qed.

Lemma same_params_trans a b c : same_params a b -> same_params b c -> same_params a c.
Proof. destruct a, b, c; cbn; try tauto; congruence. Qed.

Lemma same_params_type c c' : same_params c c' -> type_of c = type_of c'.
Proof. destruct c, c'; cbn; tauto. Qed.

Lemma same_params_unexpired t c c' k : same_params c c' -> unexpired t c' k -> unexpired t c k.
Proof. destruct c, c'; cbn; try tauto; intros ->; auto. Qed.

Lemma check_header_params cf tnow c h s c' cns s1 :
  check_header_and_update cf tnow c h s = Ok (c', cns, s1) -> same_params c c'.
Proof.
  destruct c as [l t d y r | cur e v t r | cur b t r | a r];
    destruct h as [trusted hy kk hv | et hd hv | addr rest]; cbn; try discriminate.
  - unfold tm_update. destruct (get_cons TM trusted s); [|discriminate]. destruct (negb _); [discriminate|].
    destruct (tm_prune t tnow s); cbn; try discriminate. intro H; inversion H; subst. reflexivity.
  - destruct et; try discriminate. unfold bsc_update.
    destruct (get_cons BSC (eh_height cur) s); [|discriminate].
    destruct (e =? 0); [discriminate|]. destruct (negb hv); [discriminate|]. destruct (negb _); [discriminate|].
    destruct (eh_signer hd) as [sg0|]; [|discriminate].
    destruct (negb _); [discriminate|]. destruct (negb _); [discriminate|]. destruct (existsb _ _); [discriminate|].
    destruct (prune_target BSC t tnow _) as [p| |]; cbn [obind]; try discriminate.
    destruct (if snd (eh_height hd) mod e =? 0 then _ else _) as [s3| |]; cbn [obind]; try discriminate.
    destruct (snd (eh_height hd) mod e =? lenN v / 2); cbn [obind]; intro H; inversion H; subst; reflexivity.
  - destruct et; try discriminate. unfold eth_update.
    destruct (get_cons ETH (eh_height cur) s); [|discriminate].
    destruct (negb hv); [discriminate|]. destruct (f_eth_rev_check cf && _); [discriminate|].
    destruct (sget (KHIdx (eh_parent hd) (sub64 (snd (eh_height hd)) 1)) s) as [[| | | | | |ph|]|]; try discriminate.
    destruct (negb _); [discriminate|]. destruct (eh_time hd <=? eh_time ph); [discriminate|].
    destruct (f_eth_old_header cf && _); [discriminate|].
    destruct (eth_prune t tnow s); cbn; try discriminate.
    destruct (eth_is_fork cur hd); [discriminate|]. intro H; inversion H; subst. reflexivity.
  - intro H; inversion H; subst. exact I.
Qed.

Lemma keeper_update_params cf tnow h s s' c :
  sget KClient s = Some (VClient c) -> keeper_update cf tnow h s = Ok s' ->
  exists c', sget KClient s' = Some (VClient c') /\ same_params c c'.
Proof.
  intros Hc U. unfold keeper_update in U. rewrite Hc in U.
  destruct (negb (Nat.eqb (status tnow c s) 0)); [discriminate|].
  destruct (check_header_and_update cf tnow c h s) as [[[c' cns] s1]| |] eqn:E; cbn in U; try discriminate.
  destruct (hdr_height cf h) as [hx|]; [|discriminate]. inversion U; subst; clear U.
  exists c'. split; [|eapply check_header_params; exact E].
  destruct cns; rewrite ?sget_sset; cbn [ckey_eqb]; rewrite ?sget_sset_same; reflexivity.
Qed.

(** time never runs backwards, and what is unexpired now was unexpired before *)
Lemma now_step_le cf st o : now st <= now (snd (step cf st o)).
Proof.
  unfold step. destruct (exec cf st o) as [st'| |] eqn:E; cbn; try lia.
  pose proof (exec_frame _ _ _ _ E) as F.
  destruct o as [p|p|p|addr chains wfb|name h signer vb|dt]; try (destruct F as (_ & -> & _); lia).
  - destruct F as [-> _]. lia.
  - destruct F as (_ & _ & ->). lia.
Qed.

Lemma now_run_le cf os : forall st, now st <= now (run cf st os).
Proof.
  induction os as [|o os IH]; intro st; cbn; [lia|].
  pose proof (now_step_le cf st o). pose proof (IH (snd (step cf st o))). lia.
Qed.

Lemma unexpired_earlier t1 t2 c k : t1 <= t2 -> unexpired t2 c k -> unexpired t1 c k.
Proof.
  intro L. destruct c as [l t d y r | cur e v t r | cur b t r | a r]; cbn; try tauto; try lia.
  - unfold evm_expired, secs. intro H. apply N.ltb_ge in H. apply N.ltb_ge.
    pose proof (N.div_le_mono t1 t2 ns_per_s). unfold ns_per_s in *. lia.
  - unfold evm_expired, secs. intro H. apply N.ltb_ge in H. apply N.ltb_ge.
    pose proof (N.div_le_mono t1 t2 ns_per_s). unfold ns_per_s in *. lia.
Qed.

(** operations that install nothing under [name] and do not overwrite height [hh] of it *)
Definition keeps (cf : cfg) (name : bytes) (hh : height) (o : op) : bool :=
  match o with
  | Create p | Upgrade p | Toggle p => negb (bytes_eqb (p_name p) name)
  | Update n h _ _ => negb (bytes_eqb n name && opt_eqb h_eqb (hdr_height cf h) (Some hh))
  | _ => true
  end.

Lemma opt_h_eqb_neq a hh : opt_eqb h_eqb a (Some hh) = false -> a <> Some hh.
Proof. intros H E. subst. cbn in H. rewrite h_eqb_refl in H. discriminate. Qed.

Lemma step_keeps cf st o name c hh :
  keeps cf name hh o = true ->
  sget KClient (store_of st name) = Some (VClient c) ->
  let st1 := snd (step cf st o) in
  exists c1, sget KClient (store_of st1 name) = Some (VClient c1) /\ same_params c c1 /\
    forall k, sget (KCons hh) (store_of st name) = Some (VCons k) -> cs_type k = type_of c -> unexpired (now st) c k ->
     sget (KCons hh) (store_of st1 name) = Some (VCons k) /\
     sget (KPTime hh) (store_of st1 name) = sget (KPTime hh) (store_of st name).
Proof.
  intros K Hc. cbv zeta. unfold step.
  destruct (exec cf st o) as [st'| |] eqn:E; cbn [snd];
    try (exists c; split; [exact Hc|]; split; [apply same_params_refl | auto]).
  pose proof (exec_frame _ _ _ _ E) as F.
  destruct o as [p|p|p|addr chains wfb|n h signer vb|dt]; cbn in K.
  - destruct F as (_ & _ & F). destruct (bytes_eqb_spec (p_name p) name) as [|N]; [discriminate|].
    rewrite (F name) by congruence. exists c. split; [exact Hc|]. split; [apply same_params_refl | auto].
  - destruct F as (_ & _ & F). destruct (bytes_eqb_spec (p_name p) name) as [|N]; [discriminate|].
    rewrite (F name) by congruence. exists c. split; [exact Hc|]. split; [apply same_params_refl | auto].
  - destruct F as (_ & _ & F). destruct (bytes_eqb_spec (p_name p) name) as [|N]; [discriminate|].
    rewrite (F name) by congruence. exists c. split; [exact Hc|]. split; [apply same_params_refl | auto].
  - destruct F as [_ F]. unfold store_of. rewrite F. exists c. split; [exact Hc|]. split; [apply same_params_refl | auto].
  - destruct (bytes_eqb_spec n name) as [->|N].
    + cbn in K. apply negb_true_iff in K. apply opt_h_eqb_neq in K.
      pose proof E as E0. unfold exec in E.
      destruct (negb vb); [discriminate|]. destruct (negb _); [discriminate|]. rewrite Hc in E.
      destruct (negb _); [discriminate|].
      destruct (keeper_update cf (now st) h (store_of st name)) as [s'| |] eqn:U; cbn in E; try discriminate.
      inversion E; subst; clear E. rewrite store_of_with_same.
      destruct (keeper_update_params _ _ _ _ _ _ Hc U) as (c1 & Hc1 & P).
      exists c1. split; [exact Hc1|]. split; [exact P|]. intros k Hk T Ux.
      eapply keeper_update_keeps_cons; eassumption.
    + destruct F as (_ & _ & F). rewrite (F name) by congruence.
      exists c. split; [exact Hc|]. split; [apply same_params_refl | auto].
  - destruct F as (_ & F & _). unfold store_of. rewrite F. exists c. split; [exact Hc|]. split; [apply same_params_refl | auto].
Qed.

Lemma run_keeps_client cf name hh os : forall st c,
  forallb (keeps cf name hh) os = true ->
  sget KClient (store_of st name) = Some (VClient c) ->
  exists c', sget KClient (store_of (run cf st os) name) = Some (VClient c') /\ same_params c c'.
Proof.
  induction os as [|o os IH]; intros st c K Hc; cbn.
  - exists c. split; [exact Hc | apply same_params_refl].
  - cbn in K. apply andb_true_iff in K. destruct K as [K1 K2].
    destruct (step_keeps cf st o name c hh K1 Hc) as (c1 & Hc1 & P1 & _).
    destruct (IH _ _ K2 Hc1) as (c' & Hc' & P'). exists c'. split; [exact Hc' | eapply same_params_trans; eassumption].
Qed.

(** In EVERY history without another proposal on the chain name and without an update to the height itself, a
    consensus state of the client's type that is not expired at the END of the history is still stored there, with
    the processed time it had. *)
Lemma run_keeps_cons cf name hh k os : forall st c c',
  forallb (keeps cf name hh) os = true ->
  sget KClient (store_of st name) = Some (VClient c) ->
  sget (KCons hh) (store_of st name) = Some (VCons k) -> cs_type k = type_of c ->
  sget KClient (store_of (run cf st os) name) = Some (VClient c') ->
  unexpired (now (run cf st os)) c' k ->
  sget (KCons hh) (store_of (run cf st os) name) = Some (VCons k) /\
  sget (KPTime hh) (store_of (run cf st os) name) = sget (KPTime hh) (store_of st name).
Proof.
  induction os as [|o os IH]; intros st c c' K Hc Hk T Hc' Ux; cbn in *.
  - auto.
  - apply andb_true_iff in K. destruct K as [K1 K2].
    destruct (step_keeps cf st o name c hh K1 Hc) as (c1 & Hc1 & P1 & S1).
    destruct (run_keeps_client cf name hh os _ _ K2 Hc1) as (c2 & Hc2 & P2).
    rewrite Hc' in Hc2. inversion Hc2; subst c2; clear Hc2.
    assert (U0 : unexpired (now st) c k).
    { apply (unexpired_earlier (now st) (now (run cf (snd (step cf st o)) os))).
      - pose proof (now_step_le cf st o). pose proof (now_run_le cf os (snd (step cf st o))). lia.
      - eapply same_params_unexpired; [eapply same_params_trans; eassumption | exact Ux]. }
    destruct (S1 k Hk T U0) as [G1 Pt1].
    assert (T1 : cs_type k = type_of c1) by (rewrite T; apply same_params_type; exact P1).
    destruct (IH _ _ _ K2 Hc1 G1 T1 Hc' Ux) as [G P]. split; [exact G | congruence].
Qed.

(** * ETH: every consensus state has its root-main entry — in every history of ETH content at revision 0 *)

(** What [eth_prune] needs ([store_clean], ETH part).  Since aa5560b the code ties the consensus state of a proposal to
    the root of its header and since 1e12297 an update header carries the client's revision number; what is left to
    assume is that ETH PROPOSALS use revision 0 (the root-main keys ignore the revision number: the same block
    installed under two revision numbers shares one entry, Refuted/C18_hyps.v). *)
Definition eth_rooted (s : cstore) : Prop :=
  forall h cs, get_cons ETH h s = Some cs -> exists hash n, sget (KRootMain (hash32 (cs_root cs)) (snd h)) s = Some (VRefHIdx hash n).
Definition rev0 (s : cstore) : Prop := forall h v, sget (KCons h) s = Some v -> fst h = 0.

Definition eth_rev0 (p : proposal) : Prop :=
  match p_client p with ClEth hd _ _ _ => fst (eh_height hd) = 0 | _ => True end.

Definition op_eth_ok (o : op) : Prop :=
  match o with Create p | Upgrade p | Toggle p => eth_rev0 p | _ => True end.

Definition eth_state_ok (st : state) : Prop :=
  forall n c, sget KClient (store_of st n) = Some (VClient c) ->
    match c with
    | ClEth cur _ _ _ => fst (eh_height cur) = 0 /\ rev0 (store_of st n) /\ eth_rooted (store_of st n)
    | _ => True
    end.

Lemma get_cons_some t h s cs : get_cons t h s = Some cs -> sget (KCons h) s = Some (VCons cs) /\ cs_type cs = t.
Proof.
  unfold get_cons. destruct (sget (KCons h) s) as [[| c0 | | | | | |]|]; try discriminate.
  destruct (ctype_eqb_spec (cs_type c0) t); [|discriminate]. intro H; inversion H; subst. auto.
Qed.

Lemma eth_inv_install hd c k s0 :
  rev0 s0 -> eth_rooted s0 -> fst (eh_height hd) = 0 -> hash32 (cs_root k) = hash32 (eh_root hd) ->
  rev0 (sset (KCons (eh_height hd)) (VCons k) (sset KClient (VClient c) (eth_install hd s0))) /\
  eth_rooted (sset (KCons (eh_height hd)) (VCons k) (sset KClient (VClient c) (eth_install hd s0))).
Proof.
  intros R0 Rt Hr Hk. unfold eth_install. split.
  - intros h v. rewrite !sget_sset. cbn [ckey_eqb].
    destruct (h_eqb_spec h (eh_height hd)) as [->|N]; [intros _; exact Hr | apply R0].
  - intros h cs G. apply get_cons_some in G. destruct G as [G T]. revert G.
    rewrite !sget_sset. cbn [ckey_eqb].
    destruct (h_eqb_spec h (eh_height hd)) as [->|N].
    + intro H; inversion H; subst. rewrite Hk, bytes_eqb_refl, N.eqb_refl. cbn. eauto.
    + intro G. destruct (Rt h cs (get_cons_of _ _ _ _ G T)) as (hash & n & E).
      destruct (bytes_eqb (hash32 (cs_root cs)) (hash32 (eh_root hd)) && (snd h =? snd (eh_height hd))); [eauto|].
      exists hash, n. exact E.
Qed.

Lemma eth_inv_prune trusting tnow s s0 :
  rev0 s -> eth_rooted s -> eth_prune trusting tnow s = Ok s0 -> rev0 s0 /\ eth_rooted s0.
Proof.
  intros R0 Rt. unfold eth_prune.
  destruct (prune_target ETH trusting tnow s) as [p| |]; cbn; try discriminate.
  destruct p as [h0|]; [|intro H; inversion H; subst; auto].
  destruct (get_cons ETH h0 s) as [cs0|] eqn:G0; [|discriminate].
  destruct (sget (KRootMain (hash32 (cs_root cs0)) (snd h0)) s) as [[| | | | | | |hash0 n0]|]; try discriminate.
  intro H; inversion H; subst; clear H. split.
  - intros h v. rewrite !sget_sdel. cbn [ckey_eqb]. destruct (h_eqb h h0); [discriminate | apply R0].
  - intros h cs G. apply get_cons_some in G. destruct G as [G T]. revert G.
    rewrite !sget_sdel. cbn [ckey_eqb].
    destruct (h_eqb_spec h h0) as [->|N]; [discriminate|]. intro G.
    destruct (Rt h cs (get_cons_of _ _ _ _ G T)) as (hash & n & E).
    assert (Ns : snd h <> snd h0).
    { apply get_cons_some in G0. destruct G0 as [G0 _].
      pose proof (R0 _ _ G) as A. pose proof (R0 _ _ G0) as B. intro X. apply N.
      destruct h, h0; cbn in *; congruence. }
    destruct (N.eqb_spec (snd h) (snd h0)) as [X|_]; [contradiction|]. rewrite andb_false_r.
    exists hash, n. exact E.
Qed.

Lemma fresh_store_eth_ok tnow hd b t r cns :
  hash32 (cs_root cns) = hash32 (eh_root hd) -> fst (eh_height hd) = 0 ->
  rev0 (fresh_store tnow (ClEth hd b t r) cns) /\ eth_rooted (fresh_store tnow (ClEth hd b t r) cns).
Proof.
  intros Hk Hr. split.
  - intros h v. cbn. destruct (h_eqb_spec h (eh_height hd)) as [->|N]; [intros _; exact Hr | discriminate].
  - intros h cs G. apply get_cons_some in G. destruct G as [G _]. revert G. cbn.
    destruct (h_eqb_spec h (eh_height hd)) as [->|N]; [|discriminate].
    intro H; inversion H; subst. rewrite Hk, bytes_eqb_refl, N.eqb_refl. cbn. eauto.
Qed.

Lemma roots_agree_eth cf hd b t r p :
  f_eth_root_check cf = true -> p_client p = ClEth hd b t r -> roots_agree cf p = true ->
  hash32 (cs_root (p_cons p)) = hash32 (eh_root hd).
Proof.
  intros F Pc. unfold roots_agree. rewrite F, Pc. cbn. intro H.
  destruct (bytes_eqb_spec (hash32 (cs_root (p_cons p))) (hash32 (eh_root hd))); [assumption | discriminate].
Qed.

Lemma eth_state_ok_step cf st o :
  f_toggle_new cf = true -> f_toggle_clear cf = true -> f_cons_type_check cf = true ->
  f_upgrade_tss_nocons cf = true -> f_tm_upgrade_meta cf = true ->
  f_eth_root_check cf = true -> f_eth_rev_check cf = true ->
  wf_state st -> op_eth_ok o -> eth_state_ok st -> eth_state_ok (snd (step cf st o)).
Proof.
  intros F1 F2 F3 F4 F5 F6 F7 W Ok Inv. unfold step. destruct (exec cf st o) as [st'| |] eqn:E; cbn; try exact Inv.
  pose proof (exec_roots_agree _ _ _ _ E) as RA.
  destruct o as [p|p|p|addr chains wfb|name h signer vb|dt].
  - apply create_spec in E; try assumption. destruct E as (_ & _ & _ & _ & _ & ->).
    intros n c. destruct (bytes_eqb_spec n (p_name p)) as [->|N].
    + rewrite store_of_with_same, fresh_store_client. intro H; inversion H; subst.
      cbn in Ok. unfold eth_rev0 in Ok. destruct (p_client p) as [| |hd b t r|] eqn:Pc; try exact I.
      split; [exact Ok|]. apply fresh_store_eth_ok; [|exact Ok]. eapply roots_agree_eth; eassumption.
    + rewrite store_of_with_other by exact N. apply Inv.
  - unfold exec in E.
    destruct (negb (valid_name (p_name p) && p_validate p)); [discriminate|].
    destruct (negb (types_agree cf p)); [discriminate|]. destruct (negb (roots_agree cf p)); [discriminate|].
    destruct (upgrade_client cf (now st) (p_client p) (p_cons p) (store_of st (p_name p))) as [s'| |] eqn:U; cbn in E; try discriminate.
    inversion E; subst; clear E.
    intros n c. destruct (bytes_eqb_spec n (p_name p)) as [->|N].
    + rewrite store_of_with_same, (upgrade_client_has _ _ _ _ _ _ U). intro H; inversion H; subst.
      cbn in Ok. unfold eth_rev0 in Ok.
      destruct (p_client p) as [| |hd b t r|] eqn:Pc; try exact I.
      pose proof (roots_agree_eth _ _ _ _ _ _ F6 Pc RA) as Hk.
      unfold upgrade_client in U.
      destruct (sget KClient (store_of st (p_name p))) as [[old| | | | | | |]|] eqn:Ho; try discriminate.
      destruct (ctype_eqb_spec (type_of old) (type_of (ClEth hd b t r))) as [To|]; [|discriminate]. cbn in U.
      rewrite F4 in U. cbn in U. inversion U; subst; clear U.
      pose proof (Inv _ _ Ho) as IO. destruct old as [| |cur0 b0 t0 r0|]; try discriminate.
      destruct IO as (_ & R0 & Rt). split; [exact Ok|]. unfold put_cons. cbn [latest_of].
      apply eth_inv_install; assumption.
    + rewrite store_of_with_other by exact N. apply Inv.
  - apply toggle_spec in E; try assumption. destruct E as (old & _ & _ & _ & _ & _ & _ & ->).
    intros n c. destruct (bytes_eqb_spec n (p_name p)) as [->|N].
    + rewrite store_of_with_same, fresh_store_client. intro H; inversion H; subst.
      cbn in Ok. unfold eth_rev0 in Ok. destruct (p_client p) as [| |hd b t r|] eqn:Pc; try exact I.
      split; [exact Ok|]. apply fresh_store_eth_ok; [|exact Ok]. eapply roots_agree_eth; eassumption.
    + rewrite store_of_with_other by exact N. apply Inv.
  - unfold exec in E. destruct (negb _); [discriminate|]. inversion E; subst. exact Inv.
  - unfold exec in E. destruct (negb vb); [discriminate|]. destruct (negb _); [discriminate|].
    destruct (sget KClient (store_of st name)) as [[c0| | | | | | |]|] eqn:Hc; try discriminate.
    destruct (negb _); [discriminate|].
    destruct (keeper_update cf (now st) h (store_of st name)) as [s'| |] eqn:U; cbn in E; try discriminate.
    inversion E; subst; clear E.
    intros n c. destruct (bytes_eqb_spec n name) as [->|N]; [|rewrite store_of_with_other by exact N; apply Inv].
    rewrite store_of_with_same. intros Hc'.
    destruct (keeper_update_params _ _ _ _ _ _ Hc U) as (c1 & Hc1 & P).
    assert (c1 = c) by congruence. subst c1.
    destruct c0 as [| |cur b t r|]; try (destruct c; try contradiction; exact I).
    destruct (Inv _ _ Hc) as (Rc & R0 & Rt).
    unfold keeper_update in U. rewrite Hc in U.
    destruct (negb (Nat.eqb _ 0)); [discriminate|].
    destruct h as [trusted hy kk hv | et hd hv | addr rest]; cbn in U; try discriminate.
    destruct et; try discriminate. unfold eth_update in U.
    destruct (get_cons ETH (eh_height cur) (store_of st name)); [|discriminate].
    destruct (negb hv); [discriminate|]. rewrite F7 in U. cbn [andb] in U.
    destruct (N.eqb_spec (fst (eh_height hd)) (fst (eh_height cur))) as [Rv|]; [|discriminate]. cbn [negb] in U.
    destruct (sget (KHIdx (eh_parent hd) (sub64 (snd (eh_height hd)) 1)) (store_of st name)) as [[| | | | | |ph|]|]; try discriminate.
    destruct (negb _); [discriminate|]. destruct (eh_time hd <=? eh_time ph); [discriminate|].
    destruct (f_eth_old_header cf && _); [discriminate|].
    destruct (eth_prune t (now st) (store_of st name)) as [s0| |] eqn:Pr; cbn in U; try discriminate.
    destruct (eth_is_fork cur hd); [discriminate|]. cbn in U. inversion U; subst; clear U.
    destruct (eth_inv_prune _ _ _ _ R0 Rt Pr) as [R1 Rt1].
    rewrite sget_sset in Hc1. cbn [ckey_eqb] in Hc1. rewrite sget_sset_same in Hc1. inversion Hc1; subst; clear Hc1.
    assert (Rh : fst (eh_height hd) = 0) by congruence.
    split; [exact Rh|]. apply eth_inv_install; try assumption. reflexivity.
  - unfold exec in E. inversion E; subst. exact Inv.
Qed.

Lemma eth_state_ok_empty t : eth_state_ok (empty_state t).
Proof. intros n c H. discriminate. Qed.

Lemma eth_state_ok_run cf os :
  f_toggle_new cf = true -> f_toggle_clear cf = true -> f_cons_type_check cf = true ->
  f_upgrade_tss_nocons cf = true -> f_tm_upgrade_meta cf = true ->
  f_eth_root_check cf = true -> f_eth_rev_check cf = true ->
  Forall op_eth_ok os -> forall st, wf_state st -> eth_state_ok st -> eth_state_ok (run cf st os).
Proof.
  intros F1 F2 F3 F4 F5 F6 F7 Ok. induction Ok as [|o os Ho _ IH]; intros st W Inv; cbn; [exact Inv|].
  apply IH; [apply wf_state_step, W | apply eth_state_ok_step; assumption].
Qed.

(** "A valid update from the authorised account succeeds" in every REACHABLE state, with no hypothesis on the store *)
Lemma valid_update_succeeds_reachable cf os t name c h signer :
  f_toggle_new cf = true -> f_toggle_clear cf = true -> f_cons_type_check cf = true ->
  f_upgrade_tss_nocons cf = true -> f_tm_upgrade_meta cf = true -> f_tss_height cf = true ->
  f_eth_root_check cf = true -> f_eth_rev_check cf = true ->
  Forall op_eth_ok os ->
  let st := run cf (empty_state t) os in
  authorised st name signer ->
  sget KClient (store_of st name) = Some (VClient c) ->
  (forall a r, c = ClTss a r -> a = signer) ->
  status (now st) c (store_of st name) = 0%nat ->
  header_valid_for (now st) c h (store_of st name) ->
  exists st', step cf st (Update name h signer true) = (0%nat, st') /\ updated c h (store_of st' name).
Proof.
  intros F1 F2 F3 F4 F5 F6 F7 F8 Ok st A Hc Hs St V.
  apply valid_update_succeeds; try assumption.
  assert (Cl : clean_state st) by (apply clean_reachable; try assumption; [apply wf_state_empty | apply clean_state_empty]).
  destruct (Cl _ _ Hc) as (Ac & Ti & _). split; [exact Ac|].
  destruct c as [l tr d y r | cur e v tr r | cur b tr r | a r]; try exact I.
  - apply Ti. reflexivity.
  - assert (E : eth_state_ok st) by (apply eth_state_ok_run; try assumption; [apply wf_state_empty | apply eth_state_ok_empty]).
    apply (E _ _ Hc).
Qed.

(** * [valid_name] is the rule of host/validate.go, regenerated on every run (Gen/KeysGen.v) *)
Definition gen_valid_char (b : byte) : bool := existsb (Byte.eqb b) host_IsValidID_class.

Definition gen_valid_name (s : bytes) : bool :=
  (N.to_nat host_DefaultMinClientIDLength <=? length s)%nat && (length s <=? N.to_nat host_DefaultMaxCharacterLength)%nat
  && forallb gen_valid_char s.

Definition all_bytes : list byte := map (fun n => match Byte.of_N (N.of_nat n) with Some b => b | None => x00 end) (seq 0 256).

(** the decidable side condition, evaluated on the regenerated constants *)
Definition name_rule_agrees : bool :=
  forallb (fun b => Bool.eqb (valid_char b) (gen_valid_char b)) all_bytes
  && (host_DefaultMinClientIDLength =? 3) && (host_DefaultMaxCharacterLength =? 64).

Lemma all_bytes_complete b : In b all_bytes.
Proof.
  assert (E : existsb (Byte.eqb b) all_bytes = true) by (destruct b; vm_compute; reflexivity).
  apply existsb_exists in E. destruct E as (x & Hx & Hb). apply Byte.byte_dec_bl in Hb. subst. exact Hx.
Qed.

Lemma valid_name_is_generated_rule : name_rule_agrees = true -> forall s, valid_name s = gen_valid_name s.
Proof.
  unfold name_rule_agrees. intro H. apply andb_true_iff in H. destruct H as [H Hmax].
  apply andb_true_iff in H. destruct H as [Hc Hmin].
  apply N.eqb_eq in Hmin, Hmax. intro s. unfold valid_name, gen_valid_name. rewrite Hmin, Hmax.
  change (N.to_nat 3) with 3%nat. change (N.to_nat 64) with 64%nat.
  f_equal. rewrite forallb_forall in Hc.
  induction s as [|b s IH]; cbn; [reflexivity|]. rewrite IH. f_equal.
  apply Bool.eqb_prop. apply Hc. apply all_bytes_complete.
Qed.
