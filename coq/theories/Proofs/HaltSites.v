(** Site table of C15: every potential panic site inventoried by tools/gotocoq/panicsites
    (Gen/PanicSitesGen.v: functions reachable from the BeginBlockers, the governance proposal handlers, the three
    InitGenesis and the stateless validation) is mapped to the lemma that guards it ([Guard], the lemma is
    referenced as a term, so it must exist and type-check), to a justification ([Benign]: cannot fire for a
    local reason; [Unreachable]) or to a recorded finding ([Finding]).  [uncovered_sites] lists the inventoried
    sites without an entry; Props/C15.v requires it to be empty, so NEW code with a potential panic site is an
    open proof obligation.  Written with the help of tools/py/c15_sitetable.py, reviewed by hand. *)

From Coq Require Import String List NArith Bool.
Import ListNotations.
From Teleport Require Import Gen.PanicSitesGen Proofs.HaltSitesBaseline Proofs.HaltSiteAuto.
From Teleport Require Import Base.Bytes Base.Outcome Model.Rvesting Proofs.Rvesting Model.Halt Model.HaltAgg Proofs.Halt Proofs.HaltAgg.
Local Open Scope string_scope.

Inductive just :=
| Guard (P : Type) (pf : P)
| Benign            (* cannot fire because of what the expression itself is (constant key, decoded message, oracle ...) *)
| BenignLocal       (* cannot fire because of code AROUND it in its function / of who calls the function: does not move *)
| Unreachable
| Finding
| Open.
Arguments Guard {P} pf.

Definition is_open (j : just) : bool := match j with Open => true | _ => false end.

(* (file, function, kind, expression, justification, reason) *)
Definition site_table : list (string * string * string * string * just * string) := [
  ("types/events.go", "EmitTypedEvent", "index", "event.Attributes[i]",
   BenignLocal, "indices supplied by sort.SliceStable");
  ("types/events.go", "EmitTypedEvent", "index", "event.Attributes[j]",
   BenignLocal, "indices supplied by sort.SliceStable");
  ("x/aggregate/genesis.go", "InitGenesis", "panic", "panic(""the aggregate module account has not been set"")",
   Benign, "the aggregate module account is in maccPerms");
  ("x/aggregate/keeper/evm.go", "Keeper.CallEVM", "lib", "abi.Pack(method, args...)",
   Benign, "ORACLE (trusted): go-ethereum abi.Pack on strings / addresses / uint8 and UnpackIntoInterface on contract output, ethermint ApplyMessage, account and bank keepers return a value or an error on these arguments (fields of aenv; the real ones run in the correspondence)");
  ("x/aggregate/keeper/evm.go", "Keeper.CallEVMWithData", "index", "txLogAttrs[i]",
   BenignLocal, "made with len(res.Logs)");
  ("x/aggregate/keeper/evm.go", "Keeper.CallEVMWithData", "lib", "k.accountKeeper.GetSequence(ctx, from.Bytes())",
   Benign, "ORACLE (trusted): go-ethereum abi.Pack on strings / addresses / uint8 and UnpackIntoInterface on contract output, ethermint ApplyMessage, account and bank keepers return a value or an error on these arguments (fields of aenv; the real ones run in the correspondence)");
  ("x/aggregate/keeper/evm.go", "Keeper.CallEVMWithData", "lib", "k.evmKeeper.ApplyMessage(ctx, msg, evmtypes.NewNoOpTracer(), true)",
   Benign, "ORACLE (trusted): go-ethereum abi.Pack on strings / addresses / uint8 and UnpackIntoInterface on contract output, ethermint ApplyMessage, account and bank keepers return a value or an error on these arguments (fields of aenv; the real ones run in the correspondence)");
  ("x/aggregate/keeper/evm.go", "Keeper.QueryERC20", "lib", "erc20.UnpackIntoInterface(&decimalRes, ""decimals"", res.Ret)",
   Benign, "ORACLE (trusted): go-ethereum abi.Pack on strings / addresses / uint8 and UnpackIntoInterface on contract output, ethermint ApplyMessage, account and bank keepers return a value or an error on these arguments (fields of aenv; the real ones run in the correspondence)");
  ("x/aggregate/keeper/evm.go", "Keeper.QueryERC20", "lib", "erc20.UnpackIntoInterface(&nameRes, ""name"", res.Ret)",
   Benign, "ORACLE (trusted): go-ethereum abi.Pack on strings / addresses / uint8 and UnpackIntoInterface on contract output, ethermint ApplyMessage, account and bank keepers return a value or an error on these arguments (fields of aenv; the real ones run in the correspondence)");
  ("x/aggregate/keeper/evm.go", "Keeper.QueryERC20", "lib", "erc20.UnpackIntoInterface(&symbolRes, ""symbol"", res.Ret)",
   Benign, "ORACLE (trusted): go-ethereum abi.Pack on strings / addresses / uint8 and UnpackIntoInterface on contract output, ethermint ApplyMessage, account and bank keepers return a value or an error on these arguments (fields of aenv; the real ones run in the correspondence)");
  ("x/aggregate/keeper/params.go", "Keeper.GetParams", "lib", "k.paramSpace.GetParamSet(ctx, &params)",
   Benign, "both parameters are bools, validateBool accepts every bool (no parameter value can make SetParamSet panic)");
  ("x/aggregate/keeper/params.go", "Keeper.SetParams", "lib", "k.paramSpace.SetParamSet(ctx, &params)",
   Benign, "both parameters are bools, validateBool accepts every bool (no parameter value can make SetParamSet panic)");
  ("x/aggregate/keeper/proposals.go", "Keeper.AddCoin", "lib", "k.evmKeeper.GetParams(ctx)",
   Benign, "ORACLE (trusted): go-ethereum abi.Pack on strings / addresses / uint8 and UnpackIntoInterface on contract output, ethermint ApplyMessage, account and bank keepers return a value or an error on these arguments (fields of aenv; the real ones run in the correspondence)");
  ("x/aggregate/keeper/proposals.go", "Keeper.CreateCoinMetadata", "lib", "k.bankKeeper.SetDenomMetaData(ctx, metadata)",
   Benign, "ORACLE (trusted): go-ethereum abi.Pack on strings / addresses / uint8 and UnpackIntoInterface on contract output, ethermint ApplyMessage, account and bank keepers return a value or an error on these arguments (fields of aenv; the real ones run in the correspondence)");
  ("x/aggregate/keeper/proposals.go", "Keeper.DeployERC20Contract", "index", "coinMetadata.DenomUnits[0]",
   (Guard (@metadata_ok_units)), "Metadata.Validate requires a unit with the display denomination (metadata_ok_units; handle_aprop_safe)");
  ("x/aggregate/keeper/proposals.go", "Keeper.DeployERC20Contract", "index", "data[:len(erc20contracts.ERC20MinterBurnerDecimalsContract.Bin)]",
   BenignLocal, "data was made with len(Bin)+len(ctorArgs)");
  ("x/aggregate/keeper/proposals.go", "Keeper.DeployERC20Contract", "index", "data[len(erc20contracts.ERC20MinterBurnerDecimalsContract.Bin):]",
   BenignLocal, "data was made with len(Bin)+len(ctorArgs)");
  ("x/aggregate/keeper/proposals.go", "Keeper.DeployERC20Contract", "lib", "erc20contracts.ERC20MinterBurnerDecimalsContract.ABI.Pack( """", coinMetadata.Name, coinMetadata.Symbol, decimals, )",
   Benign, "ORACLE (trusted): go-ethereum abi.Pack on strings / addresses / uint8 and UnpackIntoInterface on contract output, ethermint ApplyMessage, account and bank keepers return a value or an error on these arguments (fields of aenv; the real ones run in the correspondence)");
  ("x/aggregate/keeper/proposals.go", "Keeper.DeployERC20Contract", "lib", "k.accountKeeper.GetSequence(ctx, types.ModuleAddress.Bytes())",
   Benign, "ORACLE (trusted): go-ethereum abi.Pack on strings / addresses / uint8 and UnpackIntoInterface on contract output, ethermint ApplyMessage, account and bank keepers return a value or an error on these arguments (fields of aenv; the real ones run in the correspondence)");
  ("x/aggregate/keeper/proposals.go", "Keeper.RegisterCoin", "lib", "k.evmKeeper.GetParams(ctx)",
   Benign, "ORACLE (trusted): go-ethereum abi.Pack on strings / addresses / uint8 and UnpackIntoInterface on contract output, ethermint ApplyMessage, account and bank keepers return a value or an error on these arguments (fields of aenv; the real ones run in the correspondence)");
  ("x/aggregate/keeper/proposals.go", "Keeper.UpdateTokenPairERC20", "index", "pair.Denoms[0]",
   (Guard (@handle_aprop_safe)), "state invariant aenv_wf: every stored pair has a denomination (established by validated genesis: ga_validate_pairs_denoms, preserved by every handler: handle_aprop_safe)");
  ("x/aggregate/keeper/proposals.go", "Keeper.UpdateTokenPairERC20", "lib", "k.bankKeeper.SetDenomMetaData(ctx, metadata)",
   Benign, "ORACLE (trusted): go-ethereum abi.Pack on strings / addresses / uint8 and UnpackIntoInterface on contract output, ethermint ApplyMessage, account and bank keepers return a value or an error on these arguments (fields of aenv; the real ones run in the correspondence)");
  ("x/aggregate/keeper/proposals.go", "Keeper.verifyMetadata", "lib", "k.bankKeeper.SetDenomMetaData(ctx, coinMetadata)",
   Benign, "ORACLE (trusted): go-ethereum abi.Pack on strings / addresses / uint8 and UnpackIntoInterface on contract output, ethermint ApplyMessage, account and bank keepers return a value or an error on these arguments (fields of aenv; the real ones run in the correspondence)");
  ("x/aggregate/keeper/token_pairs.go", "Keeper.GetDenomMap", "lib", "store.Get([]byte(denom))",
   Benign, "prefix store with a one-byte prefix: the full key is never empty");
  ("x/aggregate/keeper/token_pairs.go", "Keeper.GetERC20Map", "lib", "store.Get(erc20.Bytes())",
   Benign, "prefix store with a one-byte prefix: the full key is never empty");
  ("x/aggregate/keeper/token_pairs.go", "Keeper.GetTokenPair", "lib", "store.Get(id)",
   Benign, "prefix store with a one-byte prefix: the full key is never empty");
  ("x/aggregate/keeper/token_pairs.go", "Keeper.GetTokenPair", "must", "k.cdc.MustUnmarshal(bz, &tokenPair)",
   Benign, "token pairs are stored by SetTokenPair only (MustMarshal of a plain message)");
  ("x/aggregate/keeper/token_pairs.go", "Keeper.IsDenomRegistered", "lib", "store.Has([]byte(denom))",
   Benign, "prefix store with a one-byte prefix: the full key is never empty");
  ("x/aggregate/keeper/token_pairs.go", "Keeper.IsERC20Registered", "lib", "store.Has(erc20.Bytes())",
   Benign, "prefix store with a one-byte prefix: the full key is never empty");
  ("x/aggregate/keeper/token_pairs.go", "Keeper.SetDenomMap", "lib", "store.Set([]byte(denom), id)",
   Benign, "key = validated denomination / 20-byte address / 32-byte id (non-empty); value = 32-byte id / marshalled pair (non-empty: the pair has an address and a denomination)");
  ("x/aggregate/keeper/token_pairs.go", "Keeper.SetERC20Map", "lib", "store.Set(erc20.Bytes(), id)",
   Benign, "key = validated denomination / 20-byte address / 32-byte id (non-empty); value = 32-byte id / marshalled pair (non-empty: the pair has an address and a denomination)");
  ("x/aggregate/keeper/token_pairs.go", "Keeper.SetTokenPair", "lib", "store.Set(key, bz)",
   Benign, "key = validated denomination / 20-byte address / 32-byte id (non-empty); value = 32-byte id / marshalled pair (non-empty: the pair has an address and a denomination)");
  ("x/aggregate/keeper/token_pairs.go", "Keeper.SetTokenPair", "must", "k.cdc.MustMarshal(&tokenPair)",
   Benign, "token pairs are stored by SetTokenPair only (MustMarshal of a plain message)");
  ("x/aggregate/keeper/token_pairs.go", "Keeper.deleteDenomMap", "lib", "store.Delete([]byte(denom))",
   Benign, "prefix store with a one-byte prefix: the full key is never empty");
  ("x/aggregate/keeper/token_pairs.go", "Keeper.deleteERC20Map", "lib", "store.Delete(erc20.Bytes())",
   Benign, "prefix store with a one-byte prefix: the full key is never empty");
  ("x/aggregate/keeper/token_pairs.go", "Keeper.deleteTokenPair", "lib", "store.Delete(id)",
   Benign, "prefix store with a one-byte prefix: the full key is never empty");
  ("x/aggregate/keeper/token_trace.go", "Keeper.AddERC20TraceToTransferContract", "lib", "endpointcontract.EndpointContract.ABI.Pack(""bindToken"", contract, originToken, originChain, scale)",
   Benign, "ORACLE (trusted): go-ethereum abi.Pack on strings / addresses / uint8 and UnpackIntoInterface on contract output, ethermint ApplyMessage, account and bank keepers return a value or an error on these arguments (fields of aenv; the real ones run in the correspondence)");
  ("x/aggregate/keeper/token_trace.go", "Keeper.DisableTimeBasedSupplyLimitInTransferContract", "lib", "endpointcontract.EndpointContract.ABI.Pack(""disableTimeBasedSupplyLimit"", erc20Address)",
   Benign, "ORACLE (trusted): go-ethereum abi.Pack on strings / addresses / uint8 and UnpackIntoInterface on contract output, ethermint ApplyMessage, account and bank keepers return a value or an error on these arguments (fields of aenv; the real ones run in the correspondence)");
  ("x/aggregate/keeper/token_trace.go", "Keeper.EnableTimeBasedSupplyLimitInTransferContract", "lib", "endpointcontract.EndpointContract.ABI.Pack( ""enableTimeBasedSupplyLimit"", erc20Address, timePeriod, timeBasedLimit, maxAmount, minAmount, )",
   (Guard (@limits_ok_parse)), "abi.Pack dereferences the *big.Int arguments: ValidateBasic parsed the same four strings successfully (limits_ok_parse)");
  ("x/aggregate/types/proposal.go", "validateIBC", "index", "denomSplit[0]",
   BenignLocal, "strings.SplitN returns at least one element");
  ("x/aggregate/types/token_pair.go", "TokenPair.GetID", "index", "tp.Denoms[0]",
   (Guard (@handle_aprop_safe, @ga_init_safe)), "pairs built by the handlers have >= 1 denomination, stored pairs by aenv_wf (aggregate_history_safe), genesis pairs by ga_init_safe: REGENERATED per-pair guard of GenesisState.Validate, obligation aggregate_pair_guards_denoms");
  ("x/aggregate/types/utils.go", "EqualMetadata", "index", "b.DenomUnits[i]",
   BenignLocal, "lengths compared equal just above");
  ("x/rvesting/keeper/genesis.go", "Keeper.InitGenesis", "lib", "k.bankKeeper.SendCoinsFromAccountToModule(ctx, from, types.ModuleName, genesisState.InitReward)",
   Finding, "panic(err) #1 (bech32) is excluded by ValidateGenesis (gr_init_safe); panic(err) #2 fires when `from` does not hold init_reward: finding rvesting-genesis-unfunded-from (hypothesis covers of gr_init_safe; necessity: C15_rvesting_genesis_unfunded_refuted)");
  ("x/rvesting/keeper/genesis.go", "Keeper.InitGenesis", "panic", "panic(err)",
   Finding, "panic(err) #1 (bech32) is excluded by ValidateGenesis (gr_init_safe); panic(err) #2 fires when `from` does not hold init_reward: finding rvesting-genesis-unfunded-from (hypothesis covers of gr_init_safe; necessity: C15_rvesting_genesis_unfunded_refuted)");
  ("x/rvesting/keeper/keeper.go", "Keeper.GetRemainingCoin", "lib", "k.accountKeeper.GetModuleAddress(types.ModuleName)",
   (Guard (@begin_block_validated_no_panic)), "GetBalance -> NewCoin panics on an invalid denomination (modelled in choose); SendCoinsFromModuleToModule returns an error; the module accounts are registered");
  ("x/rvesting/keeper/keeper.go", "Keeper.GetRemainingCoin", "lib", "k.bankKeeper.GetBalance(ctx, rvestingAddr, denom)",
   (Guard (@begin_block_validated_no_panic)), "GetBalance -> NewCoin panics on an invalid denomination (modelled in choose); SendCoinsFromModuleToModule returns an error; the module accounts are registered");
  ("x/rvesting/keeper/keeper.go", "Keeper.SendVestedCoins", "lib", "k.bankKeeper.SendCoinsFromModuleToModule(ctx, types.ModuleName, k.feeCollectorName, vestedCoins)",
   (Guard (@begin_block_validated_no_panic)), "GetBalance -> NewCoin panics on an invalid denomination (modelled in choose); SendCoinsFromModuleToModule returns an error; the module accounts are registered");
  ("x/rvesting/keeper/params.go", "Keeper.GetParams", "lib", "k.paramSubspace.GetParamSet(ctx, &params)",
   (Guard (@gr_init_safe)), "SetParamSet panics when a validator rejects the value: InitGenesis runs after ValidateGenesis (gr_validate); GetParamSet reads what SetParamSet / Subspace.Update stored");
  ("x/rvesting/keeper/params.go", "Keeper.SetParams", "lib", "k.paramSubspace.SetParamSet(ctx, &params)",
   (Guard (@gr_init_safe)), "SetParamSet panics when a validator rejects the value: InitGenesis runs after ValidateGenesis (gr_validate); GetParamSet reads what SetParamSet / Subspace.Update stored");
  ("x/rvesting/module/abci.go", "BeginBlocker", "lib", "remainingCoin.Amount.LT(reward.Amount)",
   (Guard (@begin_block_validated_no_panic)), "modelled in Model/Rvesting.v (begin_block); validated parameters never reach a panic (C20 lemmas begin_block_enabled / _disabled)");
  ("x/rvesting/module/abci.go", "BeginBlocker", "lib", "sdk.NewCoins()",
   (Guard (@begin_block_validated_no_panic)), "modelled in Model/Rvesting.v (begin_block); validated parameters never reach a panic (C20 lemmas begin_block_enabled / _disabled)");
  ("x/rvesting/module/abci.go", "BeginBlocker", "lib", "vestedCoins.Add(remainingCoin)",
   (Guard (@begin_block_validated_no_panic)), "modelled in Model/Rvesting.v (begin_block); validated parameters never reach a panic (C20 lemmas begin_block_enabled / _disabled)");
  ("x/rvesting/module/abci.go", "BeginBlocker", "lib", "vestedCoins.Add(reward)",
   (Guard (@begin_block_validated_no_panic)), "modelled in Model/Rvesting.v (begin_block); validated parameters never reach a panic (C20 lemmas begin_block_enabled / _disabled)");
  ("x/rvesting/module/abci.go", "BeginBlocker", "panic", "panic(err)",
   (Guard (@begin_block_validated_no_panic)), "modelled in Model/Rvesting.v (begin_block); validated parameters never reach a panic (C20 lemmas begin_block_enabled / _disabled)");
  ("x/xibc/clients/light-clients/bsc/types/bsc.go", "BlockNonce.SetBytes", "index", "b[nonceByteLength-len(d):]",
   (Guard (@validate_bsc_facts)), "reached through ToBscHeader only; Header.ValidateBasic rejects len(Bloom) > 256 and len(Nonce) > 8 before converting (validate_bsc_facts); Initialize / UpgradeState do not convert the header");
  ("x/xibc/clients/light-clients/bsc/types/bsc.go", "BlockNonce.SetBytes", "panic", "panic(fmt.Sprintf(""bloom bytes too big %d %d"", len(b), len(d)))",
   (Guard (@validate_bsc_facts)), "reached through ToBscHeader only; Header.ValidateBasic rejects len(Bloom) > 256 and len(Nonce) > 8 before converting (validate_bsc_facts); Initialize / UpgradeState do not convert the header");
  ("x/xibc/clients/light-clients/bsc/types/bsc.go", "Bloom.SetBytes", "index", "b[bloomByteLength-len(d):]",
   (Guard (@validate_bsc_facts)), "reached through ToBscHeader only; Header.ValidateBasic rejects len(Bloom) > 256 and len(Nonce) > 8 before converting (validate_bsc_facts); Initialize / UpgradeState do not convert the header");
  ("x/xibc/clients/light-clients/bsc/types/bsc.go", "Bloom.SetBytes", "panic", "panic(fmt.Sprintf(""bloom bytes too big %d %d"", len(b), len(d)))",
   (Guard (@validate_bsc_facts)), "reached through ToBscHeader only; Header.ValidateBasic rejects len(Bloom) > 256 and len(Nonce) > 8 before converting (validate_bsc_facts); Initialize / UpgradeState do not convert the header");
  ("x/xibc/clients/light-clients/bsc/types/bsc.go", "ParseValidators", "index", "extra[extraVanity : len(extra)-extraSeal]",
   (Guard (@parse_validators_safe)), "Header.ValidateBasic requires len(Extra) >= extraVanity+extraSeal: REGENERATED guards and constants, obligation bsc_guards_extra (validate_bsc_facts)");
  ("x/xibc/clients/light-clients/bsc/types/bsc.go", "ParseValidators", "index", "result[i]",
   BenignLocal, "i < n = len(validatorBytes)/20 and len(validatorBytes) is a multiple of 20 (checked just above)");
  ("x/xibc/clients/light-clients/bsc/types/bsc.go", "ParseValidators", "index", "validatorBytes[i*addressLength : (i+1)*addressLength]",
   BenignLocal, "i < n = len(validatorBytes)/20 and len(validatorBytes) is a multiple of 20 (checked just above)");
  ("x/xibc/clients/light-clients/bsc/types/client_state.go", "ClientState.Initialize", "div", "m.Header.Height.RevisionHeight % m.Epoch",
   (Guard (@validate_bsc_facts)), "Validate rejects Epoch = 0: REGENERATED guard of ClientState.Validate, obligation bsc_guards_epoch (lemma validate_bsc_facts; used by bsc_initialize_safe / bsc_upgrade_safe)");
  ("x/xibc/clients/light-clients/bsc/types/client_state.go", "ClientState.UpgradeState", "div", "m.Header.Height.RevisionHeight % m.Epoch",
   (Guard (@validate_bsc_facts)), "Validate rejects Epoch = 0: REGENERATED guard of ClientState.Validate, obligation bsc_guards_epoch (lemma validate_bsc_facts; used by bsc_initialize_safe / bsc_upgrade_safe)");
  ("x/xibc/clients/light-clients/bsc/types/header.go", "ecrecover", "index", "crypto.Keccak256(pubkey[1:])[12:]",
   BenignLocal, "crypto.Ecrecover returns a 65-byte public key when err == nil; Keccak256 returns 32 bytes");
  ("x/xibc/clients/light-clients/bsc/types/header.go", "ecrecover", "index", "header.Extra[len(header.Extra)-extraSeal:]",
   (Guard (@bsc_recover_safe)), "guarded by ecrecover's own length test: REGENERATED guard or the validated length extraVanity+extraSeal, obligation bsc_guards_ecrecover (model bsc_recover: Panic below max(extraSeal, 65) unless the guard returned Err)");
  ("x/xibc/clients/light-clients/bsc/types/header.go", "ecrecover", "index", "pubkey[1:]",
   BenignLocal, "crypto.Ecrecover returns a 65-byte public key when err == nil; Keccak256 returns 32 bytes");
  ("x/xibc/clients/light-clients/bsc/types/header.go", "encodeSigHeader", "index", "header.Extra[:len(header.Extra)-65]",
   (Guard (@bsc_recover_safe)), "only called from ecrecover after its length test: REGENERATED guard or the validated length extraVanity+extraSeal, obligation bsc_guards_ecrecover (model bsc_recover: Panic below max(extraSeal, 65) unless the guard returned Err)");
  ("x/xibc/clients/light-clients/bsc/types/header.go", "encodeSigHeader", "lib", "rlp.Encode(w, []interface{}{ chainId, header.ParentHash, header.UncleHash, header.Coinbase, header.Root, header.TxHash, header.ReceiptHash, header.Bloom, header...",
   (Guard (@bsc_recover_safe)), "rlp.Encode fails only on a negative big.Int; the chain id is built with SetUint64 (non-negative), all other items are byte slices / uint64 (model: bsc_recover false never panics; the pinned behaviour is bsc_recover true, refuted)");
  ("x/xibc/clients/light-clients/bsc/types/header.go", "encodeSigHeader", "panic", "panic(""can't encode: "" + err.Error())",
   (Guard (@bsc_recover_safe)), "rlp.Encode fails only on a negative big.Int; the chain id is built with SetUint64 (non-negative), all other items are byte slices / uint64 (model: bsc_recover false never panics; the pinned behaviour is bsc_recover true, refuted)");
  ("x/xibc/clients/light-clients/bsc/types/header.go", "sealHash", "index", "hash[:0]",
   Benign, "zero-length prefix of a 32-byte array");
  ("x/xibc/clients/light-clients/bsc/types/store.go", "DeleteSigner", "lib", "store.Delete(keyBz)",
   Benign, "non-empty key built from a constant prefix");
  ("x/xibc/clients/light-clients/bsc/types/store.go", "GetConsensusState", "lib", "store.Get(host.ConsensusStateKey(height))",
   Benign, "non-empty key built from a constant prefix");
  ("x/xibc/clients/light-clients/bsc/types/store.go", "GetHeightFromIterationKey", "index", "bigEndianBytes[0:8]",
   BenignLocal, "only called by IterateConsensusStateAscending on keys accepted by host.ParseConsensusStateKey (exact length prefix+16)");
  ("x/xibc/clients/light-clients/bsc/types/store.go", "GetHeightFromIterationKey", "index", "bigEndianBytes[8:]",
   BenignLocal, "only called by IterateConsensusStateAscending on keys accepted by host.ParseConsensusStateKey (exact length prefix+16)");
  ("x/xibc/clients/light-clients/bsc/types/store.go", "GetHeightFromIterationKey", "index", "iterKey[len([]byte(host.KeyConsensusStatePrefix+""/"")):]",
   BenignLocal, "only called by IterateConsensusStateAscending on keys accepted by host.ParseConsensusStateKey (exact length prefix+16)");
  ("x/xibc/clients/light-clients/bsc/types/store.go", "GetHeightFromIterationKey", "lib", "sdk.BigEndianToUint64(heightBytes)",
   BenignLocal, "only called by IterateConsensusStateAscending on keys accepted by host.ParseConsensusStateKey (exact length prefix+16)");
  ("x/xibc/clients/light-clients/bsc/types/store.go", "GetHeightFromIterationKey", "lib", "sdk.BigEndianToUint64(revisionBytes)",
   BenignLocal, "only called by IterateConsensusStateAscending on keys accepted by host.ParseConsensusStateKey (exact length prefix+16)");
  ("x/xibc/clients/light-clients/bsc/types/store.go", "SetPendingValidators", "lib", "store.Delete([]byte(PrefixPendingValidators))",
   Benign, "constant non-empty key; the value is written only when non-empty");
  ("x/xibc/clients/light-clients/bsc/types/store.go", "SetPendingValidators", "lib", "store.Set([]byte(PrefixPendingValidators), bz)",
   Benign, "constant non-empty key; the value is written only when non-empty");
  ("x/xibc/clients/light-clients/bsc/types/store.go", "SetPendingValidators", "must", "cdc.MustMarshal(&validatorSet)",
   Benign, "marshalling a ValidatorSet of byte slices cannot fail");
  ("x/xibc/clients/light-clients/bsc/types/store.go", "SetSigner", "lib", "store.Set(keyRecentSinger(signer), signer.Validator)",
   Benign, "non-empty key ""recentSingers/.."", value = signer.Bytes() (20 bytes)");
  ("x/xibc/clients/light-clients/bsc/types/store.go", "deleteConsensusState", "lib", "clientStore.Delete(key)",
   Benign, "non-empty key built from a constant prefix");
  ("x/xibc/clients/light-clients/eth/types/hashing.go", "rlpHash", "assert", "hasherPool.Get().(crypto.KeccakState)",
   Benign, "the pool only ever holds values made by its New function (KeccakState)");
  ("x/xibc/clients/light-clients/eth/types/hashing.go", "rlpHash", "lib", "rlp.Encode(sha, x)",
   Benign, "the error is discarded, rlp.Encode does not panic on an EthHeader");
  ("x/xibc/clients/light-clients/eth/types/header.go", "Header.ToEthHeader", "lib", "types.BytesToBloom(h.Bloom)",
   (Guard (@validate_eth_facts, @eth_check_root_safe, @eth_initialize_nopanic)), "ClientState.Validate (through Header.ValidateBasic) rejects len(Bloom) > 256: REGENERATED guard, obligation eth_guards_bloom (validate_eth_facts); reached from Initialize / UpgradeState twice since aa5560b: checkConsensusRoot (eth_check_root_safe) and SetEthHeaderIndex / SetEthConsensusRoot (eth_initialize_nopanic)");
  ("x/xibc/clients/light-clients/eth/types/store.go", "SetEthConsensusRoot", "lib", "clientStore.Set(EthRootMainKey(root, height), EthHeaderIndexKey(headerHash, height))",
   Benign, "non-empty formatted key; value = marshalled header / formatted key (non-empty)");
  ("x/xibc/clients/light-clients/eth/types/store.go", "SetEthHeaderIndex", "lib", "clientStore.Set(EthHeaderIndexKey(header.Hash(), header.Height.RevisionHeight), headerBytes)",
   Benign, "non-empty formatted key; value = marshalled header / formatted key (non-empty)");
  ("x/xibc/clients/light-clients/tendermint/types/store.go", "SetIterationKey", "lib", "clientStore.Set(key, val)",
   BenignLocal, "fixed 16-byte buffer; non-empty keys with constant prefixes, 8-byte / key values");
  ("x/xibc/clients/light-clients/tendermint/types/store.go", "SetProcessedTime", "lib", "clientStore.Set(key, val)",
   BenignLocal, "fixed 16-byte buffer; non-empty keys with constant prefixes, 8-byte / key values");
  ("x/xibc/clients/light-clients/tendermint/types/store.go", "bigEndianHeightBytes", "index", "heightBytes[8:]",
   BenignLocal, "fixed 16-byte buffer; non-empty keys with constant prefixes, 8-byte / key values");
  ("x/xibc/clients/light-clients/tendermint/types/store.go", "bigEndianHeightBytes", "lib", "binary.BigEndian.PutUint64(heightBytes, height.GetRevisionNumber())",
   BenignLocal, "fixed 16-byte buffer; non-empty keys with constant prefixes, 8-byte / key values");
  ("x/xibc/clients/light-clients/tendermint/types/store.go", "bigEndianHeightBytes", "lib", "binary.BigEndian.PutUint64(heightBytes[8:], height.GetRevisionHeight())",
   BenignLocal, "fixed 16-byte buffer; non-empty keys with constant prefixes, 8-byte / key values");
  ("x/xibc/core/client/genesis.go", "InitGenesis", "lib", "client.ClientState.GetCachedValue()",
   (Guard (@gx_init_safe)), "GenesisState.Validate has type-asserted the cached values of every listed client / consensus state (gx_validate_clients_vals)");
  ("x/xibc/core/client/genesis.go", "InitGenesis", "lib", "consState.ConsensusState.GetCachedValue()",
   (Guard (@gx_init_safe)), "GenesisState.Validate has type-asserted the cached values of every listed client / consensus state (gx_validate_clients_vals)");
  ("x/xibc/core/client/genesis.go", "InitGenesis", "panic", "panic(""invalid client state"")",
   (Guard (@gx_init_safe)), "GenesisState.Validate has type-asserted the cached values of every listed client / consensus state (gx_validate_clients_vals)");
  ("x/xibc/core/client/genesis.go", "InitGenesis", "panic", "panic(fmt.Sprintf(""invalid consensus state with chain name %s at height %s"", cs.ChainName, consState.Height))",
   (Guard (@gx_init_safe)), "GenesisState.Validate has type-asserted the cached values of every listed client / consensus state (gx_validate_clients_vals)");
  ("x/xibc/core/client/keeper/client.go", "Keeper.CreateClient", "nilrecv", "clientState.GetLatestHeight().String()",
   Benign, "GetLatestHeight of all four client types returns a clienttypes.Height VALUE boxed in the interface (never nil)");
  ("x/xibc/core/client/keeper/client.go", "Keeper.ToggleClient", "nilrecv", "newClientState.GetLatestHeight().String()",
   Benign, "GetLatestHeight of all four client types returns a clienttypes.Height VALUE boxed in the interface (never nil)");
  ("x/xibc/core/client/keeper/client.go", "Keeper.UpgradeClient", "nilrecv", "newClientState.GetLatestHeight().String()",
   Benign, "GetLatestHeight of all four client types returns a clienttypes.Height VALUE boxed in the interface (never nil)");
  ("x/xibc/core/client/keeper/encoding.go", "Keeper.MustMarshalClientState", "must", "types.MustMarshalClientState(k.cdc, clientState)",
   Benign, "the value is a decoded proto message of a registered implementation (it was unpacked from an Any of that type)");
  ("x/xibc/core/client/keeper/encoding.go", "Keeper.MustMarshalConsensusState", "must", "types.MustMarshalConsensusState(k.cdc, consensusState)",
   Benign, "the value is a decoded proto message of a registered implementation (it was unpacked from an Any of that type)");
  ("x/xibc/core/client/keeper/encoding.go", "Keeper.MustUnmarshalClientState", "must", "types.MustUnmarshalClientState(k.cdc, bz)",
   Benign, "the bytes under ""clientState"" are only written by SetClientState (genesis metadata of a listed client is overwritten by it)");
  ("x/xibc/core/client/keeper/keeper.go", "Keeper.GetClientState", "lib", "store.Get(host.ClientStateKey())",
   Benign, "constant / prefixed non-empty key, non-nil value (marshalled message or []byte(string))");
  ("x/xibc/core/client/keeper/keeper.go", "Keeper.GetClientState", "must", "k.MustUnmarshalClientState(bz)",
   Benign, "see MustUnmarshalClientState");
  ("x/xibc/core/client/keeper/keeper.go", "Keeper.GetChainName", "lib", "store.Get([]byte(types.KeyClientName))",
   Benign, "constant non-empty key (""chainName""); an unset name reads as the empty string, which no validated chain name equals (Props: unset_chain_name_never_matches)");
  ("x/xibc/core/client/keeper/keeper.go", "Keeper.SetAllClientMetadata", "lib", "store.Set(md.GetKey(), md.GetValue())",
   (Guard (@gx_init_safe)), "GenesisMetadata.Validate rejects empty keys and values: REGENERATED guards, obligation metadata_guards_key (gx_validate => gx_init never reaches the panic)");
  ("x/xibc/core/client/keeper/keeper.go", "Keeper.SetChainName", "lib", "store.Set([]byte(types.KeyClientName), []byte(chainName))",
   Benign, "constant / prefixed non-empty key, non-nil value (marshalled message or []byte(string))");
  ("x/xibc/core/client/keeper/keeper.go", "Keeper.SetClientConsensusState", "lib", "store.Set(host.ConsensusStateKey(height), k.MustMarshalConsensusState(consensusState))",
   Benign, "constant / prefixed non-empty key, non-nil value (marshalled message or []byte(string))");
  ("x/xibc/core/client/keeper/keeper.go", "Keeper.SetClientConsensusState", "must", "k.MustMarshalConsensusState(consensusState)",
   Benign, "see MustMarshal*");
  ("x/xibc/core/client/keeper/keeper.go", "Keeper.SetClientState", "lib", "store.Set(host.ClientStateKey(), k.MustMarshalClientState(clientState))",
   Benign, "constant / prefixed non-empty key, non-nil value (marshalled message or []byte(string))");
  ("x/xibc/core/client/keeper/keeper.go", "Keeper.SetClientState", "must", "k.MustMarshalClientState(clientState)",
   Benign, "see MustMarshal*");
  ("x/xibc/core/client/keeper/keeper.go", "Keeper.clearClientStore", "lib", "store.Delete(key)",
   Benign, "constant / prefixed non-empty key, non-nil value (marshalled message or []byte(string))");
  ("x/xibc/core/client/keeper/relayer.go", "Keeper.RegisterRelayers", "lib", "store.Set([]byte(address), irBz)",
   (Guard (@relayer_validate_facts, @gx_init_safe)), "the address is the store key (modelled: Panic on an empty address, handle_xprop_gen / gx_init): proposals (ValidateBasic) and, since d9df21a, the genesis validation (IdentifiedRelayer.Validate, model relayer_ok) parse it with sdk.AccAddressFromBech32, which refuses blank strings (relayer_validate_facts; gx_init_safe with relayer_check = true; the pinned behaviour is refuted in C15_xibc_genesis_relayer_refuted)");
  ("x/xibc/core/client/keeper/relayer.go", "Keeper.RegisterRelayers", "must", "k.cdc.MustMarshal(ir)",
   Benign, "marshalling strings cannot fail");
  ("x/xibc/core/client/proposal_handler.go", "handleCreateClientProposal", "nilrecv", "clientState.GetLatestHeight().String()",
   Benign, "GetLatestHeight of all four client types returns a clienttypes.Height VALUE boxed in the interface (never nil)");
  ("x/xibc/core/client/proposal_handler.go", "handleToggleClientProposal", "nilrecv", "clientState.GetLatestHeight().String()",
   Benign, "GetLatestHeight of all four client types returns a clienttypes.Height VALUE boxed in the interface (never nil)");
  ("x/xibc/core/client/proposal_handler.go", "handleUpgradeClientProposal", "nilrecv", "upgradedClientState.GetLatestHeight().String()",
   Benign, "GetLatestHeight of all four client types returns a clienttypes.Height VALUE boxed in the interface (never nil)");
  ("x/xibc/core/client/types/codec.go", "UnpackClientState", "lib", "any.GetCachedValue()",
   BenignLocal, "guarded by the any == nil test at function entry");
  ("x/xibc/core/client/types/codec.go", "UnpackConsensusState", "lib", "any.GetCachedValue()",
   BenignLocal, "guarded by the any == nil test at function entry");
  ("x/xibc/core/client/types/encoding.go", "MustMarshalClientState", "panic", "panic(fmt.Errorf(""failed to encode client state: %w"", err))",
   Benign, "the value is a decoded proto message of a registered implementation (it was unpacked from an Any of that type)");
  ("x/xibc/core/client/types/encoding.go", "MustMarshalConsensusState", "panic", "panic(fmt.Errorf(""failed to encode consensus state: %w"", err))",
   Benign, "the value is a decoded proto message of a registered implementation (it was unpacked from an Any of that type)");
  ("x/xibc/core/client/types/encoding.go", "MustUnmarshalClientState", "panic", "panic(fmt.Errorf(""failed to decode client state: %w"", err))",
   Benign, "the bytes under ""clientState"" are only written by SetClientState (genesis metadata of a listed client is overwritten by it)");
  ("x/xibc/core/client/types/genesis.go", "GenesisState.Validate", "lib", "client.ClientState.GetCachedValue()",
   Benign, "a nil Any panics INSIDE the validation (modelled: gx_validate = Panic), i.e. such a genesis never counts as validated");
  ("x/xibc/core/client/types/genesis.go", "GenesisState.Validate", "lib", "consensusState.ConsensusState.GetCachedValue()",
   Benign, "a nil Any panics INSIDE the validation (modelled: gx_validate = Panic), i.e. such a genesis never counts as validated");
  ("x/xibc/core/client/types/height.go", "ParseChainID", "index", "splitStr[len(splitStr)-1]",
   BenignLocal, "argument = the local chain id (ctx.ChainID()); the regexp guarantees a non-empty digit suffix; overflow of the revision number of the LOCAL chain id is a configuration assumption listed in the evidence");
  ("x/xibc/core/client/types/height.go", "ParseChainID", "panic", "panic(fmt.Sprintf(""regex allowed non-number value as last split element for chainID: %s"", chainID))",
   BenignLocal, "argument = the local chain id (ctx.ChainID()); the regexp guarantees a non-empty digit suffix; overflow of the revision number of the LOCAL chain id is a configuration assumption listed in the evidence");
  ("x/xibc/core/host/parse.go", "ParseConsensusStateKey", "index", "heightBytes[8:]",
   BenignLocal, "guarded by len(key) == len(prefix)+16");
  ("x/xibc/core/host/parse.go", "ParseConsensusStateKey", "index", "heightBytes[:8]",
   BenignLocal, "guarded by len(key) == len(prefix)+16");
  ("x/xibc/core/host/parse.go", "ParseConsensusStateKey", "index", "key[len(prefix):]",
   BenignLocal, "guarded by len(key) == len(prefix)+16");
  ("x/xibc/core/host/parse.go", "ParseConsensusStateKey", "lib", "binary.BigEndian.Uint64(heightBytes[8:])",
   BenignLocal, "guarded by len(key) == len(prefix)+16");
  ("x/xibc/core/host/parse.go", "ParseConsensusStateKey", "lib", "binary.BigEndian.Uint64(heightBytes[:8])",
   BenignLocal, "guarded by len(key) == len(prefix)+16");
  ("x/xibc/core/packet/genesis.go", "InitGenesis", "panic", "panic(""the xibc packet module account has not been set"")",
   Benign, "the module account is in the application maccPerms (GetModuleAccount creates it)");
  ("x/xibc/core/packet/keeper/keeper.go", "Keeper.GetModuleAccount", "lib", "k.accountKeeper.GetModuleAccount(ctx, types.SubModuleName)",
   Benign, "xibc packet sub-module name is registered in maccPerms");
  ("x/xibc/core/packet/keeper/keeper.go", "Keeper.SetNextSequenceSend", "lib", "store.Set(host.NextSequenceSendKey(srcChain, dstChain), bz)",
   Benign, "formatted non-empty key, constant / 8-byte value");
  ("x/xibc/core/packet/keeper/keeper.go", "Keeper.SetPacketAcknowledgement", "lib", "store.Set(host.PacketAcknowledgementKey(srcChain, dstChain, sequence), ackHash)",
   (Guard (@gx_init_safe)), "packet GenesisState.Validate rejects empty data: REGENERATED per-element guards, obligations packet_ack_guards_data / packet_commitment_guards_data (model gx_init: Panic on an empty value; gx_init_safe)");
  ("x/xibc/core/packet/keeper/keeper.go", "Keeper.SetPacketCommitment", "lib", "store.Set(host.PacketCommitmentKey(srcChain, dstChain, sequence), commitmentHash)",
   (Guard (@gx_init_safe)), "packet GenesisState.Validate rejects empty data: REGENERATED per-element guards, obligations packet_ack_guards_data / packet_commitment_guards_data (model gx_init: Panic on an empty value; gx_init_safe)");
  ("x/xibc/core/packet/keeper/keeper.go", "Keeper.SetPacketReceipt", "lib", "store.Set(host.PacketReceiptKey(srcChain, dstChain, sequence), []byte{byte(1)})",
   Benign, "formatted non-empty key, constant / 8-byte value")
].

Definition site_key_eqb (a : string * string * string * string) (b : string * string * string * string) : bool :=
  let '(a1, a2, a3, a4) := a in let '(b1, b2, b3, b4) := b in
  String.eqb a1 b1 && String.eqb a2 b2 && String.eqb a3 b3 && String.eqb a4 b4.

(** ** When is an inventoried site justified?

    1. [row_covers]: a row for exactly this (file, function, kind, expression) - as before.
    2. [auto_covers]: an index / slice site all of whose occurrences need [len(X) >= n] and sit under control flow that
       establishes it (Proofs/HaltSiteAuto.v, [auto_ok_sound]; the facts are read off the source by the translator);
       need 0 = X[i] under `for i := range X`, or Coin.IsNegative() under a dominating `X.Amount.IsNil()` = false
       (the only library precondition the translator knows how to see).
    3. [moved_covers]: the site is a RENAMED or MOVED copy of a site of the baseline (Proofs/HaltSitesBaseline.v = the
       inventory the rows were written against): same package, kind and NORMALISED expression, and the baseline site
       has a row whose justification travels with the expression ([Guard]: a lemma about the validated value / the
       state, [Finding], [Benign]; not [BenignLocal]).  Either it is still in the same function (same package), or
       it sits in a function that is NOT in the baseline and whose callers - followed upwards through such new
       functions only (roots and functions without reachable callers do not qualify) - all end in baseline functions
       from each of which such a site was reachable in the baseline call graph ("moved into a helper of the code
       that contained it").  The inventory only ever concerns code reachable from the roots, so whether the helper
       is exported does not matter.  NOT checked: that the helper is applied to the same values (the receiver /
       arguments of the call) - that is left to the correspondence run, which executes the refactored code on the
       corpus, the directed tour and the generated cases.  Anything else is an open obligation. *)
Definition key4 := (string * string * string * string)%type.

Definition row_just (k : key4) : option just :=
  match find (fun r => let '(f, fn, kd, e, _, _) := r in site_key_eqb k (f, fn, kd, e)) site_table with
  | Some (_, _, _, _, j, _) => Some j
  | None => None
  end.

Definition row_covers (k : key4) : bool := match row_just k with Some j => negb (is_open j) | None => false end.

Definition travels (j : just) : bool := match j with Guard _ | Finding | Benign => true | _ => false end.

Definition auto_covers (k : key4) (count : N) : bool :=
  let '(_, _, kd, _) := k in
  (String.eqb kd "index" || String.eqb kd "lib") &&
  match find (fun r => let '(f, fn, kd', e, _) := r in site_key_eqb k (f, fn, kd', e)) site_auto with
  | Some (_, _, _, _, occ) => N.eqb (N.of_nat (List.length occ)) count && forallb auto_ok occ
  | None => false
  end.

Definition fn_eqb (a b : string * string) : bool := String.eqb (fst a) (fst b) && String.eqb (snd a) (snd b).
Definition in_baseline (f : string * string) : bool := existsb (fn_eqb f) baseline_functions.

(** the part of "Recv.name" after the last dot starts with a lower-case letter *)
Fixpoint last_segment (s acc : string) : string :=
  match s with
  | EmptyString => acc
  | String c t => if Ascii.eqb c "."%char then last_segment t EmptyString else last_segment t (String.append acc (String c EmptyString))
  end.
Definition unexported (fn : string) : bool :=
  match last_segment fn EmptyString with
  | String c _ => let n := Ascii.N_of_ascii c in (97 <=? n)%N && (n <=? 122)%N
  | EmptyString => false
  end.

Definition callers_of (f : string * string) : list (string * string) :=
  match find (fun r => let '(fl, fn, _) := r in fn_eqb f (fl, fn)) function_callers with
  | Some (_, _, cs) => cs
  | None => []
  end.

(** nearest baseline functions above [f]; [None] when some way up leaves the new unexported helpers otherwise *)
Fixpoint ancestors (fuel : nat) (f : string * string) : option (list (string * string)) :=
  match fuel with
  | O => None
  | S fuel' =>
      match callers_of f with
      | [] => None
      | cs =>
          fold_left (fun acc c =>
                       match acc with
                       | None => None
                       | Some l =>
                           if in_baseline c then Some (c :: l)
                           else match ancestors fuel' c with Some l' => Some (List.app l' l) | None => None end
                       end) cs (Some [])
      end
  end.

Definition norm_of (k : key4) : option (string * string) :=
  match find (fun r => let '(f, fn, kd, e, _) := r in site_key_eqb k (f, fn, kd, e)) site_norm with
  | Some (_, _, _, _, pn) => Some pn
  | None => None
  end.

Definition baseline_callers_of (f : string * string) : list (string * string) :=
  match find (fun r => let '(fl, fn, _) := r in fn_eqb f (fl, fn)) baseline_callers with
  | Some (_, _, cs) => cs
  | None => []
  end.

(** in the BASELINE call graph, [g] is [h] or one of the functions from which [h] was reachable *)
Fixpoint reached_from (fuel : nat) (g h : string * string) : bool :=
  fn_eqb g h ||
  match fuel with
  | O => false
  | S fuel' => existsb (reached_from fuel' g) (baseline_callers_of h)
  end.

(** a baseline site with this kind / normalised expression whose row travels, in [g] itself ([same_pkg]: and in the
    same package) or in a function that was reachable from [g] *)
Definition baseline_match (local : bool) (g : string * string) (kd pkg nrm : string) : bool :=
  existsb (fun b => let '(f, fn, kd', e, (pkg', nrm')) := b in
             String.eqb kd kd' && String.eqb nrm nrm'
             && (if local then fn_eqb g (f, fn) && String.eqb pkg pkg' else reached_from 8 g (f, fn))
             && match row_just (f, fn, kd', e) with Some j => travels j | None => false end) baseline_sites.

Definition moved_covers (k : key4) : bool :=
  let '(f, fn, kd, _) := k in
  match norm_of k with
  | None => false
  | Some (pkg, nrm) =>
      if in_baseline (f, fn) then baseline_match true (f, fn) kd pkg nrm
      else match ancestors 6 (f, fn) with
           | Some (g :: gs) => forallb (fun g' => baseline_match false g' kd pkg nrm) (g :: gs)
           | _ => false
           end
  end.

Definition covered (s : string * string * string * string * N) : bool :=
  let '(f, fn, k, e, n) := s in
  row_covers (f, fn, k, e) || auto_covers (f, fn, k, e) n || moved_covers (f, fn, k, e).

(** How the inventoried sites are covered (reported in the evidence): rows / automatic / moved. *)
Definition coverage_counts : N * N * N :=
  (N.of_nat (List.length (filter (fun s => let '(f, fn, k, e, _) := s in row_covers (f, fn, k, e)) panic_sites)),
   N.of_nat (List.length (filter (fun s => let '(f, fn, k, e, n) := s in negb (row_covers (f, fn, k, e)) && auto_covers (f, fn, k, e) n) panic_sites)),
   N.of_nat (List.length (filter (fun s => let '(f, fn, k, e, n) := s in negb (row_covers (f, fn, k, e)) && negb (auto_covers (f, fn, k, e) n) && moved_covers (f, fn, k, e)) panic_sites))).

(** Inventoried sites that the table does not justify. *)
Definition uncovered_sites : list (string * string * string * string * N) := filter (fun s => negb (covered s)) panic_sites.

(** Table rows whose site no longer exists in the code (informational). *)
Definition stale_rows : N :=
  N.of_nat (List.length (filter (fun r => let '(f, fn, k, e, _, _) := r in
     negb (existsb (fun s => let '(f', fn', k', e', _) := s in site_key_eqb (f, fn, k, e) (f', fn', k', e')) panic_sites)) site_table)).

Definition count_just (p : just -> bool) : N := N.of_nat (List.length (filter (fun r => let '(_, _, _, _, j, _) := r in p j) site_table)).
