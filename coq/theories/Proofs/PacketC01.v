(** C01 — exactly-once delivery: receipts are monotone, a received triple is never accepted again, the
    callback / acknowledgement effects are logged at most once per triple. *)
From Teleport Require Import Base.Bytes Base.Outcome Base.AList Model.Packet Proofs.Packet.
Local Open Scope N_scope.

Definition triple_eqb (a b : triple) : bool :=
  let '(s1, d1, q1) := a in let '(s2, d2, q2) := b in bytes_eqb s1 s2 && bytes_eqb d1 d2 && (q1 =? q2).

Lemma triple_eqb_eq a b : triple_eqb a b = true <-> a = b.
Proof.
  destruct a as [[s1 d1] q1], b as [[s2 d2] q2]. cbn. rewrite !andb_true_iff, !bytes_eqb_eq, N.eqb_eq.
  split; [intros [[-> ->] ->]; reflexivity | intro H; inversion H; auto].
Qed.
Lemma triple_eqb_refl a : triple_eqb a a = true. Proof. apply triple_eqb_eq; reflexivity. Qed.

(** counting events *)
Definition cnt (f : event -> bool) (l : list event) : nat := length (filter f l).
Lemma cnt_app f a b : cnt f (a ++ b) = (cnt f a + cnt f b)%nat.
Proof. unfold cnt. rewrite filter_app, app_length. reflexivity. Qed.
Lemma cnt_one f e : cnt f [e] = if f e then 1%nat else 0%nat.
Proof. unfold cnt. cbn. destruct (f e); reflexivity. Qed.

Definition is_onrecv (t : triple) (e : event) : bool :=
  match e with EvOnRecv p => triple_eqb (triple_of p) t | _ => false end.
Definition is_ackw (t : triple) (e : event) : bool :=
  match e with EvAckWritten t' _ => triple_eqb t' t | _ => false end.

(** an event predicate that ignores what SendPacket logs *)
Definition send_blind (f : event -> bool) : Prop :=
  (forall d n, f (EvSetSeq d n) = false) /\ (forall p, f (EvSent p) = false).

Section C01.
  Variable P : params.
  Hypothesis KO : keys_ok P.

  Local Notation slog s := (log (st_app s)).

  Lemma slog_add_log e s : slog (add_log e s) = slog s ++ [e]. Proof. reflexivity. Qed.
  Lemma slog_set_kv k v s : slog (set_kv k v s) = slog s. Proof. reflexivity. Qed.
  Lemma slog_del_kv k s : slog (del_kv k s) = slog s. Proof. reflexivity. Qed.
  Lemma slog_set_cseq d n s : slog (set_cseq d n s) = slog s. Proof. reflexivity. Qed.
  Lemma slog_sent s p bz :
    slog (sent_state P s p bz) = (slog s ++ [EvSetSeq (p_dst p) (add64 (p_seq p) 1)]) ++ [EvSent p].
  Proof. reflexivity. Qed.

  (** ** "a present key stays present" *)
  Definition stays (K : bytes -> Prop) (s s' : cstate) : Prop :=
    forall k, K k -> sget k s <> None -> sget k s' <> None.

  Lemma stays_refl (K : bytes -> Prop) s : stays K s s. Proof. intros k _ H; exact H. Qed.
  Lemma stays_trans (K : bytes -> Prop) a b c : stays K a b -> stays K b c -> stays K a c.
  Proof. intros H1 H2 k Kk H. apply H2; [assumption|]. apply H1; assumption. Qed.
  Lemma stays_set (K : bytes -> Prop) k v s : stays K s (set_kv k v s).
  Proof. intros k' _ H. rewrite sget_set_kv. destruct (bytes_eqb k' k); [discriminate | exact H]. Qed.
  Lemma stays_del_other (K : bytes -> Prop) k s : (forall k', K k' -> k' <> k) -> stays K s (del_kv k s).
  Proof. intros D k' Kk H. rewrite sget_del_kv_other; [exact H | apply D; exact Kk]. Qed.
  Lemma stays_add_log (K : bytes -> Prop) e s : stays K s (add_log e s). Proof. intros k _ H; exact H. Qed.
  Lemma stays_set_cseq (K : bytes -> Prop) d n s : stays K s (set_cseq d n s). Proof. intros k _ H; exact H. Qed.
  Lemma keeps_stays (K : bytes -> Prop) s s' : keeps K s s' -> stays K s s'.
  Proof. intros H k Kk N. destruct (sget k s) as [v|] eqn:E; [|congruence]. rewrite (H k v Kk E). discriminate. Qed.

  (** ** receipts are disjoint from everything else that is written *)
  Lemma rkey_not_n k : is_rkey P k -> forall a b, k <> nextseq_key P a b.
  Proof. intros [t ->] a b. apply (ko_rn P KO). Qed.
  Lemma rkey_not_c k : is_rkey P k -> forall t, k <> ckey P t.
  Proof. intros [t ->] t'. apply (ko_rc P KO). Qed.
  Lemma rkey_not_a k : is_rkey P k -> forall t, k <> akey P t.
  Proof. intros [t ->] t'. apply (ko_ra P KO). Qed.

  Lemma recv_keeper_keeps_r env s m s' : recv_keeper P env s m = Ok s' -> keeps (is_rkey P) s s'.
  Proof.
    intro H. apply recv_keeper_ok in H. cbv zeta in H.
    destruct H as (_ & _ & F & ct & bz & _ & _ & _ & ->).
    destruct (recv_relay s _).
    - eapply keeps_trans; [apply keeps_set_fresh; exact F|].
      apply keeps_set_other. intros k K. rewrite ckey_eq. apply rkey_not_c; exact K.
    - apply keeps_set_fresh; exact F.
  Qed.

  Lemma write_ack_keeps_r s p bz s' : write_ack P s p bz = Ok s' -> keeps (is_rkey P) s s'.
  Proof.
    intro H. apply write_ack_ok in H as (_ & _ & _ & ->).
    eapply keeps_trans; [|apply keeps_add_log].
    apply keeps_set_other. intros k K. rewrite akey_eq. apply rkey_not_a; exact K.
  Qed.

  Lemma ack_keeper_keeps_r env s m s' : ack_keeper P env s m = Ok s' -> keeps (is_rkey P) s s'.
  Proof.
    intro H. apply ack_keeper_ok in H. cbv zeta in H.
    destruct H as (_ & _ & bz & ct & _ & _ & _ & _ & [[_ ->] | (_ & _ & ->)]).
    - apply keeps_del_other. intros k K. rewrite ckey_eq. apply rkey_not_c; exact K.
    - eapply keeps_trans; [|apply keeps_add_log].
      eapply keeps_trans; [|apply keeps_set_other; intros k K; rewrite akey_eq; apply rkey_not_a; exact K].
      apply keeps_del_other. intros k K. rewrite ckey_eq. apply rkey_not_c; exact K.
  Qed.

  Lemma call_keeps_r s e cb s' : call_packet P s e cb = Ok s' -> keeps (is_rkey P) s s'.
  Proof. apply call_packet_keeps; [apply rkey_not_n | apply rkey_not_c]. Qed.

  Lemma recv_handler_keeps_r env s m cb s' : recv_handler P env s m cb = Ok s' -> keeps (is_rkey P) s s'.
  Proof.
    intro H. apply recv_handler_ok in H. cbv zeta in H.
    destruct H as (s1 & relayer & RK & _ & _ & Hc).
    eapply keeps_trans; [eapply recv_keeper_keeps_r; exact RK|].
    destruct Hc as [(_ & s3 & a & bz & _ & WA & Hcb) | [(_ & _ & bz & _ & WA) | (_ & _ & ->)]].
    - eapply keeps_trans; [|eapply write_ack_keeps_r; exact WA].
      destruct Hcb as [(_ & -> & _) | (s2 & code & res & msg & CP & _ & _ & ->)]; [apply keeps_refl|].
      destruct (code =? 0); [eapply call_keeps_r; exact CP | apply keeps_refl].
    - eapply write_ack_keeps_r; exact WA.
    - apply keeps_refl.
  Qed.

  Lemma ack_handler_keeps_r env s m cb1 cb2 cb3 s' :
    ack_handler P env s m cb1 cb2 cb3 = Ok s' -> keeps (is_rkey P) s s'.
  Proof.
    intro H. apply ack_handler_ok in H. cbv zeta in H.
    destruct H as (s1 & a & AK & _ & _ & Hc).
    eapply keeps_trans; [eapply ack_keeper_keeps_r; exact AK|].
    destruct Hc as [(_ & ->) | (_ & s2 & s3 & r & addr & C1 & _ & _ & C2 & C3)]; [apply keeps_refl|].
    eapply keeps_trans; [eapply call_keeps_r; exact C1|].
    eapply keeps_trans; [eapply call_keeps_r; exact C2|].
    eapply call_keeps_r; exact C3.
  Qed.

  Lemma exec_keeps_receipts env s a s' : exec P env s a = Ok s' -> keeps (is_rkey P) s s'.
  Proof.
    destruct a as [m cb|m cb1 cb2 cb3|cb|name ok| |name c ok|name c ok|addr chains addrs|name c ok]; cbn [exec]; intro H.
    - eapply recv_handler_keeps_r; exact H.
    - eapply ack_handler_keeps_r; exact H.
    - destruct (cb_fail cb); [discriminate|].
      eapply hook_sends_keeps; [apply rkey_not_n | apply rkey_not_c | exact H].
    - destruct ok; inversion H; subst; apply keeps_refl.
    - inversion H; subst; apply keeps_refl.
    - apply register_client_ok in H as (Vn & Nn & _ & H); subst s'. intros k v _ X; exact X.
    - unfold toggle_client in H. destruct (valid_name P name); cbn in H; [|discriminate].
      destruct (aget name (st_clients s)) as [c0|]; [|discriminate].
      destruct (c0 =? c); [discriminate|]. destruct ok; inversion H; subst. intros k v _ X; exact X.
    - inversion H; subst. intros k v _ X; exact X.
    - apply upgrade_client_ok in H; subst s'. apply keeps_refl.
  Qed.

  (** *** C01.receipts_monotone *)
  Lemma step_keeps_receipts s o : keeps (is_rkey P) s (fst (step P s o)).
  Proof.
    unfold step. destruct (deliver P (fst o) s (snd o)) as [s'| |] eqn:E0; [apply deliver_ok in E0 as E| |]; cbn [fst]; try apply keeps_refl.
    eapply exec_keeps_receipts; exact E.
  Qed.

  Lemma run_keeps_receipts ops : forall s, keeps (is_rkey P) s (run P s ops).
  Proof.
    induction ops as [|o ops IH]; intro s; cbn [run]; [apply keeps_refl|].
    eapply keeps_trans; [apply step_keeps_receipts | apply IH].
  Qed.

  (** *** C01.recv_at_most_once *)
  Lemma recv_sets_receipt env s m cb s' :
    exec P env s (ARecv m cb) = Ok s' ->
    sget (rkey P (triple_of (fst (decode P (rm_packet m))))) s' = Some receipt_value.
  Proof.
    cbn [exec]. intro H. apply recv_handler_ok in H as H2. cbv zeta in H2.
    destruct H2 as (s1 & relayer & RK & _ & _ & Hc).
    assert (R1 : sget (rkey P (triple_of (fst (decode P (rm_packet m))))) s1 = Some receipt_value).
    { apply recv_keeper_ok in RK. cbv zeta in RK. destruct RK as (_ & _ & _ & ct & bz & _ & _ & _ & ->).
      unfold triple_of. cbn [rkey]. destruct (recv_relay s _).
      - rewrite sget_set_kv_other; [apply sget_set_kv_same|].
        rewrite rkey_eq, ckey_eq. apply (ko_rc P KO).
      - apply sget_set_kv_same. }
    assert (K : keeps (is_rkey P) s1 s').
    { destruct Hc as [(_ & s3 & a & bz & _ & WA & Hcb) | [(_ & _ & bz & _ & WA) | (_ & _ & ->)]].
      - eapply keeps_trans; [|eapply write_ack_keeps_r; exact WA].
        destruct Hcb as [(_ & -> & _) | (s2 & code & res & msg & CP & _ & _ & ->)]; [apply keeps_refl|].
        destruct (code =? 0); [eapply call_keeps_r; exact CP | apply keeps_refl].
      - eapply write_ack_keeps_r; exact WA.
      - apply keeps_refl. }
    apply K; [eexists; reflexivity | exact R1].
  Qed.

  Lemma recv_rejected_if_receipt env s m cb :
    sget (rkey P (triple_of (fst (decode P (rm_packet m))))) s <> None ->
    exec P env s (ARecv m cb) = Err.
  Proof.
    cbn [exec]. unfold recv_handler, recv_keeper. destruct (decode P (rm_packet m)) as [p err]. cbn [fst].
    unfold triple_of. cbn [rkey]. intro H.
    destruct (err && (p_seq p =? 0)); [reflexivity|].
    destruct (validate_packet s p); cbn; [|reflexivity].
    destruct (sget (receipt_key P (p_src p) (p_dst p) (p_seq p)) s); [reflexivity | congruence].
  Qed.

  Theorem recv_at_most_once env s m cb s1 ops env' m' cb' :
    exec P env s (ARecv m cb) = Ok s1 ->
    triple_of (fst (decode P (rm_packet m'))) = triple_of (fst (decode P (rm_packet m))) ->
    exec P env' (run P s1 ops) (ARecv m' cb') = Err /\
    step P (run P s1 ops) (env', ARecv m' cb') = (run P s1 ops, false).
  Proof.
    intros H T.
    assert (E : exec P env' (run P s1 ops) (ARecv m' cb') = Err).
    { apply recv_rejected_if_receipt. rewrite T.
      apply recv_sets_receipt in H.
      rewrite (run_keeps_receipts ops s1 _ _ (ex_intro _ _ eq_refl) H). discriminate. }
    split; [exact E|]. apply step_rejected. intros s' X. rewrite E in X. discriminate.
  Qed.

  (** ** effects at most once *)
  Definition log_ok (s : cstate) : Prop :=
    (forall t, (cnt (is_onrecv t) (slog s) <= 1)%nat) /\
    (forall t, (1 <= cnt (is_onrecv t) (slog s))%nat -> sget (rkey P t) s <> None) /\
    (forall t, (cnt (is_ackw t) (slog s) <= 1)%nat) /\
    (forall t, (1 <= cnt (is_ackw t) (slog s))%nat -> sget (akey P t) s <> None).

  Lemma send_blind_onrecv t : send_blind (is_onrecv t). Proof. split; reflexivity. Qed.
  Lemma send_blind_ackw t : send_blind (is_ackw t). Proof. split; reflexivity. Qed.

  Lemma send_cnt f s p ok s' : send_blind f -> send_packet P s p ok = Ok s' -> cnt f (slog s') = cnt f (slog s).
  Proof.
    intros [B1 B2] H. apply send_packet_ok in H as (_ & _ & _ & _ & _ & bz & _ & ->).
    rewrite slog_sent, !cnt_app, !cnt_one, B1, B2. lia.
  Qed.

  Lemma hook_sends_cnt f l : send_blind f -> forall s s', hook_sends P s l = Ok s' -> cnt f (slog s') = cnt f (slog s).
  Proof.
    intros B. induction l as [|[p ok] l IH]; intros s s' H; cbn in H.
    - inversion H; reflexivity.
    - destruct (send_packet P s p ok) as [s1| |] eqn:E; cbn in H; try discriminate.
      rewrite (IH _ _ H). eapply send_cnt; eauto.
  Qed.

  Lemma call_cnt f s e cb s' :
    send_blind f -> call_packet P s e cb = Ok s' -> cnt f (slog s') = (cnt f (slog s) + if f e then 1 else 0)%nat.
  Proof.
    intros B H. unfold call_packet in H. destruct (cb_fail cb); [discriminate|].
    rewrite (hook_sends_cnt f _ B _ _ H). rewrite slog_add_log, cnt_app, cnt_one. reflexivity.
  Qed.

  (** receipts and acks are never deleted *)
  Lemma akey_not_c k : is_akey P k -> forall t, k <> ckey P t.
  Proof. intros [t ->] t'. apply (ko_ac P KO). Qed.

  Definition ra_key (k : bytes) : Prop := is_rkey P k \/ is_akey P k.
  Lemma ra_not_c k : ra_key k -> forall t, k <> ckey P t.
  Proof. intros [H|H]; [apply rkey_not_c | apply akey_not_c]; exact H. Qed.

  Lemma send_stays s p ok s' : send_packet P s p ok = Ok s' -> stays ra_key s s'.
  Proof.
    intro H. apply send_packet_ok in H as (_ & _ & _ & _ & _ & bz & _ & ->). unfold sent_state.
    eapply stays_trans; [|apply stays_add_log].
    eapply stays_trans; [|apply stays_set].
    eapply stays_trans; [|apply stays_add_log].
    eapply stays_trans; [|apply stays_set_cseq].
    apply stays_set.
  Qed.

  Lemma call_stays s e cb s' : call_packet P s e cb = Ok s' -> stays ra_key s s'.
  Proof.
    apply (call_packet_rel P (stays ra_key)).
    - apply stays_refl.
    - apply stays_trans.
    - intros; eapply send_stays; eauto.
    - intros; apply stays_add_log.
  Qed.

  Lemma log_ok_stays s s' : log_ok s -> stays ra_key s s' -> slog s' = slog s -> log_ok s'.
  Proof.
    intros (A & B & C & D) St L. unfold log_ok. rewrite L. repeat split; try assumption.
    - intros t H. apply St; [left; eexists; reflexivity | apply B; exact H].
    - intros t H. apply St; [right; eexists; reflexivity | apply D; exact H].
  Qed.

  (** generic: the log grows by events invisible to both counters *)
  Lemma log_ok_blind s s' :
    log_ok s -> stays ra_key s s' ->
    (forall f, send_blind f -> cnt f (slog s') = cnt f (slog s)) -> log_ok s'.
  Proof.
    intros (A & B & C & D) St L. unfold log_ok.
    repeat split; intro t; rewrite ?(L _ (send_blind_onrecv t)), ?(L _ (send_blind_ackw t)); auto.
    - intro H. apply St; [left; eexists; reflexivity | apply B; exact H].
    - intro H. apply St; [right; eexists; reflexivity | apply D; exact H].
  Qed.

  Lemma send_log_ok s p ok s' : log_ok s -> send_packet P s p ok = Ok s' -> log_ok s'.
  Proof.
    intros L H. eapply log_ok_blind; [exact L | eapply send_stays; exact H |].
    intros f B. eapply send_cnt; eauto.
  Qed.

  Lemma hook_log_ok l s s' : log_ok s -> hook_sends P s l = Ok s' -> log_ok s'.
  Proof. apply (hook_sends_ind P log_ok). intros; eapply send_log_ok; eauto. Qed.

  (** a call whose own event is invisible to both counters *)
  Lemma call_log_ok_other s e cb s' :
    (forall t, is_onrecv t e = false) -> (forall t, is_ackw t e = false) ->
    log_ok s -> call_packet P s e cb = Ok s' -> log_ok s'.
  Proof.
    intros E1 E2 (A & B & C & D) H.
    pose proof (call_stays _ _ _ _ H) as St.
    unfold log_ok. repeat split; intro t.
    - rewrite (call_cnt _ _ _ _ _ (send_blind_onrecv t) H), E1, Nat.add_0_r. apply A.
    - rewrite (call_cnt _ _ _ _ _ (send_blind_onrecv t) H), E1, Nat.add_0_r. intro X.
      apply St; [left; eexists; reflexivity | apply B; exact X].
    - rewrite (call_cnt _ _ _ _ _ (send_blind_ackw t) H), E2, Nat.add_0_r. apply C.
    - rewrite (call_cnt _ _ _ _ _ (send_blind_ackw t) H), E2, Nat.add_0_r. intro X.
      apply St; [right; eexists; reflexivity | apply D; exact X].
  Qed.

  (** the onRecvPacket call: allowed when the triple has not been logged and its receipt is present *)
  Lemma call_log_ok_onrecv s p cb s' :
    log_ok s -> cnt (is_onrecv (triple_of p)) (slog s) = 0%nat -> sget (rkey P (triple_of p)) s <> None ->
    call_packet P s (EvOnRecv p) cb = Ok s' -> log_ok s'.
  Proof.
    intros (A & B & C & D) Z R H.
    pose proof (call_stays _ _ _ _ H) as St.
    unfold log_ok. repeat split; intro t.
    - rewrite (call_cnt _ _ _ _ _ (send_blind_onrecv t) H). cbn [is_onrecv].
      destruct (triple_eqb (triple_of p) t) eqn:E.
      + apply triple_eqb_eq in E; subst t. rewrite Z. lia.
      + rewrite Nat.add_0_r. apply A.
    - rewrite (call_cnt _ _ _ _ _ (send_blind_onrecv t) H). cbn [is_onrecv].
      destruct (triple_eqb (triple_of p) t) eqn:E.
      + apply triple_eqb_eq in E; subst t. intros _. apply St; [left; eexists; reflexivity | exact R].
      + rewrite Nat.add_0_r. intro X. apply St; [left; eexists; reflexivity | apply B; exact X].
    - rewrite (call_cnt _ _ _ _ _ (send_blind_ackw t) H). cbn [is_ackw]. rewrite Nat.add_0_r. apply C.
    - rewrite (call_cnt _ _ _ _ _ (send_blind_ackw t) H). cbn [is_ackw]. rewrite Nat.add_0_r. intro X.
      apply St; [right; eexists; reflexivity | apply D; exact X].
  Qed.

  Lemma recv_keeper_log_ok env s m s' : log_ok s -> recv_keeper P env s m = Ok s' -> log_ok s' /\ slog s' = slog s.
  Proof.
    intros L H. apply recv_keeper_ok in H. cbv zeta in H.
    destruct H as (_ & _ & _ & ct & bz & _ & _ & _ & ->).
    assert (X : forall s0 k v, log_ok s0 -> log_ok (set_kv k v s0)).
    { intros s0 k v L0. eapply log_ok_stays; [exact L0 | apply stays_set | reflexivity]. }
    destruct (recv_relay s _); split; try reflexivity; repeat apply X; exact L.
  Qed.

  Lemma write_ack_log_ok s p bz s' : log_ok s -> write_ack P s p bz = Ok s' -> log_ok s'.
  Proof.
    intros (A & B & C & D) H. apply write_ack_ok in H as (_ & F & _ & ->).
    assert (Z : cnt (is_ackw (triple_of p)) (slog s) = 0%nat).
    { destruct (cnt (is_ackw (triple_of p)) (slog s)) eqn:E; [reflexivity|].
      exfalso. apply (D (triple_of p)); [lia | exact F]. }
    assert (St : stays ra_key s (add_log (EvAckWritten (triple_of p) (sha256 P bz))
                                   (set_kv (ack_key P (p_src p) (p_dst p) (p_seq p)) (sha256 P bz) s))).
    { eapply stays_trans; [apply stays_set | apply stays_add_log]. }
    unfold log_ok. rewrite slog_add_log, slog_set_kv. repeat split; intro t; rewrite cnt_app, cnt_one; cbn [is_onrecv is_ackw].
    - rewrite Nat.add_0_r. apply A.
    - rewrite Nat.add_0_r. intro X. apply St; [left; eexists; reflexivity | apply B; exact X].
    - destruct (triple_eqb (triple_of p) t) eqn:E.
      + apply triple_eqb_eq in E; subst t. rewrite Z. lia.
      + rewrite Nat.add_0_r. apply C.
    - destruct (triple_eqb (triple_of p) t) eqn:E.
      + apply triple_eqb_eq in E; subst t. intros _. rewrite sget_add_log. unfold triple_of. cbn [akey].
        rewrite sget_set_kv_same. discriminate.
      + rewrite Nat.add_0_r. intro X. apply St; [right; eexists; reflexivity | apply D; exact X].
  Qed.

  Lemma ack_keeper_log_ok env s m s' : log_ok s -> ack_keeper P env s m = Ok s' -> log_ok s'.
  Proof.
    intros L H. apply ack_keeper_ok in H. cbv zeta in H.
    destruct H as (_ & _ & bz & ct & _ & _ & _ & _ & [[_ ->] | (_ & _ & ->)]).
    - eapply log_ok_stays; [exact L | | reflexivity].
      apply stays_del_other. intros k K. rewrite ckey_eq. apply ra_not_c; exact K.
    - destruct L as (A & B & C & D).
      assert (St : stays ra_key s
                (set_kv (ack_key P (p_src (fst (decode P (am_packet m)))) (p_dst (fst (decode P (am_packet m))))
                           (p_seq (fst (decode P (am_packet m))))) (sha256 P (am_ack m))
                   (del_kv (commitment_key P (p_src (fst (decode P (am_packet m)))) (p_dst (fst (decode P (am_packet m))))
                              (p_seq (fst (decode P (am_packet m))))) s))).
      { eapply stays_trans; [|apply stays_set].
        apply stays_del_other. intros k K. rewrite ckey_eq. apply ra_not_c; exact K. }
      unfold log_ok. rewrite slog_add_log, slog_set_kv, slog_del_kv. repeat split; intro t; rewrite cnt_app, cnt_one; cbn [is_onrecv is_ackw]; rewrite Nat.add_0_r; auto.
      + intro X. apply St; [left; eexists; reflexivity | apply B; exact X].
      + intro X. apply St; [right; eexists; reflexivity | apply D; exact X].
  Qed.

  Lemma recv_handler_log_ok env s m cb s' : log_ok s -> recv_handler P env s m cb = Ok s' -> log_ok s'.
  Proof.
    intros L H. apply recv_handler_ok in H. cbv zeta in H.
    destruct H as (s1 & relayer & RK & _ & _ & Hc).
    pose proof (recv_keeper_log_ok _ _ _ _ L RK) as [L1 LG1].
    pose proof RK as RK2. apply recv_keeper_ok in RK2. cbv zeta in RK2.
    destruct RK2 as (_ & _ & F & _).
    set (p := fst (decode P (rm_packet m))) in *.
    assert (Z : cnt (is_onrecv (triple_of p)) (slog s1) = 0%nat).
    { rewrite LG1. destruct (cnt (is_onrecv (triple_of p)) (slog s)) eqn:E; [reflexivity|].
      exfalso. destruct L as (_ & B & _). apply (B (triple_of p)); [lia | exact F]. }
    assert (R1 : sget (rkey P (triple_of p)) s1 <> None).
    { pose proof (recv_sets_receipt env s m cb) as X.
      apply recv_keeper_ok in RK. cbv zeta in RK. destruct RK as (_ & _ & _ & ct & bz & _ & _ & _ & ->).
      fold p. unfold triple_of. cbn [rkey]. destruct (recv_relay s p).
      - rewrite sget_set_kv_other; [rewrite sget_set_kv_same; discriminate|].
        rewrite rkey_eq, ckey_eq. apply (ko_rc P KO).
      - rewrite sget_set_kv_same; discriminate. }
    destruct Hc as [(_ & s3 & a & bz & _ & WA & Hcb) | [(_ & _ & bz & _ & WA) | (_ & _ & ->)]].
    - eapply write_ack_log_ok; [|exact WA].
      destruct Hcb as [(_ & -> & _) | (s2 & code & res & msg & CP & _ & _ & ->)]; [exact L1|].
      destruct (code =? 0); [|exact L1].
      eapply call_log_ok_onrecv; [exact L1 | exact Z | exact R1 | exact CP].
    - eapply write_ack_log_ok; [exact L1 | exact WA].
    - exact L1.
  Qed.

  Lemma ack_handler_log_ok env s m cb1 cb2 cb3 s' :
    log_ok s -> ack_handler P env s m cb1 cb2 cb3 = Ok s' -> log_ok s'.
  Proof.
    intros L H. apply ack_handler_ok in H. cbv zeta in H.
    destruct H as (s1 & a & AK & _ & _ & Hc).
    pose proof (ack_keeper_log_ok _ _ _ _ L AK) as L1.
    destruct Hc as [(_ & ->) | (_ & s2 & s3 & r & addr & C1 & _ & _ & C2 & C3)]; [exact L1|].
    eapply call_log_ok_other; [| | |exact C3]; try (intro; reflexivity).
    eapply call_log_ok_other; [| | |exact C2]; try (intro; reflexivity).
    eapply call_log_ok_other; [| | |exact C1]; try (intro; reflexivity).
    exact L1.
  Qed.

  Lemma exec_log_ok env s a s' : log_ok s -> exec P env s a = Ok s' -> log_ok s'.
  Proof.
    intro L.
    destruct a as [m cb|m cb1 cb2 cb3|cb|name ok| |name c ok|name c ok|addr chains addrs|name c ok]; cbn [exec]; intro H.
    - eapply recv_handler_log_ok; eauto.
    - eapply ack_handler_log_ok; eauto.
    - destruct (cb_fail cb); [discriminate|]. eapply hook_log_ok; eauto.
    - destruct ok; inversion H; subst; exact L.
    - inversion H; subst; exact L.
    - apply register_client_ok in H as (Vn & Nn & _ & H); subst s'. exact L.
    - unfold toggle_client in H. destruct (valid_name P name); cbn in H; [|discriminate].
      destruct (aget name (st_clients s)) as [c0|]; [|discriminate].
      destruct (c0 =? c); [discriminate|]. destruct ok; inversion H; subst. exact L.
    - inversion H; subst. exact L.
    - apply upgrade_client_ok in H; subst s'. exact L.
  Qed.

  Lemma run_log_ok ops : forall s, log_ok s -> log_ok (run P s ops).
  Proof.
    induction ops as [|o ops IH]; intros s L; cbn [run]; [exact L|].
    apply IH. unfold step. destruct (deliver P (fst o) s (snd o)) as [s'| |] eqn:E0; [apply deliver_ok in E0 as E| |]; cbn [fst]; try exact L.
    eapply exec_log_ok; eauto.
  Qed.

  (** *** C01.effects_at_most_once *)
  Theorem effects_at_most_once ops s t :
    log_ok s ->
    (cnt (is_onrecv t) (slog (run P s ops)) <= 1)%nat /\ (cnt (is_ackw t) (slog (run P s ops)) <= 1)%nat.
  Proof. intro L. destruct (run_log_ok ops s L) as (A & _ & C & _). split; [apply A | apply C]. Qed.

  Lemma log_ok_empty s : slog s = [] -> log_ok s.
  Proof. intro E. unfold log_ok. rewrite E. cbn. repeat split; intros; lia. Qed.
End C01.
