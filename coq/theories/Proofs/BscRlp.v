(** What the seal and the block hash of a BSC header cover: the two RLP pre-images of Model/BscRlp.v are
    injective on [sealed_part] / [hashed_part] (RLP items are prefix-free: Proofs/EvmProofRlp.v), so equal
    digests mean equal parts or an explicit keccak collision. *)
From Teleport Require Import Base.Bytes Base.Outcome Model.Bsc Model.BscRlp Proofs.BscBase.
From Teleport Require Model.EvmProof Proofs.EvmProofRlp.
Local Open Scope N_scope.

Lemma two64_evm : EvmProof.two64 = two64.
Proof. reflexivity. Qed.

Lemma two64_lt_256 n : n < two64 -> n < 2 ^ 256.
Proof.
  intro H. eapply N.lt_trans; [exact H|]. unfold two64. change 18446744073709551616 with (2 ^ 64).
  apply N.pow_lt_mono_r; lia.
Qed.

Lemma rlp_bytes_inj a b x y :
  N.of_nat (length a) < two64 -> N.of_nat (length b) < two64 ->
  rlp_bytes a ++ x = rlp_bytes b ++ y -> a = b /\ x = y.
Proof. exact (EvmProofRlp.rlp_string_inj a b x y). Qed.

Lemma small32 (l : bytes) : (length l <= 32)%nat -> N.of_nat (length l) < two64.
Proof. intro H. unfold two64. lia. Qed.

Lemma rlp_uint_inj a b x y : a < two64 -> b < two64 -> rlp_uint a ++ x = rlp_uint b ++ y -> a = b /\ x = y.
Proof.
  intros Ha Hb E. unfold rlp_uint in E.
  apply EvmProofRlp.rlp_string_inj in E;
    [| apply small32, EvmProofRlp.length_be_min | apply small32, EvmProofRlp.length_be_min].
  destruct E as [E ->]. split; [|reflexivity].
  apply EvmProofRlp.be_min_inj; [apply two64_lt_256; exact Ha | apply two64_lt_256; exact Hb | exact E].
Qed.

(** an item is not longer than its encoding, and an encoding not longer than the concatenation it is part of *)
Lemma rlp_bytes_length b : (length b <= length (rlp_bytes b))%nat.
Proof.
  unfold rlp_bytes, EvmProof.rlp_string. destruct b as [|x [|y r]].
  - cbn. lia.
  - destruct (EvmProof.nb x <? 128); [cbn; lia|]. rewrite app_length. cbn [length]. lia.
  - rewrite app_length. lia.
Qed.

Lemma concat_item_length (x : bytes) items : In x items -> (length x <= length (List.concat items))%nat.
Proof.
  induction items as [|y items IH]; [intros []|].
  intros [->|H]; cbn [List.concat]; rewrite app_length.
  - lia.
  - specialize (IH H). lia.
Qed.

Lemma item_small items b :
  N.of_nat (length (List.concat items)) < two64 -> In (rlp_bytes b) items -> N.of_nat (length b) < two64.
Proof.
  intros H I. pose proof (concat_item_length _ _ I). pose proof (rlp_bytes_length b). lia.
Qed.

Lemma bigbytes_small items b :
  N.of_nat (length (List.concat items)) < two64 -> In (rlp_bigbytes b) items ->
  N.of_nat (length (EvmProof.strip_zeros b)) < two64.
Proof. intros H I. exact (item_small items _ H I). Qed.

Ltac in_items := cbn [In]; repeat (first [left; reflexivity | right]).

(** ** The seal pre-image determines the chain id and every field except the revision number and the seal *)
Theorem seal_rlp_inj c1 h1 c2 h2 :
  enc_ranges c1 h1 -> enc_ranges c2 h2 ->
  seal_rlp c1 h1 = seal_rlp c2 h2 -> c1 = c2 /\ sealed_part h1 = sealed_part h2.
Proof.
  intros (Rc1 & Rn1 & Rg1 & Ru1 & Rt1 & RS1 & _) (Rc2 & Rn2 & Rg2 & Ru2 & Rt2 & RS2 & _) E.
  unfold seal_rlp, EvmProof.rlp_list in E.
  apply EvmProofRlp.rlp_header_inj in E; [| lia | exact RS1 | exact RS2].
  destruct E as [_ E].
  pose proof (item_small _ (h_parent h1) RS1 ltac:(rewrite seal_items_eq; in_items)) as A1.
  pose proof (item_small _ (h_parent h2) RS2 ltac:(rewrite seal_items_eq; in_items)) as A2.
  pose proof (item_small _ (h_uncle h1) RS1 ltac:(rewrite seal_items_eq; in_items)) as B1.
  pose proof (item_small _ (h_uncle h2) RS2 ltac:(rewrite seal_items_eq; in_items)) as B2.
  pose proof (item_small _ (h_coinbase h1) RS1 ltac:(rewrite seal_items_eq; in_items)) as C1.
  pose proof (item_small _ (h_coinbase h2) RS2 ltac:(rewrite seal_items_eq; in_items)) as C2.
  pose proof (item_small _ (h_root h1) RS1 ltac:(rewrite seal_items_eq; in_items)) as D1.
  pose proof (item_small _ (h_root h2) RS2 ltac:(rewrite seal_items_eq; in_items)) as D2.
  pose proof (item_small _ (h_txhash h1) RS1 ltac:(rewrite seal_items_eq; in_items)) as E1.
  pose proof (item_small _ (h_txhash h2) RS2 ltac:(rewrite seal_items_eq; in_items)) as E2.
  pose proof (item_small _ (h_receipt h1) RS1 ltac:(rewrite seal_items_eq; in_items)) as F1.
  pose proof (item_small _ (h_receipt h2) RS2 ltac:(rewrite seal_items_eq; in_items)) as F2.
  pose proof (item_small _ (h_bloom h1) RS1 ltac:(rewrite seal_items_eq; in_items)) as G1.
  pose proof (item_small _ (h_bloom h2) RS2 ltac:(rewrite seal_items_eq; in_items)) as G2.
  pose proof (item_small _ (h_diff h1) RS1 ltac:(rewrite seal_items_eq; in_items)) as H1.
  pose proof (item_small _ (h_diff h2) RS2 ltac:(rewrite seal_items_eq; in_items)) as H2.
  pose proof (item_small _ (extra_unsealed (h_extra h1)) RS1 ltac:(rewrite seal_items_eq; in_items)) as I1.
  pose proof (item_small _ (extra_unsealed (h_extra h2)) RS2 ltac:(rewrite seal_items_eq; in_items)) as I2.
  pose proof (item_small _ (h_mix h1) RS1 ltac:(rewrite seal_items_eq; in_items)) as J1.
  pose proof (item_small _ (h_mix h2) RS2 ltac:(rewrite seal_items_eq; in_items)) as J2.
  pose proof (item_small _ (h_nonce h1) RS1 ltac:(rewrite seal_items_eq; in_items)) as K1.
  pose proof (item_small _ (h_nonce h2) RS2 ltac:(rewrite seal_items_eq; in_items)) as K2.
  rewrite !seal_items_eq in E. cbn [List.concat] in E.
  apply rlp_uint_inj in E; [|assumption|assumption]. destruct E as [Ec E].
  apply rlp_bytes_inj in E; [|assumption|assumption]. destruct E as [Ea E].
  apply rlp_bytes_inj in E; [|assumption|assumption]. destruct E as [Eb E].
  apply rlp_bytes_inj in E; [|assumption|assumption]. destruct E as [Ecb E].
  apply rlp_bytes_inj in E; [|assumption|assumption]. destruct E as [Ed E].
  apply rlp_bytes_inj in E; [|assumption|assumption]. destruct E as [Ee E].
  apply rlp_bytes_inj in E; [|assumption|assumption]. destruct E as [Ef E].
  apply rlp_bytes_inj in E; [|assumption|assumption]. destruct E as [Eg E].
  apply rlp_bytes_inj in E; [|assumption|assumption]. destruct E as [Eh E].
  apply rlp_uint_inj in E; [|assumption|assumption]. destruct E as [En E].
  apply rlp_uint_inj in E; [|assumption|assumption]. destruct E as [Egl E].
  apply rlp_uint_inj in E; [|assumption|assumption]. destruct E as [Egu E].
  apply rlp_uint_inj in E; [|assumption|assumption]. destruct E as [Et E].
  apply rlp_bytes_inj in E; [|assumption|assumption]. destruct E as [Ei E].
  apply rlp_bytes_inj in E; [|assumption|assumption]. destruct E as [Ej E].
  apply rlp_bytes_inj in E; [|assumption|assumption]. destruct E as [Ek _].
  split; [exact Ec|]. unfold sealed_part. congruence.
Qed.

Lemma seal_rlp_of_part c h1 h2 : sealed_part h1 = sealed_part h2 -> seal_rlp c h1 = seal_rlp c h2.
Proof.
  unfold sealed_part. intro H. inversion H. unfold seal_rlp. rewrite !seal_items_eq. congruence.
Qed.

Theorem seal_rlp_covers c1 h1 c2 h2 :
  enc_ranges c1 h1 -> enc_ranges c2 h2 ->
  (seal_rlp c1 h1 = seal_rlp c2 h2 <-> c1 = c2 /\ sealed_part h1 = sealed_part h2).
Proof.
  intros R1 R2. split.
  - apply seal_rlp_inj; assumption.
  - intros [-> H]. apply seal_rlp_of_part. exact H.
Qed.

(** ** The block-hash pre-image determines the normalised fields (numbers below 2^63) *)
Theorem block_rlp_inj c1 h1 c2 h2 :
  enc_ranges c1 h1 -> enc_ranges c2 h2 -> h_num h1 < two63 -> h_num h2 < two63 ->
  block_rlp h1 = block_rlp h2 -> hashed_part h1 = hashed_part h2.
Proof.
  intros (_ & Rn1 & Rg1 & Ru1 & Rt1 & _ & RS1) (_ & Rn2 & Rg2 & Ru2 & Rt2 & _ & RS2) L1 L2 E.
  unfold block_rlp in E. apply N.ltb_lt in L1, L2. rewrite L1, L2 in E.
  unfold EvmProof.rlp_list in E.
  apply EvmProofRlp.rlp_header_inj in E; [| lia | exact RS1 | exact RS2].
  destruct E as [_ E].
  pose proof (item_small _ (to_hash (h_parent h1)) RS1 ltac:(rewrite block_items_eq; in_items)) as A1.
  pose proof (item_small _ (to_hash (h_parent h2)) RS2 ltac:(rewrite block_items_eq; in_items)) as A2.
  pose proof (item_small _ (to_hash (h_uncle h1)) RS1 ltac:(rewrite block_items_eq; in_items)) as B1.
  pose proof (item_small _ (to_hash (h_uncle h2)) RS2 ltac:(rewrite block_items_eq; in_items)) as B2.
  pose proof (item_small _ (to_addr (h_coinbase h1)) RS1 ltac:(rewrite block_items_eq; in_items)) as C1.
  pose proof (item_small _ (to_addr (h_coinbase h2)) RS2 ltac:(rewrite block_items_eq; in_items)) as C2.
  pose proof (item_small _ (to_hash (h_root h1)) RS1 ltac:(rewrite block_items_eq; in_items)) as D1.
  pose proof (item_small _ (to_hash (h_root h2)) RS2 ltac:(rewrite block_items_eq; in_items)) as D2.
  pose proof (item_small _ (to_hash (h_txhash h1)) RS1 ltac:(rewrite block_items_eq; in_items)) as E1.
  pose proof (item_small _ (to_hash (h_txhash h2)) RS2 ltac:(rewrite block_items_eq; in_items)) as E2.
  pose proof (item_small _ (to_hash (h_receipt h1)) RS1 ltac:(rewrite block_items_eq; in_items)) as F1.
  pose proof (item_small _ (to_hash (h_receipt h2)) RS2 ltac:(rewrite block_items_eq; in_items)) as F2.
  pose proof (item_small _ (bloom256 (h_bloom h1)) RS1 ltac:(rewrite block_items_eq; in_items)) as G1.
  pose proof (item_small _ (bloom256 (h_bloom h2)) RS2 ltac:(rewrite block_items_eq; in_items)) as G2.
  pose proof (bigbytes_small _ (h_diff h1) RS1 ltac:(rewrite block_items_eq; in_items)) as H1.
  pose proof (bigbytes_small _ (h_diff h2) RS2 ltac:(rewrite block_items_eq; in_items)) as H2.
  pose proof (item_small _ (h_extra h1) RS1 ltac:(rewrite block_items_eq; in_items)) as I1.
  pose proof (item_small _ (h_extra h2) RS2 ltac:(rewrite block_items_eq; in_items)) as I2.
  pose proof (item_small _ (to_hash (h_mix h1)) RS1 ltac:(rewrite block_items_eq; in_items)) as J1.
  pose proof (item_small _ (to_hash (h_mix h2)) RS2 ltac:(rewrite block_items_eq; in_items)) as J2.
  pose proof (item_small _ (nonce8 (h_nonce h1)) RS1 ltac:(rewrite block_items_eq; in_items)) as K1.
  pose proof (item_small _ (nonce8 (h_nonce h2)) RS2 ltac:(rewrite block_items_eq; in_items)) as K2.
  rewrite !block_items_eq in E. cbn [List.concat] in E. unfold rlp_bigbytes in E. fold (rlp_bytes (EvmProof.strip_zeros (h_diff h1))) in E.
  fold (rlp_bytes (EvmProof.strip_zeros (h_diff h2))) in E.
  apply rlp_bytes_inj in E; [|assumption|assumption]. destruct E as [Ea E].
  apply rlp_bytes_inj in E; [|assumption|assumption]. destruct E as [Eb E].
  apply rlp_bytes_inj in E; [|assumption|assumption]. destruct E as [Ecb E].
  apply rlp_bytes_inj in E; [|assumption|assumption]. destruct E as [Ed E].
  apply rlp_bytes_inj in E; [|assumption|assumption]. destruct E as [Ee E].
  apply rlp_bytes_inj in E; [|assumption|assumption]. destruct E as [Ef E].
  apply rlp_bytes_inj in E; [|assumption|assumption]. destruct E as [Eg E].
  apply rlp_bytes_inj in E; [|assumption|assumption]. destruct E as [Eh E].
  apply rlp_uint_inj in E; [|assumption|assumption]. destruct E as [En E].
  apply rlp_uint_inj in E; [|assumption|assumption]. destruct E as [Egl E].
  apply rlp_uint_inj in E; [|assumption|assumption]. destruct E as [Egu E].
  apply rlp_uint_inj in E; [|assumption|assumption]. destruct E as [Et E].
  apply rlp_bytes_inj in E; [|assumption|assumption]. destruct E as [Ei E].
  apply rlp_bytes_inj in E; [|assumption|assumption]. destruct E as [Ej E].
  apply rlp_bytes_inj in E; [|assumption|assumption]. destruct E as [Ek _].
  unfold hashed_part. congruence.
Qed.

(** From 2^63 on nothing is hashed: the pre-image is empty whatever the header says. *)
Lemma block_rlp_degenerate h : two63 <= h_num h -> block_rlp h = [].
Proof. intro H. unfold block_rlp. apply N.ltb_ge in H. rewrite H. reflexivity. Qed.

(** ** Digests: equal digests = equal covered parts, or an explicit collision of the hash function *)
Definition collision (keccak : bytes -> bytes) : Prop := exists a b, a <> b /\ keccak a = keccak b.

Theorem seal_hash_binds keccak c1 h1 c2 h2 :
  enc_ranges c1 h1 -> enc_ranges c2 h2 ->
  seal_hash keccak c1 h1 = seal_hash keccak c2 h2 ->
  (c1 = c2 /\ sealed_part h1 = sealed_part h2) \/ collision keccak.
Proof.
  intros R1 R2 E. unfold seal_hash in E.
  destruct (bytes_eq_dec (seal_rlp c1 h1) (seal_rlp c2 h2)) as [Q|Q].
  - left. apply seal_rlp_inj; assumption.
  - right. exists (seal_rlp c1 h1), (seal_rlp c2 h2). split; assumption.
Qed.

Theorem block_hash_binds keccak c1 h1 c2 h2 :
  enc_ranges c1 h1 -> enc_ranges c2 h2 -> h_num h1 < two63 -> h_num h2 < two63 ->
  block_hash keccak h1 = block_hash keccak h2 ->
  hashed_part h1 = hashed_part h2 \/ collision keccak.
Proof.
  intros R1 R2 L1 L2 E. unfold block_hash in E.
  destruct (bytes_eq_dec (block_rlp h1) (block_rlp h2)) as [Q|Q].
  - left. eapply block_rlp_inj; eassumption.
  - right. exists (block_rlp h1), (block_rlp h2). split; assumption.
Qed.
