(** Proofs about the reward-vesting model (C20, and the rvesting part of C15). *)
From Teleport Require Import Base.Bytes Base.Outcome Model.Rvesting.
Local Open Scope Z_scope.

Lemma mem_In d l : mem d l = true <-> In d l.
Proof.
  induction l as [|x l IH]; cbn; [split; [discriminate|tauto]|].
  rewrite orb_true_iff, IH, bytes_eqb_eq. tauto.
Qed.

Lemma mem_false_notin d l : mem d l = false <-> ~ In d l.
Proof. rewrite <- mem_In. destruct (mem d l); split; congruence. Qed.

Lemma distinct_In d l : In d (distinct l) <-> In d l.
Proof.
  induction l as [|x l IH]; cbn; [tauto|].
  destruct (mem x l) eqn:E.
  - rewrite IH. apply mem_In in E. split; [tauto|]. intros [->|H]; assumption.
  - cbn. rewrite IH. tauto.
Qed.

Lemma distinct_NoDup l : NoDup (distinct l).
Proof.
  induction l as [|x l IH]; cbn; [constructor|].
  destruct (mem x l) eqn:E; [exact IH|].
  constructor; [|exact IH]. rewrite distinct_In. apply mem_false_notin; exact E.
Qed.

Lemma get_upd m d v d' : get (upd m d v) d' = if bytes_eqb d d' then v else get m d'.
Proof. reflexivity. Qed.

(** ** Effect of [send_vested] *)
Section Fold.
  Variable f : bytes -> Z.

  Definition stepf := fun (st : state) (d : bytes) => move1 st d (f d).

  Lemma fold_move_pool ds : NoDup ds -> forall s d,
    get (pool (fold_left stepf ds s)) d = get (pool s) d - (if mem d ds then f d else 0).
  Proof.
    induction ds as [|x ds IH]; intros ND s d; cbn [fold_left mem]; [lia|].
    inversion ND as [|? ? Hx ND']; subst.
    rewrite IH by assumption. unfold stepf, move1; cbn [pool]. rewrite get_upd.
    destruct (bytes_eqb_spec x d) as [->|Hne]; cbn [orb].
    - apply mem_false_notin in Hx. rewrite Hx. lia.
    - destruct (mem d ds); lia.
  Qed.

  Lemma fold_move_fee ds : NoDup ds -> forall s d,
    get (fee (fold_left stepf ds s)) d = get (fee s) d + (if mem d ds then f d else 0).
  Proof.
    induction ds as [|x ds IH]; intros ND s d; cbn [fold_left mem]; [lia|].
    inversion ND as [|? ? Hx ND']; subst.
    rewrite IH by assumption. unfold stepf, move1; cbn [fee]. rewrite get_upd.
    destruct (bytes_eqb_spec x d) as [->|Hne]; cbn [orb].
    - apply mem_false_notin in Hx. rewrite Hx. lia.
    - destruct (mem d ds); lia.
  Qed.

  Lemma fold_move_rest ds s :
    others (fold_left stepf ds s) = others s /\ supply (fold_left stepf ds s) = supply s.
  Proof. revert s; induction ds as [|x ds IH]; intros s; cbn [fold_left]; [tauto|]. destruct (IH (stepf s x)) as [H1 H2]. rewrite H1, H2. split; reflexivity. Qed.
End Fold.

Lemma vtotal_notin l d : ~ In d (map fst l) -> vtotal l d = 0.
Proof.
  induction l as [|[k a] l IH]; cbn; intro H; [reflexivity|].
  destruct (bytes_eqb_spec k d) as [->|Hne]; [tauto|]. rewrite IH by tauto. lia.
Qed.

Lemma send_vested_pool chosen s d :
  get (pool (send_vested chosen s)) d = get (pool s) d - vtotal chosen d.
Proof.
  unfold send_vested. change (fun st d0 => move1 st d0 (vtotal chosen d0)) with (stepf (vtotal chosen)). rewrite fold_move_pool by apply distinct_NoDup.
  destruct (mem d (distinct (map fst chosen))) eqn:E; [reflexivity|].
  apply mem_false_notin in E. rewrite distinct_In in E. rewrite vtotal_notin by exact E. reflexivity.
Qed.

Lemma send_vested_fee chosen s d :
  get (fee (send_vested chosen s)) d = get (fee s) d + vtotal chosen d.
Proof.
  unfold send_vested. change (fun st d0 => move1 st d0 (vtotal chosen d0)) with (stepf (vtotal chosen)). rewrite fold_move_fee by apply distinct_NoDup.
  destruct (mem d (distinct (map fst chosen))) eqn:E; [reflexivity|].
  apply mem_false_notin in E. rewrite distinct_In in E. rewrite vtotal_notin by exact E. reflexivity.
Qed.

Lemma send_vested_rest chosen s :
  others (send_vested chosen s) = others s /\ supply (send_vested chosen s) = supply s.
Proof. apply (fold_move_rest (vtotal chosen)). Qed.

(** ** What the loop of BeginBlocker selects under validated parameters *)
Definition pool_ok (s : state) : Prop := forall d, 0 <= get (pool s) d.

Lemma reward_of_notin r d : ~ In d (map fst r) -> reward_of r d = 0.
Proof.
  induction r as [|[k a] r IH]; cbn; intro H; [reflexivity|].
  destruct (bytes_eqb_spec k d) as [->|Hne]; [tauto|]. apply IH; tauto.
Qed.

Lemma choose_all_valid pl rs :
  (forall d, 0 <= get pl d) ->
  forallb (fun c => valid_denom (fst c) && (0 <=? snd c)) rs = true ->
  nodup_denoms rs = true ->
  exists chosen, choose_all pl rs = Ok chosen /\
    (forall d, vtotal chosen d = Z.min (reward_of rs d) (get pl d)) /\
    (forall d, In d (map fst chosen) -> In d (map fst rs)).
Proof.
  intros Hpl. induction rs as [|[k a] rs IH]; cbn [forallb nodup_denoms choose_all]; intros Hv Hnd.
  - exists []. split; [reflexivity|]. split; [|cbn; tauto]. intro d; cbn. specialize (Hpl d); lia.
  - apply andb_true_iff in Hv as [Hka Hv]. cbn [fst snd] in Hka. apply andb_true_iff in Hka as [Hk Ha].
    apply andb_true_iff in Hnd as [Hnk Hnd]. apply negb_true_iff, mem_false_notin in Hnk.
    destruct (IH Hv Hnd) as (ch & Hch & Htot & Hsub). rewrite Hch.
    assert (Ha' : 0 <= a) by lia.
    unfold choose. destruct (get pl k =? 0) eqn:E0.
    + rewrite Hk. exists ch. split; [reflexivity|]. split; [|intros d Hd; right; apply Hsub; exact Hd].
      intro d. rewrite Htot. cbn [reward_of]. destruct (bytes_eqb_spec k d) as [->|Hne]; [|reflexivity].
      rewrite (reward_of_notin rs _ Hnk). apply Z.eqb_eq in E0. rewrite E0. lia.
    + apply Z.eqb_neq in E0. pose proof (Hpl k) as Hk0.
      destruct (get pl k <? a) eqn:Elt.
      * exists ((k, get pl k) :: ch). split; [reflexivity|]. split.
        -- intro d. cbn [vtotal reward_of]. rewrite Htot. destruct (bytes_eqb_spec k d) as [->|Hne]; [|lia].
           rewrite (reward_of_notin rs _ Hnk). apply Z.ltb_lt in Elt. specialize (Hpl d). lia.
        -- cbn [map fst]. intros d [<-|Hd]; [left; reflexivity | right; apply Hsub; exact Hd].
      * exists ((k, a) :: ch). split; [reflexivity|]. split.
        -- intro d. cbn [vtotal reward_of]. rewrite Htot. destruct (bytes_eqb_spec k d) as [->|Hne]; [|lia].
           rewrite (reward_of_notin rs _ Hnk). apply Z.ltb_ge in Elt. specialize (Hpl d). lia.
        -- cbn [map fst]. intros d [<-|Hd]; [left; reflexivity | right; apply Hsub; exact Hd].
Qed.

Lemma validate_rewards_parts r :
  validate_rewards r = true ->
  r <> [] /\ forallb (fun c => valid_denom (fst c) && (0 <=? snd c)) r = true /\ nodup_denoms r = true.
Proof.
  unfold validate_rewards. intro H. apply andb_true_iff in H as [H H3]. apply andb_true_iff in H as [H1 H2].
  repeat split; try assumption. destruct r; [discriminate|congruence].
Qed.

Lemma rewards_valid_denoms r d :
  forallb (fun c => valid_denom (fst c) && (0 <=? snd c)) r = true -> In d (map fst r) -> valid_denom d = true.
Proof.
  intros H Hin. apply in_map_iff in Hin as ([k a] & <- & Hin). rewrite forallb_forall in H.
  specialize (H _ Hin). apply andb_true_iff in H as [H _]. exact H.
Qed.

Lemma reward_of_nonneg r d :
  forallb (fun c => valid_denom (fst c) && (0 <=? snd c)) r = true -> 0 <= reward_of r d.
Proof.
  induction r as [|[k a] r IH]; cbn [forallb reward_of fst snd]; intro H; [lia|].
  apply andb_true_iff in H as [H1 H2]. apply andb_true_iff in H1 as [_ Ha].
  destruct (bytes_eqb k d); [lia | apply IH; exact H2].
Qed.

(** ** One block *)
Definition step_spec (p : params) (s s' : state) : Prop :=
  (forall d, get (pool s') d = get (pool s) d - Z.min (reward_of (rewards p) d) (get (pool s) d)) /\
  (forall d, get (fee s') d = get (fee s) d + Z.min (reward_of (rewards p) d) (get (pool s) d)) /\
  others s' = others s /\ supply s' = supply s.

Lemma begin_block_enabled p s :
  enable p = true -> validate_rewards (rewards p) = true -> pool_ok s ->
  exists s', begin_block p s = Ok s' /\ step_spec p s s'.
Proof.
  intros He Hv Hp. apply validate_rewards_parts in Hv as (_ & Hfa & Hnd).
  destruct (choose_all_valid (pool s) (rewards p) Hp Hfa Hnd) as (ch & Hch & Htot & Hsub).
  unfold begin_block. rewrite He, Hch. cbn [negb].
  set (ds := distinct (map fst ch)).
  destruct (forallb (fun d => vtotal ch d =? 0) ds) eqn:Ez.
  - exists s. split; [reflexivity|]. unfold step_spec. repeat split; try reflexivity; intro d.
    + destruct (in_dec bytes_eq_dec d ds) as [Hin|Hnin].
      * rewrite forallb_forall in Ez. specialize (Ez d Hin). apply Z.eqb_eq in Ez. rewrite <- Htot, Ez. lia.
      * unfold ds in Hnin. rewrite distinct_In in Hnin. rewrite <- Htot, vtotal_notin by exact Hnin. lia.
    + destruct (in_dec bytes_eq_dec d ds) as [Hin|Hnin].
      * rewrite forallb_forall in Ez. specialize (Ez d Hin). apply Z.eqb_eq in Ez. rewrite <- Htot, Ez. lia.
      * unfold ds in Hnin. rewrite distinct_In in Hnin. rewrite <- Htot, vtotal_notin by exact Hnin. lia.
  - assert (E1 : existsb (fun d => vtotal ch d <? 0) ds = false).
    { apply not_true_iff_false. intro H. apply existsb_exists in H as (d & _ & H). apply Z.ltb_lt in H.
      rewrite Htot in H. pose proof (reward_of_nonneg (rewards p) d Hfa). specialize (Hp d). lia. }
    assert (E2 : existsb (fun d => negb (valid_denom d)) ds = false).
    { apply not_true_iff_false. intro H. apply existsb_exists in H as (d & Hin & H).
      unfold ds in Hin. rewrite distinct_In in Hin. apply Hsub in Hin.
      rewrite (rewards_valid_denoms _ _ Hfa Hin) in H. discriminate. }
    assert (E3 : existsb (fun d => get (pool s) d <? vtotal ch d) ds = false).
    { apply not_true_iff_false. intro H. apply existsb_exists in H as (d & _ & H). apply Z.ltb_lt in H.
      rewrite Htot in H. lia. }
    rewrite E1, E2, E3. exists (send_vested ch s). split; [reflexivity|].
    unfold step_spec. split; [|split].
    + intro d. rewrite send_vested_pool, Htot. reflexivity.
    + intro d. rewrite send_vested_fee, Htot. reflexivity.
    + apply send_vested_rest.
Qed.

Lemma begin_block_disabled p s : enable p = false -> begin_block p s = Ok s.
Proof. intro H. unfold begin_block. rewrite H. reflexivity. Qed.

Lemma step_spec_pool_ok p s s' : pool_ok s -> step_spec p s s' -> pool_ok s'.
Proof. intros Hp (H1 & _) d. rewrite H1. specialize (Hp d). lia. Qed.

(** Empty pool: nothing moves. *)
Lemma step_spec_empty p s s' d : pool_ok s -> step_spec p s s' ->
  forallb (fun c => valid_denom (fst c) && (0 <=? snd c)) (rewards p) = true ->
  get (pool s) d = 0 -> get (pool s') d = 0 /\ get (fee s') d = get (fee s) d.
Proof.
  intros Hp (H1 & H2 & _) Hfa H0. rewrite H1, H2, H0. pose proof (reward_of_nonneg (rewards p) d Hfa). lia.
Qed.

(** ** Histories *)
Definition params_ok (p : params) : Prop := validate_rewards (rewards p) = true.

Lemma apply_change_ok p b : params_ok p -> params_ok (apply_change p b).
Proof.
  unfold params_ok, apply_change. intro H.
  destruct (set_rewards b) as [r|]; [destruct (validate_rewards r) eqn:E|]; destruct (set_enable b); cbn; assumption.
Qed.

(** Conservation between pool and fee collector, per denomination. *)
Definition total (s : state) (d : bytes) : Z := get (pool s) d + get (fee s) d.

Lemma run_invariant bs : forall p s,
  params_ok p -> pool_ok s ->
  exists p' s', run bs p s = Ok (p', s') /\ params_ok p' /\ pool_ok s' /\
    (forall d, total s' d = total s d) /\
    (forall d, get (pool s') d <= get (pool s) d) /\
    (forall d, get (fee s) d <= get (fee s') d) /\
    others s' = others s /\ supply s' = supply s.
Proof.
  induction bs as [|b bs IH]; intros p s Hpar Hpool; cbn [run].
  - exists p, s. repeat split; try assumption; try reflexivity; intro d; lia.
  - pose proof (apply_change_ok p b Hpar) as Hpar'.
    set (p1 := apply_change p b) in *.
    assert (Hstep : exists s1, begin_block p1 s = Ok s1 /\ pool_ok s1 /\
              (forall d, total s1 d = total s d) /\ (forall d, get (pool s1) d <= get (pool s) d) /\
              (forall d, get (fee s) d <= get (fee s1) d) /\ others s1 = others s /\ supply s1 = supply s).
    { destruct (enable p1) eqn:He.
      - destruct (begin_block_enabled p1 s He Hpar' Hpool) as (s1 & Hb & Hspec).
        exists s1. split; [exact Hb|]. split; [eapply step_spec_pool_ok; eauto|].
        destruct Hspec as (H1 & H2 & H3 & H4).
        apply validate_rewards_parts in Hpar' as (_ & Hfa & _).
        repeat split; try assumption; intro d; unfold total; rewrite ?H1, ?H2;
          pose proof (reward_of_nonneg (rewards p1) d Hfa); specialize (Hpool d); lia.
      - exists s. rewrite begin_block_disabled by exact He. repeat split; try assumption; try reflexivity; intro d; lia. }
    destruct Hstep as (s1 & Hb & Hp1 & Ht1 & Hle1 & Hfe1 & Ho1 & Hs1). rewrite Hb.
    destruct (IH p1 s1 Hpar' Hp1) as (p' & s' & Hrun & Hpar2 & Hp2 & Ht2 & Hle2 & Hfe2 & Ho2 & Hs2).
    exists p', s'. split; [exact Hrun|]. split; [exact Hpar2|]. split; [exact Hp2|].
    split; [intro d; rewrite Ht2; apply Ht1|].
    split; [intro d; specialize (Hle1 d); specialize (Hle2 d); lia|].
    split; [intro d; specialize (Hfe1 d); specialize (Hfe2 d); lia|].
    split; congruence.
Qed.

(** ** The monitor evaluated on implementation traces accepts every step the
    model takes (so a monitor failure on a trace that agrees with the model is
    impossible: monitor failures are real deviations from the property). *)
From Teleport Require Import Model.RvestingCheck.

Lemma check_amounts_sound p s s' ds :
  pool_ok s ->
  forallb (fun c => valid_denom (fst c) && (0 <=? snd c)) (rewards p) = true ->
  (if enable p then step_spec p s s' else s' = s) ->
  check_amounts p ds (proj (pool s) ds) (proj (fee s) ds) (proj (pool s') ds) (proj (fee s') ds) = true.
Proof.
  intros Hp Hfa Hs. unfold proj. induction ds as [|d ds IH]; cbn [map check_amounts]; [reflexivity|].
  rewrite IH, andb_true_r. unfold expected_move.
  pose proof (reward_of_nonneg (rewards p) d Hfa) as Hr. pose proof (Hp d) as Hd.
  destruct (enable p).
  - destruct Hs as (H1 & H2 & _). rewrite H1, H2.
    rewrite !Z.eqb_refl. cbn [andb]. apply Z.leb_le. lia.
  - subst s'. rewrite !Z.sub_0_r, !Z.add_0_r, !Z.eqb_refl. cbn [andb]. apply Z.leb_le. lia.
Qed.

(** ** Additions (audit): state-equal no-op on an empty pool, exactness of every block inside a history,
    closed form of the schedule. *)

(** The pool holds none of the reward denominations: BeginBlocker returns the state itself. *)
Lemma begin_block_empty_noop p s :
  validate_rewards (rewards p) = true -> pool_ok s ->
  (forall d, In d (map fst (rewards p)) -> get (pool s) d = 0) ->
  begin_block p s = Ok s.
Proof.
  intros Hv Hp H0. destruct (enable p) eqn:He; [|apply begin_block_disabled; exact He].
  apply validate_rewards_parts in Hv as (_ & Hfa & Hnd).
  destruct (choose_all_valid (pool s) (rewards p) Hp Hfa Hnd) as (ch & Hch & Htot & Hsub).
  unfold begin_block. rewrite He, Hch. cbn [negb].
  replace (forallb (fun d => vtotal ch d =? 0) (distinct (map fst ch))) with true; [reflexivity|].
  symmetry. apply forallb_forall. intros d Hin. rewrite distinct_In in Hin. apply Hsub in Hin.
  apply Z.eqb_eq. rewrite Htot, (H0 d Hin). pose proof (reward_of_nonneg (rewards p) d Hfa). lia.
Qed.

Lemma run_app bs1 : forall bs2 p s,
  run (bs1 ++ bs2) p s = match run bs1 p s with Ok (p1, s1) => run bs2 p1 s1 | Err => Err | Panic => Panic end.
Proof.
  induction bs1 as [|b bs1 IH]; intros bs2 p s; cbn [app run]; [reflexivity|].
  destruct (begin_block (apply_change p b) s); try reflexivity. apply IH.
Qed.

(** The relation one block must satisfy (the statement of the property for one block). *)
Definition block_exact (p : params) (s s' : state) : Prop :=
  if enable p then step_spec p s s' else s' = s.

(** EVERY block of EVERY history is exact for the parameters in force at that block. *)
Lemma run_every_block_exact bs1 b bs2 p s :
  params_ok p -> pool_ok s ->
  exists p1 s1 s2, run bs1 p s = Ok (p1, s1) /\ params_ok p1 /\ pool_ok s1 /\
    begin_block (apply_change p1 b) s1 = Ok s2 /\ block_exact (apply_change p1 b) s1 s2 /\
    run (bs1 ++ b :: bs2) p s = run bs2 (apply_change p1 b) s2.
Proof.
  intros Hpar Hpool. destruct (run_invariant bs1 p s Hpar Hpool) as (p1 & s1 & Hrun & Hpar1 & Hp1 & _).
  pose proof (apply_change_ok p1 b Hpar1) as Hpar'.
  assert (Hs : exists s2, begin_block (apply_change p1 b) s1 = Ok s2 /\ block_exact (apply_change p1 b) s1 s2).
  { unfold block_exact. destruct (enable (apply_change p1 b)) eqn:He.
    - destruct (begin_block_enabled _ s1 He Hpar' Hp1) as (s2 & Hb & Hspec). exists s2. split; assumption.
    - exists s1. split; [apply begin_block_disabled; exact He|reflexivity]. }
  destruct Hs as (s2 & Hb & Hex). exists p1, s1, s2. repeat split; try assumption.
  rewrite run_app, Hrun. cbn [run]. rewrite Hb. reflexivity.
Qed.

Definition noop_block : block := {| set_enable := None; set_rewards := None |}.

(** Closed form: n blocks under constant enabled parameters leave max(0, pool - n*reward) in the pool, the
    difference sits in the fee collector. *)
Lemma run_closed_form n : forall p s,
  enable p = true -> params_ok p -> pool_ok s ->
  exists s', run (repeat noop_block n) p s = Ok (p, s') /\
    (forall d, get (pool s') d = Z.max 0 (get (pool s) d - Z.of_nat n * reward_of (rewards p) d)) /\
    (forall d, get (fee s') d = get (fee s) d + (get (pool s) d - get (pool s') d)) /\
    others s' = others s /\ supply s' = supply s.
Proof.
  induction n as [|n IH]; intros p s He Hpar Hpool; cbn [repeat run].
  - exists s. split; [reflexivity|]. repeat split; try reflexivity; intro d; specialize (Hpool d); lia.
  - change (apply_change p noop_block) with p.
    destruct (begin_block_enabled p s He Hpar Hpool) as (s1 & -> & Hspec).
    pose proof (step_spec_pool_ok p s s1 Hpool Hspec) as Hp1. destruct Hspec as (H1 & H2 & H3 & H4).
    destruct (IH p s1 He Hpar Hp1) as (s' & Hrun & Q1 & Q2 & Q3 & Q4).
    exists s'. split; [exact Hrun|]. apply validate_rewards_parts in Hpar as (_ & Hfa & _).
    split; [|split; [|split; congruence]].
    + intro d. rewrite Q1, H1. pose proof (reward_of_nonneg (rewards p) d Hfa) as Hr. specialize (Hpool d).
      rewrite Nat2Z.inj_succ, Z.mul_succ_l.
      assert (0 <= Z.of_nat n * reward_of (rewards p) d) by (apply Z.mul_nonneg_nonneg; lia). lia.
    + intro d. rewrite Q2, H2, H1. lia.
Qed.

(** A positive reward drains the pool of that denomination in finitely many blocks. *)
Lemma pool_drains p s d :
  enable p = true -> params_ok p -> pool_ok s -> 0 < reward_of (rewards p) d ->
  exists n s', run (repeat noop_block n) p s = Ok (p, s') /\ get (pool s') d = 0 /\
               get (fee s') d = get (fee s) d + get (pool s) d.
Proof.
  intros He Hpar Hpool Hr. exists (Z.to_nat (get (pool s) d)).
  destruct (run_closed_form (Z.to_nat (get (pool s) d)) p s He Hpar Hpool) as (s' & Hrun & H1 & H2 & _).
  exists s'. split; [exact Hrun|]. specialize (Hpool d).
  assert (E : get (pool s') d = 0). { rewrite H1, Z2Nat.id by exact Hpool. nia. }
  split; [exact E|]. rewrite H2, E. lia.
Qed.
