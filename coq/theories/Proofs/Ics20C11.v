(** Agreement between the two independently written models of x/aggregate/keeper/ibc_hook.go:
      - property C16's [hook] (Model/Ics20.v: every return path, any conversion function), and
      - property C11's [hook_recv] (Model/Convert.v: from the decoded packet on, ConvertCoin over ADVERSARIAL token
        contracts, EVM call gates, auth accounts, nil-pointer panics).
    C16's generic hook instantiated with C11's ConvertCoin IS C11's hook on their common domain (a decoded packet with
    a 20-byte receiver).  Consequences: every generic theorem of Props/C16.v holds for the middleware around C11's
    conversion, and C11's all-or-nothing / exactness theorems hold for what the C16 middleware does — for arbitrary
    (hostile) ERC-20 contracts, not only the standard ones of C16's own [convert_coin]. *)
From Coq Require Import List ZArith Bool Lia.
From Teleport Require Import Base.Bytes Base.Outcome Model.Convert Model.Ics20 Proofs.Ics20 Proofs.ConvertExact
  Proofs.ConvertHook.
Import ListNotations.
Local Open Scope Z_scope.

(** an address as C11 represents it: the big-endian number of the 20 bytes *)
Definition addr_of (b : bytes) : Z := fold_left (fun acc c => acc * 256 + Z.of_N (Byte.to_N c)) b 0.

Lemma addr_fold_bound : forall b acc, 0 <= acc ->
  0 <= fold_left (fun acc c => acc * 256 + Z.of_N (Byte.to_N c)) b acc < (acc + 1) * 256 ^ Z.of_nat (length b).
Proof.
  induction b as [|c b IH]; intros acc Hacc.
  - cbn [fold_left length]. change (256 ^ Z.of_nat 0) with 1. lia.
  - cbn [fold_left length]. pose proof (Byte.to_N_bounded c) as Hc.
    assert (H0 : 0 <= acc * 256 + Z.of_N (Byte.to_N c)) by lia.
    specialize (IH _ H0). rewrite Nat2Z.inj_succ, Z.pow_succ_r by lia.
    assert (Hp : 0 < 256 ^ Z.of_nat (length b)) by (apply Z.pow_pos_nonneg; lia).
    destruct IH as [IH1 IH2]. split; [exact IH1|].
    eapply Z.lt_le_trans; [exact IH2|].
    assert (Hle : acc * 256 + Z.of_N (Byte.to_N c) + 1 <= (acc + 1) * 256) by lia.
    replace ((acc + 1) * (256 * 256 ^ Z.of_nat (length b))) with (((acc + 1) * 256) * 256 ^ Z.of_nat (length b)) by ring.
    apply Z.mul_le_mono_nonneg_r; lia.
Qed.

Lemma addr_of_bound : forall b, length b = 20%nat -> 0 <= addr_of b < 2 ^ 160.
Proof.
  intros b H. unfold addr_of. pose proof (addr_fold_bound b 0 (Z.le_refl 0)) as Hb. rewrite H in Hb.
  change ((0 + 1) * 256 ^ Z.of_nat 20) with (2 ^ 160) in Hb. exact Hb.
Qed.

(** the two transcriptions of sdk.ValidateDenom are the same function *)
Lemma valid_denom_same : forall d, Ics20.valid_denom d = Convert.valid_denom d.
Proof. reflexivity. Qed.

Section C11.
  Variable X : Type.
  Variable xcall : X -> Z -> Z -> call -> X * cres.
  Variable xcontract : X -> Z -> bool.
  Variable MODULEZ : Z.
  Variable sha256 : bytes -> bytes.
  Variable decode : bytes -> option ftpd.
  Variable parse_int : bytes -> option Z.
  Variable from_bech32 : bytes -> option bytes.

  Notation state11 := (Convert.state X).

  (** C11's ConvertCoin as the conversion of C16's hook: MsgConvertCoin{Coin, Receiver = Address.Hex(), Sender} *)
  Definition c11_convert (s : state11) (m : conv_msg) : outcome state11 :=
    Convert.convert_coin xcall xcontract MODULEZ s
      {| cc_denom := cm_denom m; cc_amount := cm_amount m;
         cc_receiver := hex_of_addr (addr_of (cm_receiver m));
         cc_sender := addr_of (cm_sender m); cc_sender_ok := true |}.

  Definition c11_registered (s : state11) (d : bytes) : bool := denom_registered s d.

  Notation hook16 := (Ics20.hook state11 sha256 decode parse_int from_bech32 c11_registered c11_convert).
  Notation mw16 := (Ics20.middleware state11 sha256 decode parse_int from_bech32 c11_registered c11_convert).
  Notation hook11 := (Convert.hook_recv xcall xcontract MODULEZ).
  Notation recv_of := (hook_receiver from_bech32).

  (** ** The two hooks agree.  [hook_recv]'s classes: 0 converted and written, 1 returned without converting,
      2 panicked. *)
  Theorem hook_agrees_with_c11 : forall s pkt a d amt,
    decode (pk_data pkt) = Some d -> parse_int (fd_amount d) = Some amt ->
    length (recv_of d) = 20%nat ->
    let r := addr_of (recv_of d) in
    let dn := ibc_denom sha256 (pk_dport pkt) (pk_dchan pkt) (fd_denom d) in
    hook16 s pkt a =
    match hook11 s r dn amt with
    | (s', 0%nat) => Ok (s', Some a, HConverted)
    | (_, 1%nat) => Ok (s, Some a, if denom_registered s dn then HConvertErr else HNotRegistered)
    | _ => Panic
    end.
  Proof.
    intros s pkt a d amt Ed Ea Hl r dn. unfold Ics20.hook, Ics20.hook_gen. rewrite Ed, Ea, Hl. cbn [Nat.eqb negb andb].
    change (Nat.eqb 20 20) with true. cbn [negb andb].
    unfold Convert.hook_recv, c11_registered.
    change (cm_denom (Ics20.hook_msg sha256 from_bech32 pkt d amt)) with dn.
    destruct (denom_registered s dn) eqn:Er; cbn [negb]; [|reflexivity].
    rewrite valid_denom_same, orb_comm.
    destruct (negb (Convert.valid_denom dn) || (amt <? 0)); [reflexivity|].
    assert (Em : c11_convert s (Ics20.hook_msg sha256 from_bech32 pkt d amt) =
                 Convert.convert_coin xcall xcontract MODULEZ s (Convert.hook_msg r dn amt)).
    { unfold c11_convert, Ics20.hook_msg, Convert.hook_msg. cbn [cm_denom cm_amount cm_receiver cm_sender].
      rewrite (evm_addr_20 _ Hl). reflexivity. }
    rewrite Em. destruct (Convert.convert_coin xcall xcontract MODULEZ s (Convert.hook_msg r dn amt)); reflexivity.
  Qed.

  (** ** C11's theorems carried over to the C16 middleware (any wrapped application, hostile tokens) *)
  Section Stack.
    Variable transfer_recv : state11 -> packet -> outcome (state11 * ack).

    (** after the middleware: the wrapped application's state, bit for bit, or the state C11's hook produced with
        class 0 for (receiver, voucher of the packet, packet amount) *)
    Theorem middleware_is_c11_hook : forall st pkt st1 a st2 oa hp,
      transfer_recv st pkt = Ok (st1, a) ->
      mw16 transfer_recv st pkt = Ok (st2, oa, hp) ->
      oa = Some a /\
      ((st2 = st1 /\ hp <> Some HConverted) \/
       (hp = Some HConverted /\ ack_success a = true /\ exists d amt,
          decode (pk_data pkt) = Some d /\ parse_int (fd_amount d) = Some amt /\ 0 <= amt /\
          length (recv_of d) = 20%nat /\ 0 <= addr_of (recv_of d) < 2 ^ 160 /\
          hook11 st1 (addr_of (recv_of d)) (ibc_denom sha256 (pk_dport pkt) (pk_dchan pkt) (fd_denom d)) amt = (st2, 0%nat))).
    Proof.
      intros st pkt st1 a st2 oa hp Et Hm. split.
      - destruct (middleware_transparent _ _ _ _ _ _ _ _ _ _ _ _ _ Hm) as (s1' & a' & Et' & Eo).
        rewrite Et in Et'. inversion Et'; subst. reflexivity.
      - destruct (middleware_state _ _ _ _ _ _ _ _ _ _ _ _ _ _ _ Et Hm)
          as [[E Hp]|(Hp & Hs & d & amt & Ed & Ea & Hpos & Hl & Hreg & Hc)]; [left; auto|right].
        split; [exact Hp|]. split; [exact Hs|]. exists d, amt. repeat split; auto; try (apply addr_of_bound; exact Hl).
        unfold Convert.hook_recv.
        change (cm_denom (Ics20.hook_msg sha256 from_bech32 pkt d amt))
          with (ibc_denom sha256 (pk_dport pkt) (pk_dchan pkt) (fd_denom d)) in Hreg.
        unfold c11_registered in Hreg. rewrite Hreg. cbn [negb].
        (* the hook went past sdk.NewCoin, so the denomination is valid and the amount not negative *)
        unfold Ics20.middleware, middleware_gen in Hm. rewrite Et, Hs in Hm. cbn [negb] in Hm.
        destruct (hook16 st1 pkt a) as [[[s o] q]| |] eqn:Eh; try discriminate.
        rewrite (hook_agrees_with_c11 _ _ _ _ _ Ed Ea Hl) in Eh. cbv zeta in Eh.
        unfold Convert.hook_recv in Eh. rewrite Hreg in Eh. cbn [negb] in Eh.
        destruct (negb (Convert.valid_denom _) || (amt <? 0)); [discriminate|].
        assert (Em : c11_convert st1 (Ics20.hook_msg sha256 from_bech32 pkt d amt) =
                     Convert.convert_coin xcall xcontract MODULEZ st1
                       (Convert.hook_msg (addr_of (recv_of d)) (ibc_denom sha256 (pk_dport pkt) (pk_dchan pkt) (fd_denom d)) amt)).
        { unfold c11_convert, Ics20.hook_msg, Convert.hook_msg. cbn [cm_denom cm_amount cm_receiver cm_sender].
          rewrite (evm_addr_20 _ Hl). reflexivity. }
        rewrite Em in Hc. rewrite Hc. reflexivity.
    Qed.
  End Stack.
End C11.
