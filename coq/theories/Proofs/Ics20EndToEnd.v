(** C16 end to end: the aggregate middleware around the CONCRETE model of ibc-go's transfer application
    (Model/Ics20Transfer.v), from the state before the packet to the state after the middleware — no
    state-transforming oracle is left, only the pure string functions (JSON codec, NewIntFromString, bech32, sha256,
    ValidatePrefixedDenom). *)
From Coq Require Import List ZArith Bool Lia.
From Teleport Require Import Base.Bytes Base.Outcome Model.Ics20 Model.Ics20Transfer Proofs.Ics20 Proofs.Ics20Convert.
Import ListNotations.
Local Open Scope Z_scope.

(** only the bank balances differ *)
Definition bank_only (s s' : cstate) : Prop :=
  c_supply s' = c_supply s /\ c_tokens s' = c_tokens s /\ c_tok_total s' = c_tok_total s /\
  same_registry s s' /\ same_config s s'.

Lemma bank_only_refl : forall s, bank_only s s.
Proof. intros s. unfold bank_only, same_registry, same_config. tauto. Qed.

Lemma bank_only_trans : forall a b c, bank_only a b -> bank_only b c -> bank_only a c.
Proof.
  unfold bank_only, same_registry, same_config.
  intros a b c (A1 & A2 & A3 & (A4 & A5 & A6) & (A7 & A8 & A9 & A10)) (B1 & B2 & B3 & (B4 & B5 & B6) & (B7 & B8 & B9 & B10)).
  repeat split; congruence.
Qed.

Lemma add_bal_spec : forall s acct d a s',
  add_bal s acct d a = Ok s' ->
  bal s' acct d = bal s acct d + a /\
  (forall x y, (x, y) <> (acct, d) -> bal s' x y = bal s x y) /\ bank_only s s'.
Proof.
  intros s acct d a s' H. unfold add_bal in H.
  destruct (W256 <=? bal s acct d + a); [discriminate|]. inversion H; subst s'; clear H.
  unfold bal. cbn [c_bank with_funds]. repeat split.
  - keys.
  - intros x y Hxy. keys.
Qed.

Lemma sub_bal_spec : forall s acct d a s',
  sub_bal s acct d a = Ok s' ->
  a <= bal s acct d /\ bal s' acct d = bal s acct d - a /\
  (forall x y, (x, y) <> (acct, d) -> bal s' x y = bal s x y) /\ bank_only s s'.
Proof.
  intros s acct d a s' H. unfold sub_bal in H.
  destruct (bal s acct d <? a) eqn:E; [discriminate|]. apply Z.ltb_ge in E. inversion H; subst s'; clear H.
  unfold bal in *. cbn [c_bank with_funds]. repeat split.
  - exact E.
  - keys.
  - intros x y Hxy. keys.
Qed.

(** SendCoins between two DIFFERENT accounts *)
Lemma send_bal_spec : forall s from to d a s',
  from <> to ->
  send_bal s from to d a = Ok s' ->
  a <= bal s from d /\
  bal s' from d = bal s from d - a /\ bal s' to d = bal s to d + a /\
  (forall x y, (x, y) <> (from, d) -> (x, y) <> (to, d) -> bal s' x y = bal s x y) /\ bank_only s s'.
Proof.
  intros s from to d a s' Hne H. unfold send_bal in H. cbn [obind] in H.
  destruct (sub_bal s from d a) as [s1| |] eqn:E1; cbn [obind] in H; try discriminate.
  destruct (sub_bal_spec _ _ _ _ _ E1) as (Hle & Hf & Hr1 & Hb1).
  destruct (add_bal_spec _ _ _ _ _ H) as (Ht & Hr2 & Hb2).
  split; [exact Hle|]. split.
  - rewrite Hr2 by (intros X; inversion X; congruence). exact Hf.
  - split.
    + rewrite Ht. rewrite Hr1 by (intros X; inversion X; congruence). reflexivity.
    + split.
      * intros x y H1 H2. rewrite Hr2 by exact H2. apply Hr1. exact H1.
      * eapply bank_only_trans; eassumption.
Qed.

Lemma send_bal_only : forall s from to d a s', send_bal s from to d a = Ok s' -> bank_only s s'.
Proof.
  intros s from to d a s' H. unfold send_bal in H. cbn [obind] in H.
  destruct (sub_bal s from d a) as [s1| |] eqn:E1; cbn [obind] in H; try discriminate.
  destruct (sub_bal_spec _ _ _ _ _ E1) as (_ & _ & _ & Hb1).
  destruct (add_bal_spec _ _ _ _ _ H) as (_ & _ & Hb2).
  eapply bank_only_trans; eassumption.
Qed.

Section EndToEnd.
  Variable MODULE : bytes.
  Variable sha256 : bytes -> bytes.
  Variable decode : bytes -> option ftpd.
  Variable parse_int : bytes -> option Z.
  Variable from_bech32 : bytes -> option bytes.
  Variable denom_ok : bytes -> bool.
  Variable err_ack : packet -> bytes.
  Variable recv_enabled : bool.
  Variable TMODULE : bytes.
  Variable escrow_of : bytes -> bytes -> bytes.

  Notation ctransfer := (ctransfer sha256 decode parse_int from_bech32 denom_ok err_ack recv_enabled TMODULE escrow_of).
  Notation keeper_recv := (keeper_recv sha256 parse_int from_bech32 denom_ok recv_enabled TMODULE escrow_of).
  Notation mint_bal := (mint_bal TMODULE).

  (** the whole receive path of app.go's transfer stack: aggregate middleware around the transfer application *)
  Definition full_stack : cstate -> packet -> outcome (cstate * option ack * option hook_path) :=
    middleware cstate sha256 decode parse_int from_bech32 c_is_registered (convert_coin MODULE) ctransfer.

  (** [amt] coins of [v] were created and credited to [r]; nothing else differs *)
  Record minted (s s1 : cstate) (r v : bytes) (amt : Z) : Prop := {
    mt_recv : bal s1 r v = bal s r v + amt;
    mt_supply : get1 (c_supply s1) v = get1 (c_supply s) v + amt;
    mt_bank_rest : forall a d, (a, d) <> (r, v) -> bal s1 a d = bal s a d;
    mt_supply_rest : forall d, d <> v -> get1 (c_supply s1) d = get1 (c_supply s) d;
    mt_tokens : c_tokens s1 = c_tokens s;
    mt_total : c_tok_total s1 = c_tok_total s;
    mt_registry : same_registry s s1;
    mt_config : same_config s s1 }.

  (** [amt] coins of [g] moved from the channel's escrow account [esc] to [r]; nothing else differs *)
  Record released (s s1 : cstate) (esc r g : bytes) (amt : Z) : Prop := {
    rl_escrowed : amt <= bal s esc g;
    rl_esc : bal s1 esc g = bal s esc g - amt;
    rl_recv : bal s1 r g = bal s r g + amt;
    rl_bank_rest : forall a d, (a, d) <> (esc, g) -> (a, d) <> (r, g) -> bal s1 a d = bal s a d;
    rl_only : bank_only s s1 }.

  Lemma mint_bal_spec : forall s d a s1,
    mint_bal s d a = Ok s1 ->
    bal s1 TMODULE d = bal s TMODULE d + a /\
    (forall x y, (x, y) <> (TMODULE, d) -> bal s1 x y = bal s x y) /\
    get1 (c_supply s1) d = get1 (c_supply s) d + a /\
    (forall d', d' <> d -> get1 (c_supply s1) d' = get1 (c_supply s) d') /\
    c_tokens s1 = c_tokens s /\ c_tok_total s1 = c_tok_total s /\ same_registry s s1 /\ same_config s s1.
  Proof.
    intros s d a s1 H. unfold Ics20Transfer.mint_bal in H. cbn [obind] in H.
    destruct (add_bal s TMODULE d a) as [s0| |] eqn:E; cbn [obind] in H; try discriminate.
    destruct (add_bal_spec _ _ _ _ _ E) as (H1 & H2 & (B1 & B2 & B3 & B4 & B5)).
    destruct (W256 <=? _); [discriminate|]. inversion H; subst s1; clear H.
    unfold bal in *. cbn [c_bank c_supply c_tokens c_tok_total with_funds].
    split; [exact H1|]. split; [exact H2|]. rewrite B1. split; [keys|]. split; [intros d' Hd; keys|].
    split; [exact B2|]. split; [exact B3|]. split.
    - destruct B4 as (R1 & R2 & R3). unfold same_registry. cbn. auto.
    - destruct B5 as (C1 & C2 & C3 & C4). unfold same_config. cbn. auto.
  Qed.

  (** ** What a SUCCESSFUL receive of the transfer application did *)
  Lemma keeper_recv_ok : forall s p d s1,
    mem1 TMODULE (c_blocked s) = true ->
    keeper_recv s p d = Ok (s1, true) ->
    exists amt r,
      parse_int (fd_amount d) = Some amt /\ from_bech32 (fd_receiver d) = Some r /\ 0 < amt /\
      mem1 r (c_blocked s) = false /\
      let g := received_denom sha256 p d in
      valid_denom g = true /\
      if receiver_chain_is_source (pk_sport p) (pk_schan p) (fd_denom d)
      then (escrow_of (pk_dport p) (pk_dchan p) = r /\ bank_only s s1) \/
           released s s1 (escrow_of (pk_dport p) (pk_dchan p)) r g amt
      else minted s s1 r g amt.
  Proof.
    intros s p d s1 Hblk H. unfold Ics20Transfer.keeper_recv in H.
    destruct (ftpd_valid parse_int denom_ok d) eqn:Ev; cbn [negb] in H; [|discriminate].
    destruct recv_enabled; cbn [negb] in H; [|discriminate].
    destruct (from_bech32 (fd_receiver d)) as [r|] eqn:Er; [|discriminate].
    unfold ftpd_valid in Ev.
    destruct (parse_int (fd_amount d)) as [amt|] eqn:Ea; [|discriminate].
    apply andb_true_iff in Ev. destruct Ev as [Ev _]. apply andb_true_iff in Ev. destruct Ev as [Ev _].
    apply andb_true_iff in Ev. destruct Ev as [Hpos _]. apply Z.ltb_lt in Hpos.
    exists amt, r. split; [reflexivity|]. split; [reflexivity|]. split; [exact Hpos|].
    destruct (receiver_chain_is_source (pk_sport p) (pk_schan p) (fd_denom d)) eqn:Eret.
    - destruct (valid_denom (received_denom sha256 p d)) eqn:Evd; cbn [negb] in H; [|discriminate].
      destruct (mem1 r (c_blocked s)) eqn:Eb; [discriminate|].
      split; [reflexivity|]. cbv zeta. split; [exact Evd|].
      destruct (send_bal s _ r _ amt) as [s'| |] eqn:Es; try discriminate. inversion H; subst s'; clear H.
      destruct (bytes_eqb (escrow_of (pk_dport p) (pk_dchan p)) r) eqn:Ee.
      + left. apply bytes_eqb_eq in Ee. split; [exact Ee|]. eapply send_bal_only; exact Es.
      + right. apply bytes_eqb_neq in Ee.
        destruct (send_bal_spec _ _ _ _ _ _ Ee Es) as (Hle & Hf & Ht & Hr & Hb).
        constructor; assumption.
    - destruct (valid_denom (received_denom sha256 p d)) eqn:Evd; cbn [negb] in H; [|discriminate].
      destruct (mint_bal s _ amt) as [s0| |] eqn:Em; try discriminate.
      destruct (mint_bal_spec _ _ _ _ Em) as (M1 & M2 & M3 & M4 & M5 & M6 & M7 & M8).
      assert (Hb0 : c_blocked s0 = c_blocked s) by (destruct M8 as (_ & _ & X & _); exact X).
      rewrite Hb0 in H.
      destruct (mem1 r (c_blocked s)) eqn:Eb; [discriminate|].
      split; [reflexivity|]. cbv zeta. split; [exact Evd|].
      destruct (send_bal s0 TMODULE r _ amt) as [s'| |] eqn:Es; try discriminate. inversion H; subst s'; clear H.
      assert (Hne : TMODULE <> r) by (intros X; subst r; congruence).
      destruct (send_bal_spec _ _ _ _ _ _ Hne Es) as (Hle & Hf & Ht & Hr & (B1 & B2 & B3 & B4 & B5)).
      set (g := received_denom sha256 p d) in *.
      constructor.
      + rewrite Ht. rewrite M2 by (intros X; inversion X; congruence). reflexivity.
      + rewrite B1. exact M3.
      + intros a0 d0 Hk.
        destruct (key2_eqb (a0, d0) (TMODULE, g)) eqn:Ek.
        * apply key2_eqb_eq in Ek. inversion Ek; subst a0 d0. rewrite Hf, M1. lia.
        * apply key2_eqb_false in Ek. rewrite Hr by assumption. apply M2. exact Ek.
      + intros d' Hd'. rewrite B1. apply M4. exact Hd'.
      + congruence.
      + congruence.
      + destruct M7 as (R1 & R2 & R3). destruct B4 as (R4 & R5 & R6). unfold same_registry. repeat split; congruence.
      + destruct M8 as (C1 & C2 & C3 & C4). destruct B5 as (C5 & C6 & C7 & C8). unfold same_config. repeat split; congruence.
  Qed.

  (** the concrete transfer application meets the oracle hypothesis of the generic no-panic theorem *)
  Lemma ctransfer_sound : transfer_sound cstate decode parse_int ctransfer.
  Proof.
    intros st pkt st1 a H Hs. unfold Ics20Transfer.ctransfer in H.
    destruct (decode (pk_data pkt)) as [d|] eqn:Ed.
    2:{ inversion H; subst. discriminate Hs. }
    destruct (keeper_recv st pkt d) as [[s' [|]]| |] eqn:Ek; try discriminate.
    2:{ inversion H; subst. discriminate Hs. }
    exists d. unfold Ics20Transfer.keeper_recv in Ek.
    destruct (ftpd_valid parse_int denom_ok d) eqn:Ev; cbn [negb] in Ek; [|discriminate].
    unfold ftpd_valid in Ev. destruct (parse_int (fd_amount d)) as [amt|]; [|discriminate].
    exists amt. split; [reflexivity|]. split; [reflexivity|].
    apply andb_true_iff in Ev. destruct Ev as [Ev _]. apply andb_true_iff in Ev. destruct Ev as [Ev _].
    apply andb_true_iff in Ev. destruct Ev as [Hpos _]. apply Z.ltb_lt in Hpos. exact Hpos.
  Qed.

  (** ** End to end.  For ALL packets and ALL states in which the two module accounts are blocked addresses
      (app.go BlockedAddrs): whenever the stack returns,
      - the acknowledgement is the transfer application's: either the error acknowledgement, and then the hook did not
        run (ibc-go core then restores the state before the packet, [C16_core_commits_transfer_ack]), or the result
        acknowledgement {"result":"AQ=="};
      - after a result acknowledgement the transfer application credited the receiver exactly the packet amount
        ([minted] vouchers, or coins [released] from the channel escrow) and NOTHING else, and the middleware then left
        that state alone or performed the full conversion of exactly that amount ([after_middleware]). *)
  Theorem end_to_end : forall st pkt st2 oa hp,
    length MODULE = 20%nat ->
    mem1 MODULE (c_blocked st) = true -> mem1 TMODULE (c_blocked st) = true ->
    full_stack st pkt = Ok (st2, oa, hp) ->
    exists st1 a, ctransfer st pkt = Ok (st1, a) /\ oa = Some a /\
      (ack_success a = false -> st2 = st1 /\ hp = None /\ ack_bytes a = err_ack pkt) /\
      (ack_success a = true ->
       ack_bytes a = result_ack_bytes /\
       after_middleware MODULE sha256 decode parse_int from_bech32 pkt st1 st2 hp /\
       exists d amt r,
         decode (pk_data pkt) = Some d /\ parse_int (fd_amount d) = Some amt /\ from_bech32 (fd_receiver d) = Some r /\
         0 < amt /\ mem1 r (c_blocked st) = false /\
         let g := received_denom sha256 pkt d in
         if receiver_chain_is_source (pk_sport pkt) (pk_schan pkt) (fd_denom d)
         then escrow_of (pk_dport pkt) (pk_dchan pkt) = r \/
              released st st1 (escrow_of (pk_dport pkt) (pk_dchan pkt)) r g amt
         else minted st st1 r g amt).
  Proof.
    intros st pkt st2 oa hp Hlen HbM HbT H.
    destruct (middleware_transparent _ _ _ _ _ _ _ _ _ _ _ _ _ H) as (st1 & a & Et & Eo).
    exists st1, a. split; [exact Et|]. split; [exact Eo|]. split.
    - intros Ef. pose proof (failed_transfer_passthrough _ sha256 decode parse_int from_bech32 c_is_registered
                               (convert_coin MODULE) _ _ _ _ _ Et Ef) as Hp.
      unfold full_stack in H. rewrite Hp in H. inversion H; subst. split; [reflexivity|]. split; [reflexivity|].
      unfold Ics20Transfer.ctransfer in Et. destruct (decode (pk_data pkt)) as [d|].
      + destruct (keeper_recv st pkt d) as [[s' [|]]| |]; try discriminate; inversion Et; subst; [discriminate Ef|reflexivity].
      + inversion Et; subst. reflexivity.
    - intros Es.
      assert (Hbytes : ack_bytes a = result_ack_bytes /\ exists d, decode (pk_data pkt) = Some d /\ keeper_recv st pkt d = Ok (st1, true)).
      { unfold Ics20Transfer.ctransfer in Et. destruct (decode (pk_data pkt)) as [d|].
        - destruct (keeper_recv st pkt d) as [[s' [|]]| |] eqn:Ek; try discriminate; inversion Et; subst.
          + split; [reflexivity|]. exists d. auto.
          + discriminate Es.
        - inversion Et; subst. discriminate Es. }
      destruct Hbytes as (Hb & d & Ed & Ek). split; [exact Hb|].
      destruct (keeper_recv_ok _ _ _ _ HbT Ek) as (amt & r & Ea & Er & Hpos & Hnb & Hg). cbv zeta in Hg.
      destruct Hg as [Hvd Hg].
      assert (Hblk1 : mem1 MODULE (c_blocked st1) = true).
      { destruct (receiver_chain_is_source (pk_sport pkt) (pk_schan pkt) (fd_denom d)).
        - destruct Hg as [[_ (_ & _ & _ & _ & (_ & _ & C & _))]|[_ _ _ _ (_ & _ & _ & _ & (_ & _ & C & _))]];
            rewrite C; exact HbM.
        - destruct Hg as [_ _ _ _ _ _ _ (_ & _ & C & _)]. rewrite C. exact HbM. }
      split.
      + eapply conversion_atomic; eassumption.
      + exists d, amt, r. repeat split; try assumption. cbv zeta.
        destruct (receiver_chain_is_source (pk_sport pkt) (pk_schan pkt) (fd_denom d)).
        * destruct Hg as [[E _]|Hrel]; [left; exact E|right; exact Hrel].
        * exact Hg.
  Qed.
  (** ** The property in its own words, for a packet whose vouchers are minted here (the sender chain is the source):
      after a result acknowledgement, relative to the state BEFORE the packet,
      - either the receiver holds exactly [amt] more vouchers (supply + [amt]) and no token balance, total supply or
        module holding changed,
      - or the receiver's voucher balance is what it was, the receiver's own 20-byte address holds exactly [amt] more
        tokens of the registered contract, and the [amt] vouchers are escrowed in the aggregate module account
        (module-owned contract: voucher supply + [amt], token supply + [amt]) or were burned against tokens released
        from the module's holdings (external contract: voucher supply unchanged, module tokens - [amt]). *)
  Corollary receiver_gets_vouchers_or_tokens : forall st pkt st2 a hp d amt r,
    length MODULE = 20%nat ->
    mem1 MODULE (c_blocked st) = true -> mem1 TMODULE (c_blocked st) = true ->
    full_stack st pkt = Ok (st2, Some a, hp) -> ack_success a = true ->
    decode (pk_data pkt) = Some d -> parse_int (fd_amount d) = Some amt -> from_bech32 (fd_receiver d) = Some r ->
    receiver_chain_is_source (pk_sport pkt) (pk_schan pkt) (fd_denom d) = false ->
    let v := ibc_denom sha256 (pk_dport pkt) (pk_dchan pkt) (fd_denom d) in
    0 < amt /\ r <> MODULE /\
    ((bal st2 r v = bal st r v + amt /\ get1 (c_supply st2) v = get1 (c_supply st) v + amt /\
      bal st2 MODULE v = bal st MODULE v /\ c_tokens st2 = c_tokens st /\ c_tok_total st2 = c_tok_total st /\
      hp <> None) \/
     (hp = Some HConverted /\ length r = 20%nat /\ bal st2 r v = bal st r v /\
      exists id p, find1 (c_denom_idx st) v = Some id /\ find1 (c_pairs st) id = Some p /\
        let c := cp_erc20 p in
        tok st2 c r = tok st c r + amt /\
        ((cp_owner p = 1%nat /\ bal st2 MODULE v = bal st MODULE v + amt /\
          get1 (c_supply st2) v = get1 (c_supply st) v + amt /\
          get1 (c_tok_total st2) c = get1 (c_tok_total st) c + amt /\ tok st2 c MODULE = tok st c MODULE) \/
         (cp_owner p = 2%nat /\ bal st2 MODULE v = bal st MODULE v /\
          get1 (c_supply st2) v = get1 (c_supply st) v /\
          get1 (c_tok_total st2) c = get1 (c_tok_total st) c /\ tok st2 c MODULE = tok st c MODULE - amt)))).
  Proof.
    intros st pkt st2 a hp d amt r Hlen HbM HbT H Hs Ed Ea Er Hret v.
    destruct (end_to_end _ _ _ _ _ Hlen HbM HbT H) as (st1 & a' & Et & Eo & _ & Hok).
    inversion Eo; subst a'. destruct (Hok Hs) as (_ & Ham & d' & amt' & r' & Ed' & Ea' & Er' & Hpos & Hnb & Hg).
    rewrite Ed in Ed'. inversion Ed'; subst d'. rewrite Ea in Ea'. inversion Ea'; subst amt'.
    rewrite Er in Er'. inversion Er'; subst r'. cbv zeta in Hg. rewrite Hret in Hg.
    assert (Hv : received_denom sha256 pkt d = v) by (unfold received_denom; rewrite Hret; reflexivity).
    rewrite Hv in Hg. destruct Hg as [M1 M2 M3 M4 M5 M6 (R1 & R2 & R3) M8].
    assert (HrM : r <> MODULE) by (intros X; subst r; congruence).
    assert (HkM : (MODULE, v) <> (r, v)) by (intros X; inversion X; congruence).
    split; [exact Hpos|]. split; [exact HrM|].
    assert (Hhp : ack_success a = true -> hp <> None).
    { intros _ X. subst hp. unfold full_stack, Ics20.middleware, middleware_gen in H. rewrite Et, Hs in H. cbn [negb] in H.
      destruct (hook _ _ _ _ _ _ _ _ _ _) as [[[? ?] ?]| |]; discriminate. }
    clear Ed' Ea' Er'.
    destruct Ham as [E Hp|d' amt' id p Hp Ed' Ea' _ _ _ (F1 & F2 & F3 & F4) _|d' amt' id p Hp Ed' Ea' Hrs Hme Hcode Hfull].
    - left. subst st2. rewrite M1, M2, (M3 _ _ HkM), M5, M6. auto 10.
    - left. unfold bal. rewrite F1, F2, F3, F4. fold (bal st1 r v) (bal st1 MODULE v).
      rewrite M1, M2, (M3 _ _ HkM), M5, M6. auto 10.
    - right. rewrite Ed in Ed'. inversion Ed'; subst d'. rewrite Ea in Ea'. inversion Ea'; subst amt'.
      set (m := hook_msg sha256 from_bech32 pkt d amt) in *.
      assert (Hsnd : cm_sender m = r) by (unfold m, hook_msg, hook_receiver; rewrite Er; reflexivity).
      assert (Hden : cm_denom m = v) by reflexivity.
      assert (Hamt : cm_amount m = amt) by reflexivity.
      assert (Hl20 : length r = 20%nat).
      { rewrite <- Hsnd, <- Hrs. unfold m, hook_msg. cbn [cm_receiver]. apply evm_addr_length. }
      split; [exact Hp|]. split; [exact Hl20|].
      destruct Hfull as [_ _ Hdeb Hcred Howner Hbrest Htrest Httrest _ _].
      rewrite Hrs, Hsnd, Hden, Hamt in *.
      split; [rewrite Hdeb, M1; lia|].
      apply minting_enabled_spec in Hme. destruct Hme as (_ & Hidx & Hpair & _ & _).
      rewrite Hden in Hidx. rewrite R1 in Hidx. rewrite R3 in Hpair.
      exists id, p. split; [exact Hidx|]. split; [exact Hpair|]. cbv zeta.
      unfold tok in *. rewrite M5 in *. split; [exact Hcred|].
      destruct Howner as [(Ho & H1 & H2 & H3 & H4)|(Ho & H1 & H2 & _ & H3 & H4)]; [left|right];
        (split; [exact Ho|]); rewrite H1, ?H2, ?H3, (M3 _ _ HkM), ?M2, ?M6; repeat split; try assumption; try lia.
  Qed.
End EndToEnd.
