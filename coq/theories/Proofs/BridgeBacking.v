(** C03 — the counters of the conservation equation are backed by real tokens:
    - the endpoint contract of every chain HOLDS at least the sum of its [outTokens] (escrow solvency);
    - the total supply of every token = locally issued supply (constant) + the sum of what was minted
      for its bindings ([bindings[..].amount]): bridged tokens are minted and burned only against them. *)
From Coq Require Import List Arith PeanoNat NArith Bool Lia.
From Teleport Require Import Base.Outcome Model.Bridge Model.BridgeCheck Proofs.Bridge Proofs.BridgeOutcome.
Import ListNotations.
Local Open Scope N_scope.

Definition sum_over (n : nat) (f : chain -> N) : N := sumN (map f (seq 0 n)).

Lemma sumN_app a b : sumN (a ++ b) = sumN a + sumN b.
Proof.
  induction a as [|x a IH]; [reflexivity|]. change (sumN ((x :: a) ++ b)) with (x + sumN (a ++ b)).
  change (sumN (x :: a)) with (x + sumN a). rewrite IH. apply N.add_assoc.
Qed.

Lemma sum_over_S n f : sum_over (S n) f = sum_over n f + f n.
Proof.
  unfold sum_over. rewrite seq_S, map_app, sumN_app. cbn [map plus]. change (sumN [f n]) with (f n + 0). rewrite N.add_0_r. reflexivity.
Qed.

Lemma sum_over_ext n f g : (forall c, (c < n)%nat -> f c = g c) -> sum_over n f = sum_over n g.
Proof.
  induction n as [|n IH]; intro H; [reflexivity|]. rewrite !sum_over_S. rewrite IH by (intros; apply H; lia).
  rewrite H by lia. reflexivity.
Qed.

(** changing one point of a (token, chain) table changes the sum over the chains of that token by the difference *)
Lemma sum_over_upd n f t B v :
  (B < n)%nat -> sum_over n (upd_tc f t B v t) + f t B = sum_over n (f t) + v.
Proof.
  induction n as [|n IH]; intro H; [lia|]. rewrite !sum_over_S.
  destruct (Nat.eqb_spec B n) as [->|Hne].
  - rewrite upd_tc_same. rewrite (sum_over_ext n (upd_tc f t n v t) (f t)); [lia|].
    intros c Hc. apply upd_tc_other. intro X; inv X. lia.
  - assert (B < n)%nat by lia. specialize (IH H0). rewrite (upd_tc_other f t B v t n) by (intro X; inv X; congruence). lia.
Qed.

Lemma sum_over_upd_other n f t B v t' : t <> t' -> sum_over n (upd_tc f t B v t') = sum_over n (f t').
Proof. intro H. apply sum_over_ext. intros c _. apply upd_tc_other. intro X; inv X. congruence. Qed.

(** moving tokens lowers only the payer's balance, by at most the amount; minting lowers nothing *)
Lemma move_lower cs t from to a t' h :
  bal cs t' h - (if Nat.eqb t t' && holder_eqb from h then a else 0) <= bal (move cs t from to a) t' h.
Proof.
  unfold move, credit, debit, set_bal, upd_bal. cbn [bal].
  destruct (Nat.eqb_spec t t') as [<-|]; cbn [andb]; [|lia].
  destruct (holder_eqb_spec to h) as [->|N1]; destruct (holder_eqb_spec from h) as [->|N2];
    rewrite ?Nat.eqb_refl, ?holder_eqb_refl, ?(proj2 (holder_eqb_neq _ _) N1), ?(proj2 (holder_eqb_neq _ _) N2);
    cbn [andb]; lia.
Qed.

Lemma mint_lower cs t r a t' h : bal cs t' h <= bal (mint cs t r a) t' h.
Proof.
  unfold mint, credit, set_supply, set_bal, upd_bal. cbn [bal].
  destruct (Nat.eqb_spec t t'), (holder_eqb_spec r h); cbn [andb]; subst; lia.
Qed.

Section WithCfg.
Variable cfg : config.
Notation n := (nchains cfg).

(** per-chain statements *)
Definition EB (cs : cstate) : Prop := forall t, sum_over n (out_tokens cs t) <= bal cs t Endpoint.
Definition SA (b : token -> N) (cs : cstate) : Prop := forall t, supply cs t = b t + sum_over n (bind_amt cs t).

Ltac unf := unfold mint, burn, move in *; unfold credit, debit in *;
  unfold set_bal, set_supply, set_out, set_bind, set_next, set_ackst, set_fees, set_effects, upd_bal, upd1 in *; cbn [bal supply out_tokens bind_amt next_seq ack_status fees effects holder_eqb] in *.

Ltac fin := rewrite ?Nat.eqb_refl, ?andb_false_r, ?andb_true_r; cbn [andb]; first [assumption | lia].

Definition payer (h : holder) : Prop := match h with User _ | Agent => True | _ => False end.

Lemma take_tokens_backed c cs h tok amt dst cs' ori b :
  payer h -> take_tokens cfg c cs h tok amt dst = Some (cs', ori) -> (dst < n)%nat ->
  (EB cs -> EB cs') /\ (SA b cs -> SA b cs').
Proof.
  intro Hh. unfold take_tokens. destruct (amt =? 0); [intro H; inv H; auto|].
  destruct (bound cfg c tok dst) as [[o k]|].
  - destruct ((amt * k <=? bal cs tok h) && (amt * k <=? bind_amt cs tok dst) && (amt * k <=? supply cs tok)) eqn:Eg; [|discriminate].
    apply andb_true_iff in Eg as [Eg G3]. apply andb_true_iff in Eg as [G1 G2]. apply N.leb_le in G1, G2, G3.
    intros H Hd; inv H. split; intros HI t; specialize (HI t).
    + destruct h as [u0| | | | |]; try contradiction; unf; fin.
    + destruct h as [u0| | | | |]; try contradiction; unf; (destruct (Nat.eqb_spec tok t) as [<-|Hne];
        [pose proof (sum_over_upd n (bind_amt cs) tok dst (bind_amt cs tok dst - amt * k) Hd); fin
        |rewrite sum_over_upd_other by assumption; fin]).
  - destruct (amt <=? bal cs tok h) eqn:G1; [|discriminate]. apply N.leb_le in G1.
    intros H Hd; inv H. split; intros HI t; specialize (HI t).
    + destruct h as [u0| | | | |]; try contradiction; unf; (destruct (Nat.eqb_spec tok t) as [<-|Hne]; cbn [andb];
        [pose proof (sum_over_upd n (out_tokens cs) tok dst (out_tokens cs tok dst + amt) Hd); fin
        |rewrite sum_over_upd_other by assumption; fin]).
    + destruct h as [u0| | | | |]; try contradiction; unf; fin.
Qed.

Lemma take_fee_backed cs h ftok fee cs' b :
  payer h -> take_fee cs h ftok fee = Some cs' -> (EB cs -> EB cs') /\ (SA b cs -> SA b cs').
Proof.
  intro Hh. unfold take_fee. destruct (fee <=? bal cs ftok h); [|discriminate]. intro H; inv H.
  split; intros HI t; specialize (HI t); destruct h as [u0| | | | |]; try contradiction; unf; fin.
Qed.

Lemma give_tokens_backed cs p cs' d b :
  give_tokens cfg cs p = Some (cs', d) -> (p_src p < n)%nat ->
  (EB cs -> EB cs') /\ (SA b cs -> SA b cs').
Proof.
  unfold give_tokens. destruct (p_amount p =? 0); [intro H; inv H; auto|].
  destruct (p_recv p) as [r|]; [|discriminate]. destruct (p_ori p) as [t0|].
  - destruct (Nat.eqb t0 0 && is_contract r); [discriminate|].
    destruct ((p_amount p <=? out_tokens cs t0 (p_src p)) && (p_amount p <=? bal cs t0 Endpoint)) eqn:Eg; [|discriminate].
    apply andb_true_iff in Eg as [G1 G2]. apply N.leb_le in G1, G2.
    intros H Hs; inv H. split; intros HI t; specialize (HI t).
    + cbn [set_out bal out_tokens]. pose proof (move_lower cs t0 Endpoint r (p_amount p) t Endpoint) as L.
      destruct (Nat.eqb_spec t0 t) as [<-|Hne]; cbn [andb holder_eqb] in L.
      * pose proof (sum_over_upd n (out_tokens cs) t0 (p_src p) (out_tokens cs t0 (p_src p) - p_amount p) Hs). lia.
      * rewrite sum_over_upd_other by assumption. lia.
    + unf. fin.
  - destruct (trace cfg (p_dst p) (p_src p) (p_token p)) as [[loc k]|]; [|discriminate].
    intros H Hs; inv H. split; intros HI t; specialize (HI t).
    + cbn [set_bind bal out_tokens]. pose proof (mint_lower cs loc r (p_amount p * k) t Endpoint) as L.
      change (out_tokens (mint cs loc r (p_amount p * k)) t) with (out_tokens cs t). lia.
    + unf. destruct (Nat.eqb_spec loc t) as [<-|Hne].
      * pose proof (sum_over_upd n (bind_amt cs) loc (p_src p) (bind_amt cs loc (p_src p) + p_amount p * k) Hs). fin.
      * rewrite sum_over_upd_other by assumption. fin.
Qed.

Lemma transfer_chain_backed c cs h tok amt dst rcv cd cb ftok fee cs' p b :
  payer h -> transfer_chain cfg c cs h tok amt dst rcv cd cb ftok fee = Some (cs', p) -> (EB cs -> EB cs') /\ (SA b cs -> SA b cs').
Proof.
  intro Hh. unfold transfer_chain. destruct (dst_ok cfg c dst) eqn:E1; [|discriminate].
  apply dst_ok_true in E1 as (_ & _ & E1). unfold transfer_evm.
  destruct ((amt =? 0) && cd_is_none cd); [discriminate|].
  destruct (take_tokens cfg c cs h tok amt dst) as [[cs1 ori]|] eqn:E2; [|discriminate].
  destruct (take_fee cs1 h ftok fee) as [cs2|] eqn:E3; [|discriminate].
  intro H; inv H.
  destruct (take_tokens_backed _ _ _ _ _ _ _ _ b Hh E2 E1) as [A1 A2]. destruct (take_fee_backed _ _ _ _ _ b Hh E3) as [B1 B2].
  split; intro HI; [specialize (B1 (A1 HI))|specialize (B2 (A2 HI))]; intros t; [specialize (B1 t)|specialize (B2 t)]; unf; assumption.
Qed.

Lemma same_core_backed cs' cs1 b : same_core cs' cs1 -> (EB cs1 -> EB cs') /\ (SA b cs1 -> SA b cs').
Proof.
  intros (S1 & S2 & _ & S4 & S5 & _). split; intros HI t; specialize (HI t); unfold EB, SA in *; rewrite ?S1, ?S2, ?S4, ?S5; exact HI.
Qed.

Lemma recv_chain_backed cs p code cs' d onw b :
  recv_chain cfg cs p = (code, cs', d, onw) -> (p_src p < n)%nat -> (EB cs -> EB cs') /\ (SA b cs -> SA b cs').
Proof.
  intros H Hs. apply recv_chain_cases in H as [(_ & -> & _)|(_ & cs1 & G & [(_ & S)|(q & T & a2 & feer & ref & rcv2 & dst2 & _ & Ht)])]; [auto| |].
  - destruct (give_tokens_backed _ _ _ _ b G Hs) as [A1 A2]. destruct (same_core_backed _ _ b S) as [B1 B2]. auto.
  - destruct (give_tokens_backed _ _ _ _ b G Hs) as [A1 A2].
    destruct (transfer_chain_backed (p_dst p) cs1 Agent T a2 dst2 rcv2 CdNone (CbAgent ref) T feer cs' q b I Ht) as [B1 B2]. auto.
Qed.

Lemma give_back_backed cs p cs' r b :
  give_back cfg cs p = Some (cs', r) -> (p_dst p < n)%nat -> (EB cs -> EB cs') /\ (SA b cs -> SA b cs').
Proof.
  unfold give_back. destruct (p_code p =? 0); [intro H; inv H; auto|].
  destruct (p_amount p =? 0); [discriminate|]. destruct (p_ori p) as [t0|].
  - destruct (bound cfg (p_src p) (p_token p) (p_dst p)) as [[o k]|]; [|discriminate].
    intros H Hd; inv H. split; intros HI t; specialize (HI t).
    + cbn [set_bind bal out_tokens]. pose proof (mint_lower cs (p_token p) (p_sender p) (p_amount p * k) t Endpoint) as L.
      change (out_tokens (mint cs (p_token p) (p_sender p) (p_amount p * k)) t) with (out_tokens cs t). lia.
    + unf. destruct (Nat.eqb_spec (p_token p) t) as [<-|Hne].
      * pose proof (sum_over_upd n (bind_amt cs) (p_token p) (p_dst p) (bind_amt cs (p_token p) (p_dst p) + p_amount p * k) Hd). fin.
      * rewrite sum_over_upd_other by assumption. fin.
  - destruct ((p_amount p <=? out_tokens cs (p_token p) (p_dst p)) && (p_amount p <=? bal cs (p_token p) Endpoint)) eqn:Eg; [|discriminate].
    apply andb_true_iff in Eg as [G1 G2]. apply N.leb_le in G1, G2.
    intros H Hd; inv H. split; intros HI t; specialize (HI t).
    + cbn [set_out bal out_tokens]. pose proof (move_lower cs (p_token p) Endpoint (p_sender p) (p_amount p) t Endpoint) as L.
      destruct (Nat.eqb_spec (p_token p) t) as [<-|Hne]; cbn [andb holder_eqb] in L.
      * pose proof (sum_over_upd n (out_tokens cs) (p_token p) (p_dst p) (out_tokens cs (p_token p) (p_dst p) - p_amount p) Hd). lia.
      * rewrite sum_over_upd_other by assumption. lia.
    + unf. fin.
Qed.

Lemma move_payer_backed cs t from to a b :
  payer from -> (EB cs -> EB (move cs t from to a)) /\ (SA b cs -> SA b (move cs t from to a)).
Proof.
  intro Hp. split; intros HI t'; specialize (HI t').
  - pose proof (move_lower cs t from to a t' Endpoint) as L.
    assert (holder_eqb from Endpoint = false) as E by (destruct from; try contradiction; reflexivity).
    rewrite E, andb_false_r in L. change (out_tokens (move cs t from to a) t') with (out_tokens cs t'). lia.
  - exact HI.
Qed.

Lemma ack_chain_backed cs p cs' r b :
  ack_chain cfg cs p = Some (cs', r) -> (p_dst p < n)%nat -> payer (p_sender p) -> (EB cs -> EB cs') /\ (SA b cs -> SA b cs').
Proof.
  unfold ack_chain. intros H Hd Hp.
  destruct (fees cs (p_dst p) (p_seq p)) as [ft f].
  assert (F : forall csx, csx = move (set_ackst cs (upd_cs (ack_status cs) (p_dst p) (p_seq p) (if p_code p =? 0 then 1 else 2))) ft PacketC Relayer f ->
              (EB cs -> EB csx) /\ (SA b cs -> SA b csx)).
  { intros csx ->. split; intros HI t; specialize (HI t); unf; fin. }
  destruct (p_cb p) as [| |ref]; try discriminate;
    (match type of H with (if ?c then _ else _) = _ => destruct c end; [|discriminate]);
    (match type of H with match ?g with Some _ => _ | None => _ end = _ => destruct g as [[cs2 r2]|] eqn:Eg end; [|discriminate]);
    injection H as <- <-; destruct (F _ eq_refl) as [F1 F2]; destruct (give_back_backed _ _ _ _ b Eg Hd) as [G1 G2].
  - auto.
  - destruct (r2 =? 0); [auto|]. destruct (move_payer_backed cs2 (p_token p) (p_sender p) (User ref) r2 b Hp) as [M1 M2]. auto.
Qed.

Lemma addfee_chain_backed cs u dst sq amt cs' b :
  addfee_chain cs u dst sq amt = Some cs' -> (EB cs -> EB cs') /\ (SA b cs -> SA b cs').
Proof.
  unfold addfee_chain. destruct (fees cs dst sq) as [ft f].
  match goal with |- context [if ?c then _ else _] => destruct c end; [|discriminate]. intro H; inv H.
  split; intros HI t; specialize (HI t); unf; fin.
Qed.

(** * Global statements *)
Definition escrow_backed (s : state) : Prop :=
  forall A t, sum_over n (out_tokens (chains s A) t) <= bal (chains s A) t Endpoint.

Definition supply_accounted (base : chain -> token -> N) (s : state) : Prop :=
  forall c t, supply (chains s c) t = base c t + sum_over n (bind_amt (chains s c) t).

Definition Backed (base : chain -> token -> N) (s : state) : Prop := escrow_backed s /\ supply_accounted base s.

Lemma backed_chain base s c cs ps :
  Backed base s -> ((EB (chains s c) -> EB cs) /\ (SA (base c) (chains s c) -> SA (base c) cs)) ->
  Backed base (set_chain s c cs ps).
Proof.
  intros [H1 H2] [A1 A2]. split.
  - intros A t. rewrite chains_set_chain. destruct (Nat.eqb_spec c A) as [<-|]; [|apply H1]. apply A1. intro t'. apply H1.
  - intros c' t. rewrite chains_set_chain. destruct (Nat.eqb_spec c c') as [<-|]; [|apply H2]. apply A2. intro t'. apply H2.
Qed.

Theorem step_backed base s o s' : wf cfg s -> Ghost cfg s -> Backed base s -> step cfg s o = Ok s' -> Backed base s'.
Proof.
  intros [_ Hall] HG HB H. unfold step, step_gen in H.
  destruct o as [c u tok amt dst rcv cd cb ftok fee|src dst sq|src dst sq|c u dst sq amt|k src dst sq]; [| | | |discriminate].
  - destruct (transfer_chain cfg c (chains s c) (User u) tok amt dst rcv cd (if cb then CbBroken else CbNone) ftok fee) as [[cs p]|] eqn:E; [|discriminate].
    inv H. apply backed_chain; [exact HB|]. eapply transfer_chain_backed; eauto. exact I.
  - destruct (lookup src dst sq (packets s)) as [p|] eqn:El; [|discriminate].
    destruct (is_sent p); [|discriminate].
    destruct (recv_chain cfg (chains s dst) p) as [[[code cs] d] onw] eqn:Er. inv H.
    destruct (lookup_in _ _ _ _ _ El) as [Hin _]. destruct (Hall p Hin) as [(_ & _ & _ & _ & _ & _ & _ & Hs & _) _].
    apply backed_chain; [exact HB|]. eapply recv_chain_backed; eauto.
  - destruct (lookup src dst sq (packets s)) as [p|] eqn:El; [|discriminate].
    destruct (is_received p); [|discriminate].
    destruct (ack_chain cfg (chains s src) p) as [[cs r]|] eqn:Er; [|discriminate]. inv H.
    destruct (lookup_in _ _ _ _ _ El) as [Hin _]. destruct (Hall p Hin) as [(_ & _ & _ & _ & _ & _ & _ & _ & Hd) _].
    apply backed_chain; [exact HB|]. eapply ack_chain_backed; eauto. exact (proj1 (HG p Hin)).
  - destruct (addfee_chain (chains s c) u dst sq amt) as [cs|] eqn:E; [|discriminate]. inv H.
    apply backed_chain; [exact HB|]. eapply addfee_chain_backed; eauto.
Qed.

Hypothesis Hcfg : cfg_consistent cfg.

Theorem run_backed base h : forall s, Good cfg s -> Backed base s -> Backed base (run cfg s h).
Proof.
  unfold run, run_gen. induction h as [|o h IH]; intros s HG HB; cbn; [exact HB|].
  unfold apply_gen at 2. destruct (step_gen recv_chain cfg s o) as [s'| |] eqn:E; try (apply IH; assumption).
  apply IH; [eapply step_good; eauto|]. eapply step_backed; eauto; [exact (proj1 (proj1 HG))|exact (proj2 HG)].
Qed.

(** fresh system: nothing escrowed, nothing minted for bindings; the supply of that moment is the locally issued one *)
Lemma init_backed s : init_ok s -> Backed (fun c t => supply (chains s c) t) s.
Proof.
  intros [_ H0]. assert (Z : forall (f : chain -> N) m, (forall c, f c = 0) -> sum_over m f = 0).
  { intros f m Hf. induction m as [|m IH]; [reflexivity|]. rewrite sum_over_S, IH, Hf. reflexivity. }
  split.
  - intros A t. rewrite Z; [lia|]. intro c. apply H0.
  - intros c t. rewrite Z; [lia|]. intro c'. apply H0.
Qed.

Theorem run_backed_init s0 h :
  init_ok s0 -> Backed (fun c t => supply (chains s0 c) t) (run cfg s0 h).
Proof. intro Hi. apply run_backed; [apply init_good; exact Hi|apply init_backed; exact Hi]. Qed.

End WithCfg.

(** * Monitor soundness for the two backing checks: [escrow_solvent] accepts every state with [escrow_backed]
    when evaluated on a universe with the configuration's number of chains. *)
Lemma escrow_solvent_sound cfg U s :
  u_n U = nchains cfg -> escrow_backed cfg s -> escrow_solvent U (chains s) = true.
Proof.
  intros Hn H. unfold escrow_solvent. apply forallb_forall. intros A _. apply forallb_forall. intros t _.
  apply N.leb_le. specialize (H A t). unfold sum_over in H. unfold chain_ids. rewrite Hn. exact H.
Qed.
