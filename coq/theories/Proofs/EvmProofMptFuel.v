(** [decode_node] (Model/EvmProofMpt.v) gives the recursion of go-ethereum's [decodeNode] / [decodeRef] (embedded
    nodes) [length buf + 1] levels.  That is never a limit: every recursive call is on a strictly shorter buffer
    (the content of the enclosing list, without its header), so any larger number of levels gives the same result. *)
From Teleport Require Import Base.Bytes Base.Outcome Model.EvmProof Model.EvmProofMpt.
Local Open Scope N_scope.

Lemma rlp_split_rest b k c r : rlp_split b = Some (k, c, r) -> (length r <= length b)%nat.
Proof.
  unfold rlp_split. destruct (read_kind b) as [[[k' ts] cs]|]; [|discriminate].
  intro H. inversion H; subst. rewrite skipn_length. lia.
Qed.

(** a list header takes at least one byte *)
Lemma read_kind_list_tag b ts cs : read_kind b = Some (KList, ts, cs) -> 1 <= ts.
Proof.
  unfold read_kind. destruct b as [|b0 t]; [discriminate|].
  destruct (nb b0 <? 128); [destruct (N.of_nat (length (b0 :: t)) - 0 <? 1); discriminate|].
  destruct (nb b0 <? 184).
  { destruct ((nb b0 - 128 =? 1) && match t with [] => false | x :: _ => nb x <? 128 end); [discriminate|].
    destruct (N.of_nat (length (b0 :: t)) - 1 <? nb b0 - 128); discriminate. }
  destruct (nb b0 <? 192).
  { destruct (read_size t (N.to_nat (nb b0 - 183))) as [s|]; [|discriminate].
    destruct (N.of_nat (length (b0 :: t)) - (nb b0 - 183 + 1) <? s); discriminate. }
  destruct (nb b0 <? 248).
  { destruct (N.of_nat (length (b0 :: t)) - 1 <? nb b0 - 192); [discriminate|]. intro H; inversion H; subst. lia. }
  destruct (read_size t (N.to_nat (nb b0 - 247))) as [s|]; [|discriminate].
  destruct (N.of_nat (length (b0 :: t)) - (nb b0 - 247 + 1) <? s); [discriminate|]. intro H; inversion H; subst. lia.
Qed.

Lemma split_list_shorter b c r : split_list b = Some (c, r) -> (length c < length b)%nat.
Proof.
  unfold split_list, rlp_split. destruct (read_kind b) as [[[k ts] cs]|] eqn:K; [|discriminate].
  destruct k; try discriminate. intro H. inversion H; subst.
  destruct b as [|b0 t]; [discriminate K|].
  apply read_kind_list_tag in K.
  rewrite firstn_length, skipn_length. cbn [length]. lia.
Qed.

Lemma split_string_rest b c r : split_string b = Some (c, r) -> (length r <= length b)%nat.
Proof.
  unfold split_string. destruct (rlp_split b) as [[[k c'] r']|] eqn:S; [|discriminate].
  destruct k; try discriminate; intro H; inversion H; subst; eapply rlp_split_rest; exact S.
Qed.

Section Congruence.
  Variables dn1 dn2 : bytes -> option node.

  Lemma decode_ref_cong n buf :
    (forall b, (length b <= n)%nat -> dn1 b = dn2 b) -> (length buf <= n)%nat ->
    decode_ref dn1 buf = decode_ref dn2 buf.
  Proof.
    intros A L. unfold decode_ref. destruct (rlp_split buf) as [[[k val] r]|]; [|reflexivity].
    destruct k; try reflexivity.
    destruct (32 <? length buf - length r)%nat; [reflexivity|]. rewrite (A buf L). reflexivity.
  Qed.

  Lemma decode_ref_rest buf m r : decode_ref dn1 buf = Some (m, r) -> (length r <= length buf)%nat.
  Proof.
    unfold decode_ref. destruct (rlp_split buf) as [[[k val] r']|] eqn:S; [|discriminate].
    pose proof (rlp_split_rest _ _ _ _ S) as R.
    destruct k.
    - discriminate.
    - destruct (length val) as [|l]; [intro H; inversion H; subst; exact R|].
      do 31 (destruct l as [|l]; [discriminate|]). destruct l; [|discriminate]. intro H; inversion H; subst; exact R.
    - destruct (32 <? length buf - length r')%nat; [discriminate|]. destruct (dn1 buf); [|discriminate].
      intro H; inversion H; subst; exact R.
  Qed.

  Lemma decode_refs_cong n k : forall elems,
    (forall b, (length b <= n)%nat -> dn1 b = dn2 b) -> (length elems <= n)%nat ->
    decode_refs dn1 k elems = decode_refs dn2 k elems.
  Proof.
    induction k as [|k IH]; intros elems A L; cbn [decode_refs]; [reflexivity|].
    rewrite <- (decode_ref_cong n elems A L).
    destruct (decode_ref dn1 elems) as [[c r]|] eqn:R; [|reflexivity].
    apply decode_ref_rest in R. rewrite (IH r A) by lia. reflexivity.
  Qed.

  Lemma decode_node_step_cong buf :
    (forall b, (length b < length buf)%nat -> dn1 b = dn2 b) ->
    decode_node_step dn1 buf = decode_node_step dn2 buf.
  Proof.
    intro A. unfold decode_node_step. destruct buf as [|b0 t]; [reflexivity|].
    destruct (split_list (b0 :: t)) as [[elems r]|] eqn:SL; [|reflexivity].
    apply split_list_shorter in SL.
    assert (A' : forall b, (length b <= length elems)%nat -> dn1 b = dn2 b) by (intros b Lb; apply A; lia).
    destruct (count_values elems) as [c|]; [|reflexivity].
    do 2 (destruct c as [|c]; [reflexivity|]).
    destruct c as [|c].
    { unfold decode_short. destruct (split_string elems) as [[kbuf rest]|] eqn:SS; [|reflexivity].
      apply split_string_rest in SS.
      destruct (has_term (compact_to_hex kbuf)); [reflexivity|].
      rewrite (decode_ref_cong (length elems) rest A' SS). reflexivity. }
    do 14 (destruct c as [|c]; [reflexivity|]).
    destruct c as [|c]; [|reflexivity].
    unfold decode_full. rewrite (decode_refs_cong (length elems) 16 elems A' (le_n _)). reflexivity.
  Qed.
End Congruence.

Lemma decode_node_fuel_stable : forall n buf f1 f2,
  (length buf <= n)%nat -> (n < f1)%nat -> (n < f2)%nat -> decode_node_fuel f1 buf = decode_node_fuel f2 buf.
Proof.
  induction n as [|n IH]; intros buf f1 f2 L L1 L2.
  - destruct buf; [|cbn in L; lia]. destruct f1, f2; try lia. reflexivity.
  - destruct f1 as [|g1]; [lia|]. destruct f2 as [|g2]; [lia|]. cbn [decode_node_fuel].
    apply decode_node_step_cong. intros b Lb. apply IH; lia.
Qed.

(** more levels than [decode_node] uses never change its result *)
Theorem decode_node_fuel_enough buf f : (length buf < f)%nat -> decode_node_fuel f buf = decode_node buf.
Proof. intro L. unfold decode_node. apply (decode_node_fuel_stable (length buf)); lia. Qed.
