(** The invariant of the Ethereum client model and its preservation by the pruning step.
    [Inv s L D]: [L] is the head's stored ancestry (descending from the head to the oldest
    main-branch header still stored), [D] the main-branch headers pruned so far (ghost). *)
From Coq Require Import Lia ZArith NArith List.
From Teleport Require Import Base.Bytes Base.Outcome Model.Eth Proofs.EthBase Proofs.EthValid Proofs.EthChain.
Local Open Scope N_scope.

Section Inv.
  Variable hash : header -> bytes.
  Variable r0 g0 : N.       (* the client's revision number; the number of the header it was created with *)
  Variable U : header -> Prop.   (* the headers that occur (the hash hypotheses of the theorems are relative to it) *)
  Notation idx_wf := (idx_wf hash r0).
  Notation wf_hdr := (wf_hdr r0).
  Notation key := (key hash).
  Notation Stored := (Stored hash).

  (** [L] enumerates exactly the stored ancestors of [x]: L_i is the i-th ancestor, and there
      is no (length L)-th one. *)
  Definition Main (ix : imap) (x : header) (L : list header) : Prop := forall i, nth_anc ix x i = nth_error L i.

  (** number of the last (lowest) element of the chain *)
  Definition low (x : header) (L : list header) : N := h_num (last L x).

  (** The pruned main-branch headers, linked by parent keys below the chain; none is stored;
      the parent key of the oldest one (the header the client was created with) is a key no
      stored header can have. *)
  Fixpoint DeadPath (ix : imap) (k : hkey) (D : list header) : Prop :=
    match D with
    | [] => snd k < g0 \/ two63 <= snd k
    | d :: D' => key d = k /\ iget k ix = None /\ (h_num d < two63 /\ U d) /\ DeadPath ix (pkey d) D'
    end.

  Record Inv (s : state) (L D : list header) : Prop := {
    inv_wf : idx_wf (idx s);
    inv_main : Main (idx s) (head s) L;
    inv_head : Stored (idx s) (head s);
    inv_cdom : forall r k c, cget (r, k) (cons s) = Some c -> r = r0 /\ low (head s) L <= k;
    inv_cmain : forall a, In a L -> cget (r0, h_num a) (cons s) = Some (cstate_of a);
    inv_cnodup : NoDup (map fst (cons s));
    inv_closure : forall a, Stored (idx s) a -> low (head s) L < h_num a -> parent_of (idx s) a <> None;
    (* the root-main slot of a stored header not below the main chain's lowest height points at it -- for
       EVERY such header as long as no two stored headers of one height share a root (code as it is), for the
       main-chain headers only with the repair [fix_root] (which re-points the slots on a re-organisation) *)
    inv_rmain : forall a, Stored (idx s) a -> low (head s) L <= h_num a -> (fix_root = true -> In a L) ->
                          rget (to_hash (h_root a), h_num a) (rmain s) = Some (key a);
    inv_low : forall a, Stored (idx s) a -> g0 <= h_num a;
    inv_univ : forall a, Stored (idx s) a -> U a;
    inv_dead : DeadPath (idx s) (pkey (last L (head s))) D }.

  (** * Facts about [Main] *)
  Lemma main_cons ix x L : Main ix x L -> exists l, L = x :: l.
  Proof.
    intro M. specialize (M 0%nat). cbn in M. destruct L as [|y l]; [discriminate|].
    cbn in M. inversion M; subst. exists l; reflexivity.
  Qed.

  Lemma main_in ix x L a : Main ix x L -> In a L -> exists i, nth_anc ix x i = Some a /\ (i < length L)%nat.
  Proof.
    intros M I. apply In_nth_error in I. destruct I as [i E]. exists i. split; [rewrite M; exact E|].
    apply nth_error_Some. congruence.
  Qed.

  Lemma main_anc_in ix x L a i : Main ix x L -> nth_anc ix x i = Some a -> In a L /\ (i < length L)%nat.
  Proof.
    intros M E. rewrite M in E. split; [eapply nth_error_In; exact E | apply nth_error_Some; congruence].
  Qed.

  Lemma nth_error_last {A} (l : list A) (d : A) : l <> [] -> nth_error l (length l - 1) = Some (last l d).
  Proof.
    induction l as [|a l IH]; [congruence|]. intros _. destruct l as [|b l].
    - reflexivity.
    - cbn [length last]. replace (S (S (length l)) - 1)%nat with (S (length (b :: l) - 1)) by (cbn; lia).
      cbn [nth_error]. apply IH. discriminate.
  Qed.

  Lemma main_last ix x L : Main ix x L -> nth_anc ix x (length L - 1) = Some (last L x) /\ parent_of ix (last L x) = None.
  Proof.
    intro M. destruct (main_cons _ _ _ M) as [l ->].
    assert (E : nth_anc ix x (length (x :: l) - 1) = Some (last (x :: l) x)).
    { rewrite M. apply nth_error_last. discriminate. }
    split; [exact E|].
    pose proof (nth_anc_S ix x (length (x :: l) - 1)) as S. rewrite E in S. rewrite <- S.
    rewrite M. apply nth_error_None. cbn. lia.
  Qed.

  Section WithWf.
    Variable ix : imap.
    Variable x : header.
    Variable L : list header.
    Hypothesis WF : idx_wf ix.
    Hypothesis Hx : h_num x < two63.
    Hypothesis M : Main ix x L.

    Lemma main_num a i : nth_error L i = Some a -> h_num x = h_num a + N.of_nat i /\ h_num a < two63.
    Proof. intro E. rewrite <- M in E. exact (nth_anc_num _ _ _ _ _ _ WF Hx E). Qed.

    Lemma main_low : h_num x = low x L + N.of_nat (length L - 1).
    Proof.
      destruct (main_last _ _ _ M) as [E _]. destruct (nth_anc_num _ _ _ _ _ _ WF Hx E) as [H _]. exact H.
    Qed.

    Lemma main_in_range a : In a L -> low x L <= h_num a <= h_num x /\ h_num a < two63.
    Proof.
      intro I. apply In_nth_error in I. destruct I as [i E]. destruct (main_num _ _ E) as [H1 H2].
      assert (Hi : (i < length L)%nat) by (apply nth_error_Some; congruence).
      pose proof main_low. split; [lia | exact H2].
    Qed.

    (** at every height between the lowest and the head there is exactly one element *)
    Lemma main_at k : low x L <= k <= h_num x -> exists a, nth_error L (N.to_nat (h_num x - k)) = Some a /\ h_num a = k.
    Proof.
      intro R. pose proof main_low as ML.
      destruct (nth_error L (N.to_nat (h_num x - k))) as [a|] eqn:E.
      - exists a. split; [reflexivity|]. destruct (main_num _ _ E) as [H _]. lia.
      - exfalso. apply nth_error_None in E. destruct (main_cons _ _ _ M) as [l EL]. rewrite EL in E, ML, R. cbn [length] in E, ML. lia.
    Qed.

    Lemma main_num_inj a b : In a L -> In b L -> h_num a = h_num b -> a = b.
    Proof.
      intros Ia Ib E. apply In_nth_error in Ia, Ib. destruct Ia as [i Ea], Ib as [j Eb].
      destruct (main_num _ _ Ea) as [Ha _], (main_num _ _ Eb) as [Hb _].
      assert (i = j) by lia. subst j. congruence.
    Qed.

    Lemma main_stored (S : Stored ix x) a : In a L -> Stored ix a.
    Proof.
      intro I. destruct (main_in _ _ _ _ M I) as [i [E _]]. exact (nth_anc_stored _ _ _ _ _ _ WF Hx S E).
    Qed.

    Lemma main_parent i a b : nth_error L i = Some a -> nth_error L (S i) = Some b -> parent_of ix a = Some b.
    Proof.
      intros Ea Eb. rewrite <- M in Ea, Eb. rewrite nth_anc_S, Ea in Eb. exact Eb.
    Qed.
  End WithWf.

  (** * Dead path *)
  Lemma deadpath_mono ix ix' k D : (forall k', iget k' ix = None -> iget k' ix' = None) -> DeadPath ix k D -> DeadPath ix' k D.
  Proof.
    intro A. revert k; induction D as [|d D IH]; intros k H; [exact H|].
    cbn in *. destruct H as [H1 [H2 [[H3 H5] H4]]]. repeat split; auto.
  Qed.

  (** nothing is stored under the parent key of a dead header, nor under the bottom key *)
  Lemma deadpath_parent_gone ix k D :
    (forall x n a, iget (x, n) ix = Some a -> g0 <= n < two63) ->
    DeadPath ix k D -> iget k ix = None /\ forall d, In d D -> iget (pkey d) ix = None /\ h_num d < two63 /\ U d.
  Proof.
    intro R. revert k; induction D as [|d D IH]; intros k H.
    - cbn in H. split; [|intros d []].
      destruct (iget k ix) as [a|] eqn:E; [|reflexivity]. destruct k as [x n]. apply R in E. cbn in H. lia.
    - cbn in H. destruct H as [H1 [H2 [H3 H4]]]. split; [exact H2|].
      destruct (IH _ H4) as [G1 G2]. intros d' [<-|I]; [split; [assumption | exact H3] | apply G2; exact I].
  Qed.

  Lemma deadpath_keys ix k D d : DeadPath ix k D -> In d D -> iget (key d) ix = None.
  Proof.
    revert k; induction D as [|e D IH]; intros k H I; [contradiction|].
    cbn in H. destruct H as [H1 [H2 [H3 H4]]]. destruct I as [<-|I]; [rewrite H1; exact H2 | eapply IH; eauto].
  Qed.

  (** * Ancestors under deletion from / addition to the index *)
  Lemma nth_anc_mono ix ix' x i a :
    (forall k v, iget k ix' = Some v -> iget k ix = Some v) -> nth_anc ix' x i = Some a -> nth_anc ix x i = Some a.
  Proof.
    intro A. revert x; induction i as [|i IH]; intros x E; [exact E|].
    cbn in *. unfold parent_of in *. destruct (iget _ ix') as [p|] eqn:P; [|discriminate].
    rewrite (A _ _ P). apply IH; exact E.
  Qed.

  Lemma nth_anc_del ix kd x i a :
    nth_anc ix x i = Some a ->
    (forall j b, (j < i)%nat -> nth_anc ix x j = Some b -> pkey b <> kd) ->
    nth_anc (idel kd ix) x i = Some a.
  Proof.
    revert x; induction i as [|i IH]; intros x E N; [exact E|].
    cbn in *. destruct (parent_of ix x) as [p|] eqn:P; [|discriminate].
    assert (P' : parent_of (idel kd ix) x = Some p).
    { unfold parent_of in *. unfold idel. rewrite iget_idel.
      destruct (hkey_eqb_spec (to_hash (h_parent x), sub64 (h_num x) 1) kd) as [K|_]; [|exact P].
      exfalso. apply (N 0%nat x); [lia | reflexivity | exact K]. }
    rewrite P'. apply IH; [exact E|].
    intros j b Hj Eb. apply (N (S j) b); [lia|]. cbn. rewrite P. exact Eb.
  Qed.

  Lemma idel_sub kd (ix : imap) k v : iget k (idel kd ix) = Some v -> iget k ix = Some v.
  Proof. unfold idel. rewrite iget_idel. destruct (hkey_eqb k kd); [discriminate | tauto]. Qed.

  Lemma idel_none kd (ix : imap) k : iget k ix = None -> iget k (idel kd ix) = None.
  Proof. unfold idel. rewrite iget_idel. destruct (hkey_eqb k kd); [reflexivity | tauto]. Qed.

  Lemma last_app1 {A} (l : list A) (a d : A) : last (l ++ [a]) d = a.
  Proof. apply last_last. Qed.

  (** * The pruning step *)
  Definition pruned (s : state) (aL : header) : state :=
    {| head := head s; chain_id := chain_id s; trusting := trusting s;
       idx := idel (key aL) (idx s);
       rmain := rdel (to_hash (h_root aL), h_num aL) (rmain s);
       cons := cdel (r0, h_num aL) (cons s) |}.

  Lemma inv_head_wf s L D : Inv s L D -> wf_hdr (head s).
  Proof. intro I. exact (stored_wf _ _ _ _ (inv_wf _ _ _ I) (inv_head _ _ _ I)). Qed.

  Lemma inv_first_cons s L D : Inv s L D ->
    cfirst (cons s) = Some ((r0, low (head s) L), cstate_of (last L (head s))).
  Proof.
    intro I. destruct (inv_head_wf _ _ _ I) as [Hr [Hx _]].
    pose proof (inv_main _ _ _ I) as M. pose proof (inv_wf _ _ _ I) as WF.
    destruct (main_last _ _ _ M) as [EL _].
    destruct (main_anc_in _ _ _ _ _ M EL) as [InL _].
    pose proof (inv_cmain _ _ _ I _ InL) as CL.
    destruct (cfirst (cons s)) as [[k c]|] eqn:F.
    - pose proof (cfirst_in _ _ F) as Fin.
      pose proof (in_mget_nodup ckey_eqb ckey_eqb_spec _ _ _ (inv_cnodup _ _ _ I) Fin) as Fget.
      destruct k as [r n]. destruct (inv_cdom _ _ _ I _ _ _ Fget) as [-> Hn].
      pose proof (cfirst_min _ _ F _ (mget_in ckey_eqb ckey_eqb_spec _ _ _ CL)) as Min.
      unfold ckey_le in Min. cbn [fst snd] in Min. unfold low in *.
      assert (n = h_num (last L (head s))) as -> by (destruct Min as [?|[_ ?]]; lia).
      unfold cget in *. rewrite CL in Fget. inversion Fget; subst. reflexivity.
    - apply cfirst_none in F. unfold cget in CL. rewrite F in CL. discriminate.
  Qed.

  Lemma prune_spec bt s L D :
    Inv s L D -> active bt s = true ->
    (prune_due bt s = false /\ prune bt s = Ok s) \/
    (prune_due bt s = true /\ exists (L1 : list header) (aL : header), L = L1 ++ [aL] /\ L1 <> [] /\
       prune bt s = Ok (pruned s aL) /\ Inv (pruned s aL) L1 (aL :: D) /\
       low (head s) L1 = low (head s) L + 1 /\ Stored (idx s) aL /\ parent_of (idx s) aL = None).
  Proof.
    intros I Act. pose proof (inv_first_cons _ _ _ I) as F.
    destruct (inv_head_wf _ _ _ I) as [Hr [Hx Hg]].
    pose proof (inv_main _ _ _ I) as M. pose proof (inv_wf _ _ _ I) as WF.
    set (aL := last L (head s)) in *.
    unfold prune_due, prune. rewrite F. cbn [c_time cstate_of snd c_root].
    destruct (add64 (h_time aL) (trusting s) <? bt) eqn:X; [right | left; split; reflexivity].
    split; [reflexivity|].
    destruct (main_last _ _ _ M) as [EL PL]. fold aL in EL, PL.
    destruct (main_anc_in _ _ _ _ _ M EL) as [InL _].
    pose proof (main_stored _ _ _ WF Hx M (inv_head _ _ _ I) _ InL) as SL.
    (* the earliest state is not the head's: the head is active *)
    assert (NH : aL <> head s).
    { intro E. unfold active in Act. rewrite Hr in Act.
      destruct (main_cons _ _ _ M) as [l EqL].
      assert (InH : In (head s) L) by (rewrite EqL; left; reflexivity).
      rewrite (inv_cmain _ _ _ I _ InH) in Act. cbn [c_time cstate_of] in Act. rewrite <- E, X in Act. discriminate. }
    destruct (main_cons _ _ _ M) as [l EqL].
    assert (NE : L <> []) by (rewrite EqL; discriminate).
    destruct (exists_last NE) as [L1 [a EqL1]].
    assert (a = aL) as -> by (unfold aL; rewrite EqL1; symmetry; apply last_last).
    exists L1, aL. split; [exact EqL1|].
    assert (NE1 : L1 <> []).
    { intro Z. rewrite Z in EqL1. cbn in EqL1. rewrite EqL in EqL1. inversion EqL1; subst. congruence. }
    split; [exact NE1|].
    (* the root-main entry of the earliest state's header *)
    assert (LowL : low (head s) L = h_num aL) by reflexivity.
    rewrite LowL.
    rewrite (inv_rmain _ _ _ I aL SL) by (try (rewrite LowL; lia); intros _; exact InL).
    split; [reflexivity|].
    (* indices *)
    set (n := length L1).
    assert (LenL : length L = S n) by (rewrite EqL1, app_length; cbn; unfold n; lia).
    assert (Hn : (1 <= n)%nat) by (unfold n; destruct L1; [congruence | cbn; lia]).
    assert (NthL1 : forall i, (i < n)%nat -> nth_error L i = nth_error L1 i).
    { intros i Hi. rewrite EqL1. apply nth_error_app1. exact Hi. }
    assert (NthLn : nth_error L n = Some aL).
    { rewrite EqL1. rewrite nth_error_app2 by (unfold n; lia). replace (n - length L1)%nat with 0%nat by (unfold n; lia). reflexivity. }
    destruct (main_num _ _ _ WF Hx M _ _ NthLn) as [NumL HaL].
    assert (NumI : forall i a, nth_error L i = Some a -> (i < n)%nat -> h_num aL < h_num a).
    { intros i a E Hi. destruct (main_num _ _ _ WF Hx M _ _ E) as [Na _]. lia. }
    (* the element above the pruned one *)
    destruct (nth_error L1 (n - 1)) as [aU|] eqn:EU; [|apply nth_error_None in EU; unfold n in *; lia].
    assert (EU' : nth_error L (n - 1) = Some aU) by (rewrite NthL1 by lia; exact EU).
    assert (PU : parent_of (idx s) aU = Some aL).
    { apply (main_parent _ _ _ M (n - 1)%nat); [exact EU'|]. replace (S (n - 1)) with n by lia. exact NthLn. }
    destruct (main_num _ _ _ WF Hx M _ _ EU') as [NumU HaU].
    destruct (parent_of_spec _ _ _ _ _ WF HaU PU) as [KU [NU _]].
    assert (LastL1 : last L1 (head s) = aU).
    { pose proof (nth_error_last L1 (head s) NE1) as Q. fold n in Q. rewrite EU in Q. inversion Q; reflexivity. }
    assert (Low1 : low (head s) L1 = h_num aL + 1) by (unfold low; rewrite LastL1; lia).
    split.
    2:{ split; [exact Low1|]. split; assumption. }
    constructor; cbn [idx cons rmain head pruned].
    - (* inv_wf *) intros x k a E. apply idel_sub in E. exact (WF _ _ _ E).
    - (* inv_main *) intro i. destruct (nth_error L1 i) as [a|] eqn:E.
      + assert (Hi : (i < n)%nat) by (apply nth_error_Some; congruence).
        apply nth_anc_del; [rewrite M, NthL1 by exact Hi; exact E|].
        intros j b Hj Eb Kb. rewrite M in Eb.
        destruct (nth_error L (S j)) as [b'|] eqn:Eb'; [|apply nth_error_None in Eb'; lia].
        pose proof (main_parent _ _ _ M _ _ _ Eb Eb') as Pb.
        destruct (main_num _ _ _ WF Hx M _ _ Eb) as [_ Hb].
        destruct (parent_of_spec _ _ _ _ _ WF Hb Pb) as [Kb' _].
        assert (h_num b' = h_num aL) by (rewrite <- Kb' in Kb; inversion Kb; reflexivity).
        assert (h_num aL < h_num b') by (apply (NumI (S j)); [exact Eb' | lia]). lia.
      + apply nth_error_None in E. fold n in E.
        destruct (nth_anc (idel (key aL) (idx s)) (head s) i) as [a|] eqn:A; [|reflexivity]. exfalso.
        destruct (nth_anc_le _ _ n _ _ A E) as [b B].
        replace n with (S (n - 1)) in B by lia. rewrite nth_anc_S in B.
        destruct (nth_anc (idel (key aL) (idx s)) (head s) (n - 1)) as [u|] eqn:Uu; [|discriminate].
        pose proof (nth_anc_mono _ _ _ _ _ (idel_sub (key aL) (idx s)) Uu) as Uu'. rewrite M, EU' in Uu'. inversion Uu'; subst u.
        unfold parent_of in B. change (to_hash (h_parent aU), sub64 (h_num aU) 1) with (pkey aU) in B. rewrite <- KU in B. unfold idel in B. rewrite iget_idel, hkey_eqb_refl in B. discriminate.
    - (* inv_head *) unfold Stored. unfold idel. rewrite iget_idel.
      destruct (hkey_eqb_spec (key (head s)) (key aL)) as [K|_]; [|exact (inv_head _ _ _ I)].
      exfalso. assert (h_num (head s) = h_num aL) by (inversion K; reflexivity). lia.
    - (* inv_cdom *) intros r k c E. unfold cdel in E. rewrite cget_cdel in E.
      destruct (ckey_eqb_spec (r, k) (r0, h_num aL)) as [K|NK]; [discriminate|].
      destruct (inv_cdom _ _ _ I _ _ _ E) as [-> Hk]. split; [reflexivity|]. rewrite Low1. rewrite LowL in Hk.
      assert (k <> h_num aL) by congruence. lia.
    - (* inv_cmain *) intros a Ia. unfold cdel. rewrite cget_cdel.
      apply In_nth_error in Ia. destruct Ia as [i Ea].
      assert (Hi : (i < n)%nat) by (apply nth_error_Some; congruence).
      rewrite <- NthL1 in Ea by exact Hi.
      destruct (ckey_eqb_spec (r0, h_num a) (r0, h_num aL)) as [K|_].
      + exfalso. assert (h_num a = h_num aL) by congruence. pose proof (NumI _ _ Ea Hi). lia.
      + apply (inv_cmain _ _ _ I). eapply nth_error_In; exact Ea.
    - (* inv_cnodup *) apply (mdel_nodup ckey_eqb). exact (inv_cnodup _ _ _ I).
    - (* inv_closure *) intros a Sa Ha. unfold Stored in Sa. pose proof (idel_sub _ _ _ _ Sa) as Sa'.
      rewrite Low1 in Ha. pose proof (inv_closure _ _ _ I a Sa') as C. rewrite LowL in C.
      unfold parent_of in *. unfold idel. rewrite iget_idel.
      destruct (hkey_eqb_spec (to_hash (h_parent a), sub64 (h_num a) 1) (key aL)) as [K|_]; [|apply C; lia].
      exfalso. destruct (stored_wf _ _ _ _ WF Sa') as [_ [Ha63 _]].
      assert (Q : sub64 (h_num a) 1 = h_num aL) by (inversion K; reflexivity).
      rewrite sub64_pred in Q; [lia | lia | pose proof two63_lt_two64; lia].
    - (* inv_rmain *) intros a Sa Ha Ia. unfold Stored in Sa. pose proof (idel_sub _ _ _ _ Sa) as Sa'.
      rewrite Low1 in Ha. unfold rdel. rewrite rget_rdel.
      destruct (hkey_eqb_spec (to_hash (h_root a), h_num a) (to_hash (h_root aL), h_num aL)) as [K|_].
      + exfalso. assert (h_num a = h_num aL) by (inversion K; reflexivity). lia.
      + apply (inv_rmain _ _ _ I a Sa'); [rewrite LowL; lia|].
        intro Fx. rewrite EqL1. apply in_or_app. left. exact (Ia Fx).
    - (* inv_low *) intros a Sa. apply (inv_low _ _ _ I). exact (idel_sub _ _ _ _ Sa).
    - (* inv_univ *) intros a Sa. apply (inv_univ _ _ _ I). exact (idel_sub _ _ _ _ Sa).
    - (* inv_dead *) rewrite LastL1. cbn [DeadPath]. split; [exact KU|].
      split; [unfold idel; rewrite iget_idel, KU, hkey_eqb_refl; reflexivity|].
      split; [split; [exact HaL | exact (inv_univ _ _ _ I aL SL)]|].
      apply (deadpath_mono (idx s)); [intros k' N; apply idel_none; exact N|].
      exact (inv_dead _ _ _ I).
  Qed.
End Inv.
