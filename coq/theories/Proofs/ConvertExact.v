(** C11 — exact amount or nothing: what a successful conversion changes, flow by flow. *)
From Teleport Require Import Base.Bytes Base.Outcome Model.Convert Proofs.ConvertBase.
Local Open Scope Z_scope.

Definition ind (b : bool) (v : Z) : Z := if b then v else 0.

Section Exact.
  Variable X : Type.
  Variable xcall : X -> Z -> Z -> call -> X * cres.
  Variable xcontract : X -> Z -> bool.
  Variable MODULE : Z.

  Notation state := (state X).
  Notation tokens := (tokens X).
  Implicit Types s : state.
  Implicit Types tk : tokens.

  (** ** Specification vocabulary *)
  (** every bank balance moved by exactly [f account denomination] *)
  Definition bank_shift (s s' : state) (f : Z -> bytes -> Z) : Prop :=
    forall x y, bget (s_bank s') x y = bget (s_bank s) x y + f x y.
  Definition supply_shift (s s' : state) (f : bytes -> Z) : Prop :=
    forall y, sget (s_supply s') y = sget (s_supply s) y + f y.
  (** parameters, registry, blocked list, send-enabled flags are untouched *)
  Definition same_gates (s s' : state) : Prop :=
    s_params s' = s_params s /\ s_evm_call s' = s_evm_call s /\ s_pairs s' = s_pairs s /\ s_erc20 s' = s_erc20 s /\
    s_denom s' = s_denom s /\ s_blocked s' = s_blocked s /\ s_send_default s' = s_send_default s /\ s_send s' = s_send s.
  (** no account disappears, at most [who] is created *)
  Definition accts_plus (s s' : state) (who : Z) : Prop :=
    forall x, zmem x (s_accts s') = zmem x (s_accts s) || (x =? who).

  (** the module reads balanceOf(watch), [caller] performs [cl], the module reads balanceOf(watch) again: both
      reads succeed, the call succeeds with result [res], the balance read moved by exactly [dv], and the token
      contracts end in the state produced by exactly these three calls *)
  Definition tok_balance (tk : tokens) (c a : Z) : tokens * option Z :=
    let '(tk', r) := tok_exec xcall MODULE tk c MODULE (CBalanceOf a) in (tk', cr_ret r).
  Definition token_effect (tk tk' : tokens) (c caller : Z) (cl : call) (watch dv : Z) (res : cres) : Prop :=
    exists tk0 v0 tk1 v1,
      tok_balance tk c watch = (tk0, Some v0) /\
      tok_exec xcall MODULE tk0 c caller cl = (tk1, res) /\ cr_ok res = true /\
      tok_balance tk1 c watch = (tk', Some v1) /\
      v1 = v0 + dv.

  (** ** Primitives *)
  Lemma evm_call_inv s c caller cl s' r :
    evm_call xcall MODULE s c caller cl = (s', r) ->
    (cr_ok r = true /\ zmem caller (s_accts s) = true /\ s_evm_call s = true /\
     exists tk', tok_exec xcall MODULE (s_tokens s) c caller cl = (tk', r) /\ s' = set_tokens s tk')
    \/ (r = cfail /\ s' = s).
  Proof.
    unfold evm_call. destruct (zmem caller (s_accts s)) eqn:A; cbn [negb orb].
    2:{ intro H; inversion H; right; split; reflexivity. }
    destruct (s_evm_call s) eqn:E; cbn [negb].
    2:{ intro H; inversion H; right; split; reflexivity. }
    destruct (tok_exec xcall MODULE (s_tokens s) c caller cl) as [tk' r0] eqn:T.
    destruct (cr_ok r0) eqn:O; intro H; inversion H; subst.
    - left. repeat split; try assumption. exists tk'. split; reflexivity.
    - right; split; reflexivity.
  Qed.

  Lemma balance_of_some s c a s' v :
    balance_of xcall MODULE s c a = (s', Some v) ->
    zmem MODULE (s_accts s) = true /\ s_evm_call s = true /\
    exists tk', tok_balance (s_tokens s) c a = (tk', Some v) /\ s' = set_tokens s tk'.
  Proof.
    unfold balance_of. destruct (evm_call xcall MODULE s c MODULE (CBalanceOf a)) as [s1 r] eqn:E.
    intro H; inversion H; subst. apply evm_call_inv in E as [(O & A & C & tk' & T & ->)|[-> ->]].
    - repeat split; try assumption. exists tk'. unfold tok_balance. rewrite T. split; [congruence | reflexivity].
    - cbn in *. discriminate.
  Qed.

  Lemma sub_coins_inv s f d a s' :
    sub_coins s f d a = Ok s' ->
    valid_denom d = true /\ 0 < a /\ a <= bget (s_bank s) f d /\
    s' = set_bank s (bset (s_bank s) f d (bget (s_bank s) f d - a)).
  Proof.
    unfold sub_coins, coin_valid. destruct (valid_denom d); cbn [negb andb]; [|discriminate].
    destruct (0 <? a) eqn:P; cbn [negb andb]; [|discriminate]. apply Z.ltb_lt in P.
    destruct (bget (s_bank s) f d <? a) eqn:L; [discriminate|]. apply Z.ltb_ge in L.
    intro H; inversion H. repeat split; assumption.
  Qed.

  Lemma add_coins_inv s t d a s' :
    add_coins s t d a = Ok s' ->
    valid_denom d = true /\ 0 < a /\ bget (s_bank s) t d + a < INTMAX /\
    s' = set_bank s (bset (s_bank s) t d (bget (s_bank s) t d + a)).
  Proof.
    unfold add_coins, coin_valid. destruct (valid_denom d); cbn [negb andb]; [|discriminate].
    destruct (0 <? a) eqn:P; cbn [negb andb]; [|discriminate]. apply Z.ltb_lt in P.
    destruct (INTMAX <=? bget (s_bank s) t d + a) eqn:L; [discriminate|]. apply Z.leb_gt in L.
    intro H; inversion H. repeat split; assumption.
  Qed.

  Lemma ensure_acct_proj s a :
    s_params (ensure_acct s a) = s_params s /\ s_evm_call (ensure_acct s a) = s_evm_call s /\
    s_pairs (ensure_acct s a) = s_pairs s /\ s_erc20 (ensure_acct s a) = s_erc20 s /\
    s_denom (ensure_acct s a) = s_denom s /\ s_bank (ensure_acct s a) = s_bank s /\
    s_supply (ensure_acct s a) = s_supply s /\ s_blocked (ensure_acct s a) = s_blocked s /\
    s_send_default (ensure_acct s a) = s_send_default s /\ s_send (ensure_acct s a) = s_send s /\
    s_mtok (ensure_acct s a) = s_mtok s /\ s_ext (ensure_acct s a) = s_ext s.
  Proof. unfold ensure_acct. destruct (zmem a (s_accts s)); cbn; repeat split; reflexivity. Qed.

  Lemma ensure_acct_accts s a x : zmem x (s_accts (ensure_acct s a)) = zmem x (s_accts s) || (x =? a).
  Proof.
    unfold ensure_acct. destruct (zmem a (s_accts s)) eqn:E.
    - destruct (Z.eqb_spec x a) as [->|N]; [rewrite E; reflexivity | rewrite orb_false_r; reflexivity].
    - cbn. rewrite (Z.eqb_sym a x). apply orb_comm.
  Qed.

  (** [send_coins]: explicit result *)
  Definition sent (s : state) (f t : Z) (d : bytes) (a : Z) : state :=
    let b1 := bset (s_bank s) f d (bget (s_bank s) f d - a) in
    ensure_acct (set_bank s (bset b1 t d (bget b1 t d + a))) t.

  Lemma send_coins_inv s f t d a s' :
    send_coins s f t d a = Ok s' ->
    valid_denom d = true /\ 0 < a /\ a <= bget (s_bank s) f d /\ s' = sent s f t d a.
  Proof.
    unfold send_coins. destruct (sub_coins s f d a) as [s1| |] eqn:S; cbn; try discriminate.
    apply sub_coins_inv in S as (V & P & L & ->).
    destruct (add_coins _ t d a) as [s2| |] eqn:A; cbn; try discriminate.
    apply add_coins_inv in A as (_ & _ & _ & ->). cbn.
    intro H; inversion H. repeat split; try assumption.
  Qed.

  Lemma sent_bank s f t d a x y :
    bget (s_bank (sent s f t d a)) x y =
    bget (s_bank s) x y + ind ((x =? f) && bytes_eqb y d) (- a) + ind ((x =? t) && bytes_eqb y d) a.
  Proof.
    unfold sent. destruct (ensure_acct_proj (set_bank s (bset (bset (s_bank s) f d (bget (s_bank s) f d - a)) t d
      (bget (bset (s_bank s) f d (bget (s_bank s) f d - a)) t d + a))) t) as (_ & _ & _ & _ & _ & -> & _).
    cbn [s_bank set_bank]. rewrite !bget_bset. unfold ind.
    rewrite (Z.eqb_sym t x), (Z.eqb_sym f x), (bytes_eqb_sym d y), (Z.eqb_sym f t).
    destruct (Z.eqb_spec x t), (Z.eqb_spec x f), (bytes_eqb_spec y d); subst; cbn;
      rewrite ?Z.eqb_refl, ?bytes_eqb_refl; cbn; try lia;
      try (destruct (Z.eqb_spec t f); subst; cbn; try lia; try congruence).
  Qed.

  Lemma send_module_inv s t d a s' :
    send_module_to_account MODULE s t d a = Ok s' ->
    zmem t (s_blocked s) = false /\ valid_denom d = true /\ 0 < a /\ a <= bget (s_bank s) MODULE d /\
    s' = sent s MODULE t d a.
  Proof.
    unfold send_module_to_account. destruct (zmem t (s_blocked s)); [discriminate|].
    intro H. apply send_coins_inv in H. tauto.
  Qed.

  Lemma mint_coins_inv s d a s' :
    mint_coins MODULE s d a = Ok s' ->
    valid_denom d = true /\ 0 < a /\
    s' = set_supply (set_bank s (bset (s_bank s) MODULE d (bget (s_bank s) MODULE d + a)))
                    (sset (s_supply s) d (sget (s_supply s) d + a)).
  Proof.
    unfold mint_coins. destruct (add_coins s MODULE d a) as [s1| |] eqn:A; cbn [obind]; try discriminate.
    apply add_coins_inv in A as (V & P & _ & ->). cbn [s_supply set_bank].
    destruct (INTMAX <=? sget (s_supply s) d + a); [discriminate|].
    intro H; inversion H. repeat split; assumption.
  Qed.

  Lemma burn_coins_inv s d a s' :
    burn_coins MODULE s d a = Ok s' ->
    valid_denom d = true /\ 0 < a /\ a <= bget (s_bank s) MODULE d /\ a <= sget (s_supply s) d /\
    s' = set_supply (set_bank s (bset (s_bank s) MODULE d (bget (s_bank s) MODULE d - a)))
                    (sset (s_supply s) d (sget (s_supply s) d - a)).
  Proof.
    unfold burn_coins. destruct (sub_coins s MODULE d a) as [s1| |] eqn:A; cbn [obind]; try discriminate.
    apply sub_coins_inv in A as (V & P & L & ->). cbn [s_supply set_bank].
    destruct (sget (s_supply s) d <? a) eqn:L2; [discriminate|]. apply Z.ltb_ge in L2.
    intro H; inversion H. repeat split; assumption.
  Qed.

  Lemma get_balance_inv s a d b : get_balance s a d = Ok b -> b = bget (s_bank s) a d.
  Proof.
    unfold get_balance. destruct ((bget (s_bank s) a d =? 0) && negb (valid_denom d)); [discriminate|].
    intro H; inversion H; reflexivity.
  Qed.

  Lemma sent_proj s f t d a :
    s_params (sent s f t d a) = s_params s /\ s_evm_call (sent s f t d a) = s_evm_call s /\
    s_pairs (sent s f t d a) = s_pairs s /\ s_erc20 (sent s f t d a) = s_erc20 s /\
    s_denom (sent s f t d a) = s_denom s /\
    s_supply (sent s f t d a) = s_supply s /\ s_blocked (sent s f t d a) = s_blocked s /\
    s_send_default (sent s f t d a) = s_send_default s /\ s_send (sent s f t d a) = s_send s /\
    s_mtok (sent s f t d a) = s_mtok s /\ s_ext (sent s f t d a) = s_ext s.
  Proof.
    unfold sent.
    match goal with |- context [ensure_acct ?st ?t] =>
      destruct (ensure_acct_proj st t) as (-> & -> & -> & -> & -> & _ & -> & -> & -> & -> & -> & ->) end.
    cbn. repeat split; reflexivity.
  Qed.

  Lemma sent_accts s f t d a x : zmem x (s_accts (sent s f t d a)) = zmem x (s_accts s) || (x =? t).
  Proof. unfold sent. rewrite ensure_acct_accts. reflexivity. Qed.

  Lemma sent_tokens s f t d a : s_tokens (sent s f t d a) = s_tokens s.
  Proof.
    unfold s_tokens. destruct (sent_proj s f t d a) as (_ & _ & _ & _ & _ & _ & _ & _ & _ & -> & ->). reflexivity.
  Qed.

  Lemma zmem_absorb x who l : zmem who l = true -> zmem x l || (x =? who) = zmem x l.
  Proof. intro H. destruct (Z.eqb_spec x who) as [->|N]; [rewrite H; reflexivity | apply orb_false_r]. Qed.

  Lemma tokens_eta tk : (fst tk, snd tk) = tk.
  Proof. destruct tk; reflexivity. Qed.

  (** ** Flow 1.1: coin -> token, contract owned by the module *)
  Lemma cc_native_coin_exact s p d a r u s' :
    convert_coin_native_coin xcall MODULE s p d a r u = Ok s' ->
    valid_denom d = true /\ 0 < a /\ a <= bget (s_bank s) u d /\
    bank_shift s s' (fun x y => ind ((x =? u) && bytes_eqb y d) (- a) + ind ((x =? MODULE) && bytes_eqb y d) a) /\
    supply_shift s s' (fun _ => 0) /\ same_gates s s' /\ accts_plus s s' MODULE /\ zmem MODULE (s_accts s) = true /\
    exists res, token_effect (s_tokens s) (s_tokens s') (p_erc20 p) MODULE (CMint r a) r a res.
  Proof.
    unfold convert_coin_native_coin.
    destruct (balance_of xcall MODULE s (p_erc20 p) r) as [s0 b0] eqn:B0.
    destruct (send_coins s0 u MODULE d a) as [s1| |] eqn:S; cbn [obind]; try discriminate.
    destruct (evm_call xcall MODULE s1 (p_erc20 p) MODULE (CMint r a)) as [s2 res] eqn:E.
    destruct (cr_ok res) eqn:O; cbn [negb]; [|discriminate].
    destruct (balance_of xcall MODULE s2 (p_erc20 p) r) as [s3 b1] eqn:B1.
    destruct b0 as [v0|]; [|discriminate]. destruct b1 as [v1|]; [|discriminate].
    destruct (v1 =? v0 + a) eqn:V; [|discriminate]. apply Z.eqb_eq in V.
    intro H; inversion H; subst s3; clear H.
    apply balance_of_some in B0 as (A0 & C0 & tk0 & T0 & ->).
    apply send_coins_inv in S as (VD & P & L & ->).
    apply evm_call_inv in E as [(_ & _ & _ & tk1 & T1 & ->)|[-> _]]; [|cbn in O; discriminate].
    apply balance_of_some in B1 as (_ & _ & tk2 & T2 & ->).
    rewrite sent_tokens in T1. cbn [s_tokens set_tokens s_mtok s_ext] in T1, T2.
    rewrite tokens_eta in T1, T2.
    destruct (sent_proj (set_tokens s tk0) u MODULE d a) as (Q1 & Q2 & Q3 & Q4 & Q5 & Q6 & Q7 & Q8 & Q9 & _ & _).
    cbn [s_bank set_tokens] in L.
    repeat split; try assumption.
    - intros x y. cbn [s_bank set_tokens]. rewrite sent_bank. cbn [s_bank set_tokens]. lia.
    - intro y. cbn [s_supply set_tokens]. rewrite Q6. cbn. lia.
    - cbn [set_tokens s_params]. rewrite Q1. reflexivity.
    - cbn [set_tokens s_evm_call]. rewrite Q2. reflexivity.
    - cbn [set_tokens s_pairs]. rewrite Q3. reflexivity.
    - cbn [set_tokens s_erc20]. rewrite Q4. reflexivity.
    - cbn [set_tokens s_denom]. rewrite Q5. reflexivity.
    - cbn [set_tokens s_blocked]. rewrite Q7. reflexivity.
    - cbn [set_tokens s_send_default]. rewrite Q8. reflexivity.
    - cbn [set_tokens s_send]. rewrite Q9. reflexivity.
    - intro x. cbn [set_tokens s_accts]. rewrite sent_accts. cbn [set_tokens s_accts]. reflexivity.
    - exists res, tk0, v0, tk1, v1. cbn [s_tokens set_tokens s_mtok s_ext]. rewrite tokens_eta.
      repeat split; assumption.
  Qed.
End Exact.
