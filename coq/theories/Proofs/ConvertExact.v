(** C11 — exact amount or nothing: what a successful conversion changes, flow by flow. *)
From Teleport Require Import Base.Bytes Base.Outcome Model.Convert Proofs.ConvertBase.
Local Open Scope Z_scope.

Definition ind (b : bool) (v : Z) : Z := if b then v else 0.

Section Exact.
  Variable X : Type.
  Variable xcall : X -> Z -> Z -> call -> X * cres.
  Variable xcontract : X -> Z -> bool.
  Variable MODULE : Z.

  Notation state := (state X).
  Notation tokens := (tokens X).
  Implicit Types s : state.
  Implicit Types tk : tokens.

  (** ** Specification vocabulary *)
  (** every bank balance moved by exactly [f account denomination] *)
  Definition bank_shift (s s' : state) (f : Z -> bytes -> Z) : Prop :=
    forall x y, bget (s_bank s') x y = bget (s_bank s) x y + f x y.
  Definition supply_shift (s s' : state) (f : bytes -> Z) : Prop :=
    forall y, sget (s_supply s') y = sget (s_supply s) y + f y.
  (** parameters, registry, blocked list, send-enabled flags are untouched *)
  Definition same_gates (s s' : state) : Prop :=
    s_params s' = s_params s /\ s_evm_call s' = s_evm_call s /\ s_pairs s' = s_pairs s /\ s_erc20 s' = s_erc20 s /\
    s_denom s' = s_denom s /\ s_blocked s' = s_blocked s /\ s_send_default s' = s_send_default s /\ s_send s' = s_send s.
  (** no account disappears, at most [who] is created *)
  Definition accts_plus (s s' : state) (who : Z) : Prop :=
    forall x, zmem x (s_accts s') = zmem x (s_accts s) || (x =? who).

  (** the module reads balanceOf(watch), [caller] performs [cl], the module reads balanceOf(watch) again: both
      reads succeed, the call succeeds with result [res], the balance read moved by exactly [dv], and the token
      contracts end in the state produced by exactly these three calls *)
  Definition tok_balance (tk : tokens) (c a : Z) : tokens * option Z :=
    let '(tk', r) := tok_exec xcall MODULE tk c MODULE (CBalanceOf a) in (tk', cr_ret r).
  Definition token_effect (tk tk' : tokens) (c caller : Z) (cl : call) (watch dv : Z) (res : cres) : Prop :=
    exists tk0 v0 tk1 v1,
      tok_balance tk c watch = (tk0, Some v0) /\
      tok_exec xcall MODULE tk0 c caller cl = (tk1, res) /\ cr_ok res = true /\
      tok_balance tk1 c watch = (tk', Some v1) /\
      v1 = v0 + dv.

  (** the same with two watched holders (flow 2.2 after the repair: receiver and module) *)
  Definition token_effect2 (tk tk' : tokens) (c caller : Z) (cl : call) (w1 d1 w2 d2 : Z) (res : cres) : Prop :=
    exists tka v0 tkb e0 tk1 tkc v1 e1,
      tok_balance tk c w1 = (tka, Some v0) /\ tok_balance tka c w2 = (tkb, Some e0) /\
      tok_exec xcall MODULE tkb c caller cl = (tk1, res) /\ cr_ok res = true /\
      tok_balance tk1 c w1 = (tkc, Some v1) /\ tok_balance tkc c w2 = (tk', Some e1) /\
      v1 = v0 + d1 /\ e1 = e0 + d2.

  (** ** Primitives *)
  Lemma evm_call_inv s c caller cl s' r :
    evm_call xcall MODULE s c caller cl = (s', r) ->
    (cr_ok r = true /\ zmem caller (s_accts s) = true /\ s_evm_call s = true /\
     exists tk', tok_exec xcall MODULE (s_tokens s) c caller cl = (tk', r) /\ s' = set_tokens s tk')
    \/ (r = cfail /\ s' = s).
  Proof.
    unfold evm_call. destruct (zmem caller (s_accts s)) eqn:A; cbn [negb orb].
    2:{ intro H; inversion H; right; split; reflexivity. }
    destruct (s_evm_call s) eqn:E; cbn [negb].
    2:{ intro H; inversion H; right; split; reflexivity. }
    destruct (tok_exec xcall MODULE (s_tokens s) c caller cl) as [tk' r0] eqn:T.
    destruct (cr_ok r0) eqn:O; intro H; inversion H; subst.
    - left. repeat split; try assumption. exists tk'. split; reflexivity.
    - right; split; reflexivity.
  Qed.

  Lemma balance_of_some s c a s' v :
    balance_of xcall MODULE s c a = (s', Some v) ->
    zmem MODULE (s_accts s) = true /\ s_evm_call s = true /\
    exists tk', tok_balance (s_tokens s) c a = (tk', Some v) /\ s' = set_tokens s tk'.
  Proof.
    unfold balance_of. destruct (evm_call xcall MODULE s c MODULE (CBalanceOf a)) as [s1 r] eqn:E.
    intro H; inversion H; subst. apply evm_call_inv in E as [(O & A & C & tk' & T & ->)|[-> ->]].
    - repeat split; try assumption. exists tk'. unfold tok_balance. rewrite T. split; [congruence | reflexivity].
    - cbn in *. discriminate.
  Qed.

  Lemma sub_coins_inv s f d a s' :
    sub_coins s f d a = Ok s' ->
    valid_denom d = true /\ 0 < a /\ a <= bget (s_bank s) f d /\
    s' = set_bank s (bset (s_bank s) f d (bget (s_bank s) f d - a)).
  Proof.
    unfold sub_coins, coin_valid. destruct (valid_denom d); cbn [negb andb]; [|discriminate].
    destruct (0 <? a) eqn:P; cbn [negb andb]; [|discriminate]. apply Z.ltb_lt in P.
    destruct (bget (s_bank s) f d <? a) eqn:L; [discriminate|]. apply Z.ltb_ge in L.
    intro H; inversion H. repeat split; assumption.
  Qed.

  Lemma add_coins_inv s t d a s' :
    add_coins s t d a = Ok s' ->
    valid_denom d = true /\ 0 < a /\ bget (s_bank s) t d + a < INTMAX /\
    s' = set_bank s (bset (s_bank s) t d (bget (s_bank s) t d + a)).
  Proof.
    unfold add_coins, coin_valid. destruct (valid_denom d); cbn [negb andb]; [|discriminate].
    destruct (0 <? a) eqn:P; cbn [negb andb]; [|discriminate]. apply Z.ltb_lt in P.
    destruct (INTMAX <=? bget (s_bank s) t d + a) eqn:L; [discriminate|]. apply Z.leb_gt in L.
    intro H; inversion H. repeat split; assumption.
  Qed.

  Lemma ensure_acct_proj s a :
    s_params (ensure_acct s a) = s_params s /\ s_evm_call (ensure_acct s a) = s_evm_call s /\
    s_pairs (ensure_acct s a) = s_pairs s /\ s_erc20 (ensure_acct s a) = s_erc20 s /\
    s_denom (ensure_acct s a) = s_denom s /\ s_bank (ensure_acct s a) = s_bank s /\
    s_supply (ensure_acct s a) = s_supply s /\ s_blocked (ensure_acct s a) = s_blocked s /\
    s_send_default (ensure_acct s a) = s_send_default s /\ s_send (ensure_acct s a) = s_send s /\
    s_mtok (ensure_acct s a) = s_mtok s /\ s_ext (ensure_acct s a) = s_ext s.
  Proof. unfold ensure_acct. destruct (zmem a (s_accts s)); cbn; repeat split; reflexivity. Qed.

  Lemma ensure_acct_accts s a x : zmem x (s_accts (ensure_acct s a)) = zmem x (s_accts s) || (x =? a).
  Proof.
    unfold ensure_acct. destruct (zmem a (s_accts s)) eqn:E.
    - destruct (Z.eqb_spec x a) as [->|N]; [rewrite E; reflexivity | rewrite orb_false_r; reflexivity].
    - cbn. rewrite (Z.eqb_sym a x). apply orb_comm.
  Qed.

  (** [send_coins]: explicit result *)
  Definition sent (s : state) (f t : Z) (d : bytes) (a : Z) : state :=
    let b1 := bset (s_bank s) f d (bget (s_bank s) f d - a) in
    ensure_acct (set_bank s (bset b1 t d (bget b1 t d + a))) t.

  Lemma send_coins_inv s f t d a s' :
    send_coins s f t d a = Ok s' ->
    valid_denom d = true /\ 0 < a /\ a <= bget (s_bank s) f d /\ s' = sent s f t d a.
  Proof.
    unfold send_coins. destruct (sub_coins s f d a) as [s1| |] eqn:S; cbn; try discriminate.
    apply sub_coins_inv in S as (V & P & L & ->).
    destruct (add_coins _ t d a) as [s2| |] eqn:A; cbn; try discriminate.
    apply add_coins_inv in A as (_ & _ & _ & ->). cbn.
    intro H; inversion H. repeat split; try assumption.
  Qed.

  Lemma sent_bank s f t d a x y :
    bget (s_bank (sent s f t d a)) x y =
    bget (s_bank s) x y + ind ((x =? f) && bytes_eqb y d) (- a) + ind ((x =? t) && bytes_eqb y d) a.
  Proof.
    unfold sent. destruct (ensure_acct_proj (set_bank s (bset (bset (s_bank s) f d (bget (s_bank s) f d - a)) t d
      (bget (bset (s_bank s) f d (bget (s_bank s) f d - a)) t d + a))) t) as (_ & _ & _ & _ & _ & -> & _).
    cbn [s_bank set_bank]. rewrite !bget_bset. unfold ind.
    rewrite (Z.eqb_sym t x), (Z.eqb_sym f x), (bytes_eqb_sym d y), (Z.eqb_sym f t).
    destruct (Z.eqb_spec x t), (Z.eqb_spec x f), (bytes_eqb_spec y d); subst; cbn;
      rewrite ?Z.eqb_refl, ?bytes_eqb_refl; cbn; try lia;
      try (destruct (Z.eqb_spec t f); subst; cbn; try lia; try congruence).
  Qed.

  Lemma send_module_inv s t d a s' :
    send_module_to_account MODULE s t d a = Ok s' ->
    zmem t (s_blocked s) = false /\ valid_denom d = true /\ 0 < a /\ a <= bget (s_bank s) MODULE d /\
    s' = sent s MODULE t d a.
  Proof.
    unfold send_module_to_account. destruct (zmem t (s_blocked s)); [discriminate|].
    intro H. apply send_coins_inv in H. tauto.
  Qed.

  Lemma mint_coins_inv s d a s' :
    mint_coins MODULE s d a = Ok s' ->
    valid_denom d = true /\ 0 < a /\
    s' = set_supply (set_bank s (bset (s_bank s) MODULE d (bget (s_bank s) MODULE d + a)))
                    (sset (s_supply s) d (sget (s_supply s) d + a)).
  Proof.
    unfold mint_coins. destruct (add_coins s MODULE d a) as [s1| |] eqn:A; cbn [obind]; try discriminate.
    apply add_coins_inv in A as (V & P & _ & ->). cbn [s_supply set_bank].
    destruct (INTMAX <=? sget (s_supply s) d + a); [discriminate|].
    intro H; inversion H. repeat split; assumption.
  Qed.

  Lemma burn_coins_inv s d a s' :
    burn_coins MODULE s d a = Ok s' ->
    valid_denom d = true /\ 0 < a /\ a <= bget (s_bank s) MODULE d /\ a <= sget (s_supply s) d /\
    s' = set_supply (set_bank s (bset (s_bank s) MODULE d (bget (s_bank s) MODULE d - a)))
                    (sset (s_supply s) d (sget (s_supply s) d - a)).
  Proof.
    unfold burn_coins. destruct (sub_coins s MODULE d a) as [s1| |] eqn:A; cbn [obind]; try discriminate.
    apply sub_coins_inv in A as (V & P & L & ->). cbn [s_supply set_bank].
    destruct (sget (s_supply s) d <? a) eqn:L2; [discriminate|]. apply Z.ltb_ge in L2.
    intro H; inversion H. repeat split; assumption.
  Qed.

  Lemma get_balance_inv s a d b : get_balance s a d = Ok b -> b = bget (s_bank s) a d.
  Proof.
    unfold get_balance. destruct ((bget (s_bank s) a d =? 0) && negb (valid_denom d)); [discriminate|].
    intro H; inversion H; reflexivity.
  Qed.

  Lemma sent_proj s f t d a :
    s_params (sent s f t d a) = s_params s /\ s_evm_call (sent s f t d a) = s_evm_call s /\
    s_pairs (sent s f t d a) = s_pairs s /\ s_erc20 (sent s f t d a) = s_erc20 s /\
    s_denom (sent s f t d a) = s_denom s /\
    s_supply (sent s f t d a) = s_supply s /\ s_blocked (sent s f t d a) = s_blocked s /\
    s_send_default (sent s f t d a) = s_send_default s /\ s_send (sent s f t d a) = s_send s /\
    s_mtok (sent s f t d a) = s_mtok s /\ s_ext (sent s f t d a) = s_ext s.
  Proof.
    unfold sent.
    match goal with |- context [ensure_acct ?st ?t] =>
      destruct (ensure_acct_proj st t) as (-> & -> & -> & -> & -> & _ & -> & -> & -> & -> & -> & ->) end.
    cbn. repeat split; reflexivity.
  Qed.

  Lemma sent_accts s f t d a x : zmem x (s_accts (sent s f t d a)) = zmem x (s_accts s) || (x =? t).
  Proof. unfold sent. rewrite ensure_acct_accts. reflexivity. Qed.

  Lemma sent_tokens s f t d a : s_tokens (sent s f t d a) = s_tokens s.
  Proof.
    unfold s_tokens. destruct (sent_proj s f t d a) as (_ & _ & _ & _ & _ & _ & _ & _ & _ & -> & ->). reflexivity.
  Qed.

  Lemma zmem_absorb x who l : zmem who l = true -> zmem x l || (x =? who) = zmem x l.
  Proof. intro H. destruct (Z.eqb_spec x who) as [->|N]; [rewrite H; reflexivity | apply orb_false_r]. Qed.

  Lemma tokens_eta tk : (fst tk, snd tk) = tk.
  Proof. destruct tk; reflexivity. Qed.

  Lemma s_tokens_set s tk : s_tokens (set_tokens s tk) = tk.
  Proof. unfold s_tokens; cbn. apply tokens_eta. Qed.

  (** ** Flow 1.1: coin -> token, contract owned by the module *)
  Lemma cc_native_coin_exact s p d a r u s' :
    convert_coin_native_coin xcall MODULE s p d a r u = Ok s' ->
    valid_denom d = true /\ 0 < a /\ a <= bget (s_bank s) u d /\
    bank_shift s s' (fun x y => ind ((x =? u) && bytes_eqb y d) (- a) + ind ((x =? MODULE) && bytes_eqb y d) a) /\
    supply_shift s s' (fun _ => 0) /\ same_gates s s' /\ accts_plus s s' MODULE /\ zmem MODULE (s_accts s) = true /\
    exists res, token_effect (s_tokens s) (s_tokens s') (p_erc20 p) MODULE (CMint r a) r a res.
  Proof.
    unfold convert_coin_native_coin.
    destruct (balance_of xcall MODULE s (p_erc20 p) r) as [s0 b0] eqn:B0.
    destruct (send_coins s0 u MODULE d a) as [s1| |] eqn:S; cbn [obind]; try discriminate.
    destruct (evm_call xcall MODULE s1 (p_erc20 p) MODULE (CMint r a)) as [s2 res] eqn:E.
    destruct (cr_ok res) eqn:O; cbn [negb]; [|discriminate].
    destruct (balance_of xcall MODULE s2 (p_erc20 p) r) as [s3 b1] eqn:B1.
    destruct b0 as [v0|]; [|discriminate]. destruct b1 as [v1|]; [|discriminate].
    destruct (v1 =? v0 + a) eqn:V; [|discriminate]. apply Z.eqb_eq in V.
    intro H; inversion H; subst s3; clear H.
    apply balance_of_some in B0 as (A0 & C0 & tk0 & T0 & ->).
    apply send_coins_inv in S as (VD & P & L & ->).
    apply evm_call_inv in E as [(_ & _ & _ & tk1 & T1 & ->)|[-> _]]; [|cbn in O; discriminate].
    apply balance_of_some in B1 as (_ & _ & tk2 & T2 & ->).
    rewrite sent_tokens, s_tokens_set in T1. rewrite s_tokens_set in T2.
    destruct (sent_proj (set_tokens s tk0) u MODULE d a) as (Q1 & Q2 & Q3 & Q4 & Q5 & Q6 & Q7 & Q8 & Q9 & _ & _).
    cbn [s_bank set_tokens] in L.
    repeat split; try assumption.
    - intros x y. cbn [s_bank set_tokens]. rewrite sent_bank. cbn [s_bank set_tokens]. ring.
    - intro y. cbn [s_supply set_tokens]. rewrite Q6. cbn [s_supply set_tokens]. ring.
    - intro x. cbn [set_tokens s_accts]. rewrite sent_accts. cbn [set_tokens s_accts]. reflexivity.
    - exists res, tk0, v0, tk1, v1. rewrite s_tokens_set. repeat split; assumption.
  Qed.

  Ltac ind_cases :=
    unfold ind;
    repeat match goal with |- context [Z.eqb ?a ?b] => destruct (Z.eqb_spec a b) end;
    repeat match goal with |- context [bytes_eqb ?a ?b] => destruct (bytes_eqb_spec a b) end;
    subst; cbn [andb]; try lia; try congruence.

  (** ** Flow 1.2: token -> coin, contract owned by the module *)
  Lemma ce_native_coin_exact s p d a r u s' :
    convert_erc20_native_coin xcall MODULE s p d a r u = Ok s' ->
    valid_denom d = true /\ 0 < a /\ a <= bget (s_bank s) MODULE d /\ zmem r (s_blocked s) = false /\
    bank_shift s s' (fun x y => ind ((x =? MODULE) && bytes_eqb y d) (- a) + ind ((x =? r) && bytes_eqb y d) a) /\
    supply_shift s s' (fun _ => 0) /\ same_gates s s' /\ accts_plus s s' r /\ zmem MODULE (s_accts s) = true /\
    exists res, token_effect (s_tokens s) (s_tokens s') (p_erc20 p) MODULE (CBurnCoins u a) u (- a) res.
  Proof.
    unfold convert_erc20_native_coin.
    destruct (get_balance s r d) as [bc0| |] eqn:G0; cbn [obind]; try discriminate.
    destruct (balance_of xcall MODULE s (p_erc20 p) u) as [s0 b0] eqn:B0.
    destruct (evm_call xcall MODULE s0 (p_erc20 p) MODULE (CBurnCoins u a)) as [s1 res] eqn:E.
    destruct (cr_ok res) eqn:O; cbn [negb]; [|discriminate].
    destruct (send_module_to_account MODULE s1 r d a) as [s2| |] eqn:S; cbn [obind]; try discriminate.
    destruct (get_balance s2 r d) as [bc1| |] eqn:G1; cbn [obind]; try discriminate.
    destruct (bc1 =? bc0 + a); cbn [negb]; [|discriminate].
    destruct (balance_of xcall MODULE s2 (p_erc20 p) u) as [s3 b1] eqn:B1.
    destruct b0 as [v0|]; [|discriminate]. destruct b1 as [v1|]; [|discriminate].
    destruct (v1 =? v0 - a) eqn:V; [|discriminate]. apply Z.eqb_eq in V.
    intro H; inversion H; subst s3; clear H.
    apply balance_of_some in B0 as (A0 & C0 & tk0 & T0 & ->).
    apply evm_call_inv in E as [(_ & _ & _ & tk1 & T1 & ->)|[-> _]]; [|cbn in O; discriminate].
    apply send_module_inv in S as (BL & VD & P & L & ->).
    apply balance_of_some in B1 as (_ & _ & tk2 & T2 & ->).
    rewrite s_tokens_set in T1. rewrite sent_tokens, s_tokens_set in T2.
    destruct (sent_proj (set_tokens (set_tokens s tk0) tk1) MODULE r d a) as (Q1 & Q2 & Q3 & Q4 & Q5 & Q6 & Q7 & Q8 & Q9 & _ & _).
    cbn [s_bank s_blocked set_tokens] in L, BL.
    repeat split; try assumption.
    - intros x y. cbn [s_bank set_tokens]. rewrite sent_bank. cbn [s_bank set_tokens]. ring.
    - intro y. cbn [s_supply set_tokens]. rewrite Q6. cbn [s_supply set_tokens]. ring.
    - intro x. cbn [set_tokens s_accts]. rewrite sent_accts. cbn [set_tokens s_accts]. reflexivity.
    - exists res, tk0, v0, tk1, v1. rewrite s_tokens_set. repeat split; assumption.
  Qed.

  (** flow 1.2 never pays out to the module account itself: the coin-balance check (after = before + a) cannot
      hold when the coins go from the module account to the module account *)
  Lemma ce_native_coin_receiver s p d a r u s' :
    convert_erc20_native_coin xcall MODULE s p d a r u = Ok s' -> r <> MODULE.
  Proof.
    unfold convert_erc20_native_coin.
    destruct (get_balance s r d) as [bc0| |] eqn:G0; cbn [obind]; try discriminate.
    destruct (balance_of xcall MODULE s (p_erc20 p) u) as [s0 b0] eqn:B0.
    destruct (evm_call xcall MODULE s0 (p_erc20 p) MODULE (CBurnCoins u a)) as [s1 res] eqn:E.
    destruct (cr_ok res) eqn:O; cbn [negb]; [|discriminate].
    destruct (send_module_to_account MODULE s1 r d a) as [s2| |] eqn:S; cbn [obind]; try discriminate.
    destruct (get_balance s2 r d) as [bc1| |] eqn:G1; cbn [obind]; try discriminate.
    destruct (bc1 =? bc0 + a) eqn:BC; cbn [negb]; [|discriminate]. apply Z.eqb_eq in BC.
    intros _ ->.
    apply get_balance_inv in G0. apply get_balance_inv in G1.
    assert (BK : forall st c k cl st' rr, evm_call xcall MODULE st c k cl = (st', rr) -> s_bank st' = s_bank st).
    { intros st c k cl st' rr H. apply evm_call_inv in H as [(_ & _ & _ & tk & _ & ->)|[_ ->]]; reflexivity. }
    assert (K1 : s_bank s0 = s_bank s).
    { unfold balance_of in B0. destruct (evm_call xcall MODULE s (p_erc20 p) MODULE (CBalanceOf u)) as [sa ra] eqn:EA.
      inversion B0; subst. eapply BK; exact EA. }
    pose proof (BK _ _ _ _ _ _ E) as K2.
    apply send_module_inv in S as (_ & _ & P & _ & ->).
    rewrite sent_bank in G1. rewrite K2, K1 in G1. rewrite Z.eqb_refl, bytes_eqb_refl in G1. cbn [andb] in G1.
    unfold ind in G1. lia.
  Qed.

  (** ** Flow 2.1: token -> voucher coin, external contract *)
  Lemma ce_native_token_exact s p d a r u s' :
    convert_erc20_native_token xcall MODULE s p d a r u = Ok s' ->
    valid_denom d = true /\ 0 < a /\ zmem r (s_blocked s) = false /\ zmem u (s_accts s) = true /\
    bank_shift s s' (fun x y => ind ((x =? r) && bytes_eqb y d) a) /\
    supply_shift s s' (fun y => ind (bytes_eqb y d) a) /\ same_gates s s' /\ accts_plus s s' r /\
    zmem MODULE (s_accts s) = true /\
    exists res, token_effect (s_tokens s) (s_tokens s') (p_erc20 p) u (CTransfer MODULE a) MODULE a res /\
                unpack_bool (cr_ret res) = Some true /\ approval_check (cr_logs res) = Ok tt.
  Proof.
    unfold convert_erc20_native_token.
    destruct (get_balance s r d) as [bc0| |] eqn:G0; cbn [obind]; try discriminate.
    destruct (balance_of xcall MODULE s (p_erc20 p) MODULE) as [s0 b0] eqn:B0.
    destruct (evm_call xcall MODULE s0 (p_erc20 p) u (CTransfer MODULE a)) as [s1 res] eqn:E.
    destruct (cr_ok res) eqn:O; cbn [negb]; [|discriminate].
    destruct (unpack_bool (cr_ret res)) as [[|]|] eqn:U; try discriminate.
    destruct (balance_of xcall MODULE s1 (p_erc20 p) MODULE) as [s2 b1] eqn:B1.
    destruct b0 as [v0|]; [|discriminate]. destruct b1 as [v1|]; [|discriminate].
    destruct (v1 =? v0 + a) eqn:V; cbn [negb]; [|discriminate]. apply Z.eqb_eq in V.
    destruct (mint_coins MODULE s2 d a) as [s3| |] eqn:M; cbn [obind]; try discriminate.
    destruct (send_module_to_account MODULE s3 r d a) as [s4| |] eqn:S; cbn [obind]; try discriminate.
    destruct (get_balance s4 r d) as [bc1| |] eqn:G1; cbn [obind]; try discriminate.
    destruct (bc1 =? bc0 + a); cbn [negb]; [|discriminate].
    destruct (approval_check (cr_logs res)) as [[]| |] eqn:AP; cbn [obind]; try discriminate.
    intro H; inversion H; subst s4; clear H.
    apply balance_of_some in B0 as (A0 & C0 & tk0 & T0 & ->).
    apply evm_call_inv in E as [(_ & AU & _ & tk1 & T1 & ->)|[-> _]]; [|cbn in O; discriminate].
    apply balance_of_some in B1 as (_ & _ & tk2 & T2 & ->).
    apply mint_coins_inv in M as (VD & P & ->).
    apply send_module_inv in S as (BL & _ & _ & L & ->).
    rewrite s_tokens_set in T1, T2.
    match goal with |- context [sent ?st MODULE r d a] =>
      destruct (sent_proj st MODULE r d a) as (Q1 & Q2 & Q3 & Q4 & Q5 & Q6 & Q7 & Q8 & Q9 & Q10 & Q11);
      pose proof (sent_tokens st MODULE r d a) as QT end.
    cbn [s_bank s_blocked s_accts set_tokens set_supply set_bank] in L, BL, AU.
    repeat split; try assumption.
    - intros x y. rewrite sent_bank. cbn [s_bank set_tokens set_supply set_bank]. rewrite bget_bset.
      rewrite (Z.eqb_sym MODULE x), (bytes_eqb_sym d y). ind_cases.
    - intro y. rewrite Q6. cbn [s_supply set_tokens set_supply set_bank]. rewrite sget_sset.
      rewrite (bytes_eqb_sym d y). ind_cases.
    - intro x. rewrite sent_accts. cbn [set_tokens set_supply set_bank s_accts]. reflexivity.
    - exists res. split; [|split; assumption].
      exists tk0, v0, tk1, v1. rewrite QT. unfold s_tokens at 2. cbn [s_mtok s_ext set_supply set_bank].
      fold (s_tokens (set_tokens (set_tokens (set_tokens s tk0) tk1) tk2)). rewrite s_tokens_set.
      repeat split; assumption.
  Qed.

  (** ** Flow 2.2: voucher coin -> token, external contract *)
  Lemma cc_native_erc20_exact s p d a r u s' :
    convert_coin_native_erc20 xcall MODULE s p d a r u = Ok s' ->
    valid_denom d = true /\ 0 < a /\ a <= bget (s_bank s) u d /\ a <= sget (s_supply s) d /\
    bank_shift s s' (fun x y => ind ((x =? u) && bytes_eqb y d) (- a)) /\
    supply_shift s s' (fun y => ind (bytes_eqb y d) (- a)) /\ same_gates s s' /\ accts_plus s s' MODULE /\
    zmem MODULE (s_accts s) = true /\
    exists res, token_effect2 (s_tokens s) (s_tokens s') (p_erc20 p) MODULE (CTransfer r a) r a MODULE (- a) res /\
                unpack_bool (cr_ret res) = Some true /\ approval_check (cr_logs res) = Ok tt.
  Proof.
    unfold convert_coin_native_erc20.
    destruct (balance_of xcall MODULE s (p_erc20 p) r) as [s0 b0] eqn:B0.
    destruct (balance_of xcall MODULE s0 (p_erc20 p) MODULE) as [s0' e0] eqn:E0.
    destruct (send_coins s0' u MODULE d a) as [s1| |] eqn:S; cbn [obind]; try discriminate.
    destruct (evm_call xcall MODULE s1 (p_erc20 p) MODULE (CTransfer r a)) as [s2 res] eqn:E.
    destruct (cr_ok res) eqn:O; cbn [negb]; [|discriminate].
    destruct (unpack_bool (cr_ret res)) as [[|]|] eqn:U; try discriminate.
    destruct (balance_of xcall MODULE s2 (p_erc20 p) r) as [s3 b1] eqn:B1.
    destruct b0 as [v0|]; [|discriminate]. destruct b1 as [v1|]; [|discriminate].
    destruct (v1 =? v0 + a) eqn:V; cbn [negb]; [|discriminate]. apply Z.eqb_eq in V.
    destruct (balance_of xcall MODULE s3 (p_erc20 p) MODULE) as [s3' e1] eqn:E1.
    destruct e0 as [w0|]; [|discriminate]. destruct e1 as [w1|]; [|discriminate].
    destruct (w1 =? w0 - a) eqn:V2; cbn [negb]; [|discriminate]. apply Z.eqb_eq in V2.
    destruct (burn_coins MODULE s3' d a) as [s4| |] eqn:BU; cbn [obind]; try discriminate.
    destruct (approval_check (cr_logs res)) as [[]| |] eqn:AP; cbn [obind]; try discriminate.
    intro H; inversion H; subst s4; clear H.
    apply balance_of_some in B0 as (A0 & C0 & tk0 & T0 & ->).
    apply balance_of_some in E0 as (_ & _ & tk0' & T0' & ->).
    apply send_coins_inv in S as (VD & P & L & ->).
    apply evm_call_inv in E as [(_ & _ & _ & tk1 & T1 & ->)|[-> _]]; [|cbn in O; discriminate].
    apply balance_of_some in B1 as (_ & _ & tk2 & T2 & ->).
    apply balance_of_some in E1 as (_ & _ & tk3 & T3 & ->).
    apply burn_coins_inv in BU as (_ & _ & L2 & L3 & ->).
    rewrite s_tokens_set in T0'. rewrite sent_tokens, s_tokens_set in T1. rewrite s_tokens_set in T2, T3.
    destruct (sent_proj (set_tokens (set_tokens s tk0) tk0') u MODULE d a) as (Q1 & Q2 & Q3 & Q4 & Q5 & Q6 & Q7 & Q8 & Q9 & _ & _).
    cbn [s_bank s_supply set_tokens] in L, L2, L3. rewrite Q6 in L3. cbn [s_supply set_tokens] in L3.
    repeat split; try assumption.
    - intros x y. cbn [s_bank set_tokens set_supply set_bank]. rewrite bget_bset, !sent_bank.
      cbn [s_bank set_tokens]. rewrite (Z.eqb_sym MODULE x), (bytes_eqb_sym d y). ind_cases.
    - intro y. cbn [s_supply set_tokens set_supply set_bank]. rewrite sget_sset, Q6.
      cbn [s_supply set_tokens]. rewrite (bytes_eqb_sym d y). ind_cases.
    - intro x. cbn [set_tokens set_supply set_bank s_accts]. rewrite sent_accts. cbn [set_tokens s_accts]. reflexivity.
    - exists res. split; [|split; assumption].
      exists tk0, v0, tk0', w0, tk1, tk2, v1, w1. unfold s_tokens at 2. cbn [s_mtok s_ext set_supply set_bank].
      match goal with |- context [(s_mtok ?st, s_ext ?st)] => fold (s_tokens st) end. rewrite s_tokens_set.
      repeat split; assumption.
  Qed.

  (** ** The gate and the dispatch *)
  Lemma minting_enabled_inv s u r token denom p :
    minting_enabled s u r token denom = Ok p ->
    s_params s = true /\ get_denom_map s denom = token_pair_id s token /\ is_nil (token_pair_id s token) = false /\
    get_pair s (token_pair_id s token) = Some p /\ p_enabled p = true /\ zmem r (s_blocked s) = false /\
    (u = r \/ send_enabled s denom = true).
  Proof.
    unfold minting_enabled. destruct (s_params s); cbn [negb]; [|discriminate].
    destruct (bytes_eqb (get_denom_map s denom) (token_pair_id s token)) eqn:E; cbn [negb]; [|discriminate].
    apply bytes_eqb_eq in E.
    destruct (is_nil (token_pair_id s token)) eqn:N; [discriminate|].
    destruct (get_pair s (token_pair_id s token)) as [q|] eqn:G; [|discriminate].
    destruct (p_enabled q) eqn:EN; cbn [negb]; [|discriminate].
    destruct (zmem r (s_blocked s)) eqn:BL; [discriminate|].
    destruct (negb (u =? r) && negb (send_enabled s denom)) eqn:SE; [discriminate|].
    intro H; inversion H; subst q. repeat split; try assumption.
    destruct (Z.eqb_spec u r) as [->|NE]; [left; reflexivity|]. cbn in SE.
    right. destruct (send_enabled s denom); [reflexivity | discriminate].
  Qed.

  Lemma deliver_inv s m s' c :
    deliver xcall xcontract MODULE s m = (s', c) ->
    (c = 0%nat /\ validate_basic m = true /\ handle xcall xcontract MODULE s m = Ok s') \/ (c <> 0%nat /\ s' = s).
  Proof.
    unfold deliver. destruct (validate_basic m); cbn [negb].
    - destruct (handle xcall xcontract MODULE s m) as [s1| |]; intro H; inversion H; subst.
      + left; repeat split; reflexivity.
      + right; split; [discriminate | reflexivity].
      + right; split; [discriminate | reflexivity].
    - intro H; inversion H; subst. right; split; [discriminate | reflexivity].
  Qed.

  Lemma convert_coin_inv s m s' :
    convert_coin xcall xcontract MODULE s m = Ok s' ->
    exists p, minting_enabled s (cc_sender m) (hex_to_addr (cc_receiver m)) (cc_denom m) (cc_denom m) = Ok p /\
      ((is_contract xcontract s (p_erc20 p) = false /\ s' = delete_pair s p) \/
       (is_contract xcontract s (p_erc20 p) = true /\ p_owner p = 1 /\
        convert_coin_native_coin xcall MODULE s p (cc_denom m) (cc_amount m) (hex_to_addr (cc_receiver m)) (cc_sender m) = Ok s') \/
       (is_contract xcontract s (p_erc20 p) = true /\ p_owner p = 2 /\
        convert_coin_native_erc20 xcall MODULE s p (cc_denom m) (cc_amount m) (hex_to_addr (cc_receiver m)) (cc_sender m) = Ok s')).
  Proof.
    unfold convert_coin.
    destruct (minting_enabled s (cc_sender m) (hex_to_addr (cc_receiver m)) (cc_denom m) (cc_denom m)) as [p| |]; cbn [obind]; try discriminate.
    intro H. exists p. split; [reflexivity|].
    destruct (is_contract xcontract s (p_erc20 p)); cbn [negb] in H.
    - destruct (Z.eqb_spec (p_owner p) 1) as [O1|_].
      + right; left. repeat split; assumption.
      + destruct (Z.eqb_spec (p_owner p) 2) as [O2|_]; [|discriminate].
        right; right. repeat split; assumption.
    - left. inversion H. split; reflexivity.
  Qed.

  Lemma convert_erc20_inv s m s' :
    convert_erc20 xcall xcontract MODULE s m = Ok s' ->
    exists p, minting_enabled s (hex_to_addr (ce_sender m)) (ce_receiver m) (ce_contract m) (ce_denom m) = Ok p /\
      ((is_contract xcontract s (p_erc20 p) = false /\ s' = delete_pair s p) \/
       (is_contract xcontract s (p_erc20 p) = true /\ p_owner p = 1 /\
        convert_erc20_native_coin xcall MODULE s p (ce_denom m) (ce_amount m) (ce_receiver m) (hex_to_addr (ce_sender m)) = Ok s') \/
       (is_contract xcontract s (p_erc20 p) = true /\ p_owner p = 2 /\
        convert_erc20_native_token xcall MODULE s p (ce_denom m) (ce_amount m) (ce_receiver m) (hex_to_addr (ce_sender m)) = Ok s')).
  Proof.
    unfold convert_erc20.
    destruct (minting_enabled s (hex_to_addr (ce_sender m)) (ce_receiver m) (ce_contract m) (ce_denom m)) as [p| |]; cbn [obind]; try discriminate.
    intro H. exists p. split; [reflexivity|].
    destruct (is_contract xcontract s (p_erc20 p)); cbn [negb] in H.
    - destruct (Z.eqb_spec (p_owner p) 1) as [O1|_].
      + right; left. repeat split; assumption.
      + destruct (Z.eqb_spec (p_owner p) 2) as [O2|_]; [|discriminate].
        right; right. repeat split; assumption.
    - left. inversion H. split; reflexivity.
  Qed.

  (** ** Theorems about [deliver] *)
  (** failure (error or recovered panic, including a failed ValidateBasic): nothing changes *)
  Theorem deliver_failure_changes_nothing s m s' c :
    deliver xcall xcontract MODULE s m = (s', c) -> c <> 0%nat -> s' = s.
  Proof. intros H N. apply deliver_inv in H as [(-> & _)|(_ & ->)]; [contradiction | reflexivity]. Qed.

  (** the pair a MsgConvertCoin resolves to *)
  Definition cc_pair s (m : msg_cc) : outcome pair :=
    minting_enabled s (cc_sender m) (hex_to_addr (cc_receiver m)) (cc_denom m) (cc_denom m).
  Definition ce_pair s (m : msg_ce) : outcome pair :=
    minting_enabled s (hex_to_addr (ce_sender m)) (ce_receiver m) (ce_contract m) (ce_denom m).

  (** the gates a successful run of the handler passed (no ValidateBasic involved: also the ICS-20 hook's path) *)
  Lemma handle_ok_gates s m s' :
    handle xcall xcontract MODULE s m = Ok s' ->
    s_params s = true /\
    exists p, match m with MCC c => cc_pair s c | MCE c => ce_pair s c end = Ok p /\
      p_enabled p = true /\
      let receiver := match m with MCC c => hex_to_addr (cc_receiver c) | MCE c => ce_receiver c end in
      let sender := match m with MCC c => cc_sender c | MCE c => hex_to_addr (ce_sender c) end in
      let denom := match m with MCC c => cc_denom c | MCE c => ce_denom c end in
      zmem receiver (s_blocked s) = false /\ (sender = receiver \/ send_enabled s denom = true) /\
      get_pair s (get_denom_map s denom) = Some p.
  Proof.
    intro H. destruct m as [c|c]; cbn [handle] in H.
    - apply convert_coin_inv in H as (p & M & _). pose proof M as M'.
      apply minting_enabled_inv in M' as (P & D & _ & G & E & B & S).
      split; [exact P|]. exists p. cbv zeta. rewrite D. repeat split; assumption.
    - apply convert_erc20_inv in H as (p & M & _). pose proof M as M'.
      apply minting_enabled_inv in M' as (P & D & _ & G & E & B & S).
      split; [exact P|]. exists p. cbv zeta. rewrite D. repeat split; assumption.
  Qed.

  Theorem deliver_ok_gates s m s' :
    deliver xcall xcontract MODULE s m = (s', 0%nat) ->
    validate_basic m = true /\ s_params s = true /\
    exists p, match m with MCC c => cc_pair s c | MCE c => ce_pair s c end = Ok p /\
      p_enabled p = true /\
      let receiver := match m with MCC c => hex_to_addr (cc_receiver c) | MCE c => ce_receiver c end in
      let sender := match m with MCC c => cc_sender c | MCE c => hex_to_addr (ce_sender c) end in
      let denom := match m with MCC c => cc_denom c | MCE c => ce_denom c end in
      zmem receiver (s_blocked s) = false /\ (sender = receiver \/ send_enabled s denom = true) /\
      get_pair s (get_denom_map s denom) = Some p.
  Proof.
    intro H. apply deliver_inv in H as [(_ & V & H)|(N & _)]; [|contradiction].
    split; [exact V|]. exact (handle_ok_gates _ _ _ H).
  Qed.

  Theorem disabled_module_refused s m : s_params s = false -> deliver xcall xcontract MODULE s m = (s, 1%nat).
  Proof.
    intro P. unfold deliver. destruct (validate_basic m); cbn [negb]; [|reflexivity].
    destruct m as [c|c]; cbn [handle]; unfold convert_coin, convert_erc20, minting_enabled; rewrite P; reflexivity.
  Qed.

  Theorem blocked_receiver_refused s m :
    zmem (match m with MCC c => hex_to_addr (cc_receiver c) | MCE c => ce_receiver c end) (s_blocked s) = true ->
    deliver xcall xcontract MODULE s m = (s, 1%nat).
  Proof.
    intro B. unfold deliver. destruct (validate_basic m); cbn [negb]; [|reflexivity].
    destruct m as [c|c]; cbn [handle]; unfold convert_coin, convert_erc20, minting_enabled.
    - destruct (s_params s); cbn [negb obind]; [|reflexivity].
      destruct (bytes_eqb _ _); cbn [negb obind]; [|reflexivity].
      destruct (is_nil _); [reflexivity|]. destruct (get_pair _ _) as [p|]; [|reflexivity].
      destruct (p_enabled p); cbn [negb obind]; [|reflexivity]. rewrite B. reflexivity.
    - destruct (s_params s); cbn [negb obind]; [|reflexivity].
      destruct (bytes_eqb _ _); cbn [negb obind]; [|reflexivity].
      destruct (is_nil _); [reflexivity|]. destruct (get_pair _ _) as [p|]; [|reflexivity].
      destruct (p_enabled p); cbn [negb obind]; [|reflexivity]. rewrite B. reflexivity.
  Qed.

  Theorem disabled_pair_refused s m p :
    get_pair s (token_pair_id s (match m with MCC c => cc_denom c | MCE c => ce_contract c end)) = Some p ->
    p_enabled p = false -> deliver xcall xcontract MODULE s m = (s, 1%nat).
  Proof.
    intros G E. unfold deliver. destruct (validate_basic m); cbn [negb]; [|reflexivity].
    destruct m as [c|c]; cbn [handle]; unfold convert_coin, convert_erc20, minting_enabled.
    - destruct (s_params s); cbn [negb obind]; [|reflexivity].
      destruct (bytes_eqb _ _); cbn [negb obind]; [|reflexivity].
      destruct (is_nil _); [reflexivity|]. rewrite G, E. reflexivity.
    - destruct (s_params s); cbn [negb obind]; [|reflexivity].
      destruct (bytes_eqb _ _); cbn [negb obind]; [|reflexivity].
      destruct (is_nil _); [reflexivity|]. rewrite G, E. reflexivity.
  Qed.

  Theorem send_disabled_refused s m :
    (match m with MCC c => cc_sender c | MCE c => hex_to_addr (ce_sender c) end) <>
    (match m with MCC c => hex_to_addr (cc_receiver c) | MCE c => ce_receiver c end) ->
    send_enabled s (match m with MCC c => cc_denom c | MCE c => ce_denom c end) = false ->
    deliver xcall xcontract MODULE s m = (s, 1%nat).
  Proof.
    intros NE SE. unfold deliver. destruct (validate_basic m); cbn [negb]; [|reflexivity].
    destruct m as [c|c]; cbn [handle]; unfold convert_coin, convert_erc20, minting_enabled.
    - destruct (s_params s); cbn [negb obind]; [|reflexivity].
      destruct (bytes_eqb _ _); cbn [negb obind]; [|reflexivity].
      destruct (is_nil _); [reflexivity|]. destruct (get_pair _ _) as [p|]; [|reflexivity].
      destruct (p_enabled p); cbn [negb obind]; [|reflexivity].
      destruct (zmem _ _); [reflexivity|]. rewrite SE.
      destruct (Z.eqb_spec (cc_sender c) (hex_to_addr (cc_receiver c))); [contradiction|]. reflexivity.
    - destruct (s_params s); cbn [negb obind]; [|reflexivity].
      destruct (bytes_eqb _ _); cbn [negb obind]; [|reflexivity].
      destruct (is_nil _); [reflexivity|]. destruct (get_pair _ _) as [p|]; [|reflexivity].
      destruct (p_enabled p); cbn [negb obind]; [|reflexivity].
      destruct (zmem _ _); [reflexivity|]. rewrite SE.
      destruct (Z.eqb_spec (hex_to_addr (ce_sender c)) (ce_receiver c)); [contradiction|]. reflexivity.
  Qed.

  (** a successful ConvertCoin (whoever called it: BaseApp or the ICS-20 hook) *)
  Theorem convert_coin_ok_exact s m s' p :
    convert_coin xcall xcontract MODULE s m = Ok s' -> cc_pair s m = Ok p ->
    let d := cc_denom m in let a := cc_amount m in let u := cc_sender m in let r := hex_to_addr (cc_receiver m) in
    let c := p_erc20 p in
    if is_contract xcontract s c then
      (p_owner p = 1 \/ p_owner p = 2) /\ 0 < a /\ a <= bget (s_bank s) u d /\
      bank_shift s s' (fun x y => ind ((x =? u) && bytes_eqb y d) (- a)
                                  + ind ((p_owner p =? 1) && (x =? MODULE) && bytes_eqb y d) a) /\
      supply_shift s s' (fun y => ind ((p_owner p =? 2) && bytes_eqb y d) (- a)) /\
      same_gates s s' /\ accts_plus s s' MODULE /\
      exists res,
        (if p_owner p =? 1
         then token_effect (s_tokens s) (s_tokens s') c MODULE (CMint r a) r a res
         else token_effect2 (s_tokens s) (s_tokens s') c MODULE (CTransfer r a) r a MODULE (- a) res) /\
        (p_owner p = 2 -> unpack_bool (cr_ret res) = Some true /\ approval_check (cr_logs res) = Ok tt)
    else s' = delete_pair s p.
  Proof.
    intros H M. apply convert_coin_inv in H as (q & M' & H). unfold cc_pair in M.
    rewrite M in M'; inversion M'; subst q; clear M'. cbv zeta.
    destruct H as [(C & ->)|[(C & O & H)|(C & O & H)]]; rewrite C; [reflexivity| |].
    - apply cc_native_coin_exact in H as (VD & P & L & BS & SS & G & A & AM & res & TE).
      rewrite O. cbn [Z.eqb Pos.eqb andb]. destruct G as (? & ? & ? & ? & ? & ? & ? & ?).
      repeat split; try assumption; try (left; reflexivity).
      exists res. split; [exact TE|]. intro; discriminate.
    - apply cc_native_erc20_exact in H as (VD & P & L & L2 & BS & SS & G & A & AM & res & TE & U & AP).
      rewrite O. cbn [Z.eqb Pos.eqb andb]. destruct G as (? & ? & ? & ? & ? & ? & ? & ?).
      repeat split; try assumption; try (right; reflexivity).
      + intros x y. rewrite BS. unfold ind at 3. ring.
      + exists res. split; [exact TE|]. intro; split; assumption.
  Qed.

  (** a successful ConvertERC20 *)
  Theorem convert_erc20_ok_exact s m s' p :
    convert_erc20 xcall xcontract MODULE s m = Ok s' -> ce_pair s m = Ok p ->
    let d := ce_denom m in let a := ce_amount m in let u := hex_to_addr (ce_sender m) in let r := ce_receiver m in
    let c := p_erc20 p in
    if is_contract xcontract s c then
      (p_owner p = 1 \/ p_owner p = 2) /\ 0 < a /\ zmem r (s_blocked s) = false /\
      bank_shift s s' (fun x y => ind ((x =? r) && bytes_eqb y d) a
                                  + ind ((p_owner p =? 1) && (x =? MODULE) && bytes_eqb y d) (- a)) /\
      supply_shift s s' (fun y => ind ((p_owner p =? 2) && bytes_eqb y d) a) /\
      same_gates s s' /\ accts_plus s s' r /\
      exists res,
        (if p_owner p =? 1
         then token_effect (s_tokens s) (s_tokens s') c MODULE (CBurnCoins u a) u (- a) res
         else token_effect (s_tokens s) (s_tokens s') c u (CTransfer MODULE a) MODULE a res) /\
        (p_owner p = 2 -> unpack_bool (cr_ret res) = Some true /\ approval_check (cr_logs res) = Ok tt)
    else s' = delete_pair s p.
  Proof.
    intros H M. apply convert_erc20_inv in H as (q & M' & H). unfold ce_pair in M.
    rewrite M in M'; inversion M'; subst q; clear M'. cbv zeta.
    destruct H as [(C & ->)|[(C & O & H)|(C & O & H)]]; rewrite C; [reflexivity| |].
    - apply ce_native_coin_exact in H as (VD & P & L & BL & BS & SS & G & A & AM & res & TE).
      rewrite O. cbn [Z.eqb Pos.eqb andb]. destruct G as (? & ? & ? & ? & ? & ? & ? & ?).
      repeat split; try assumption; try (left; reflexivity).
      + intros x y. rewrite BS. ring.
      + exists res. split; [exact TE|]. intro; discriminate.
    - apply ce_native_token_exact in H as (VD & P & BL & AU & BS & SS & G & A & AM & res & TE & U & AP).
      rewrite O. cbn [Z.eqb Pos.eqb andb]. destruct G as (? & ? & ? & ? & ? & ? & ? & ?).
      repeat split; try assumption; try (right; reflexivity).
      + intros x y. rewrite BS. unfold ind at 3. ring.
      + exists res. split; [exact TE|]. intro; split; assumption.
  Qed.
  (** ... delivered as messages *)
  Theorem convert_coin_exact s m s' p :
    deliver xcall xcontract MODULE s (MCC m) = (s', 0%nat) -> cc_pair s m = Ok p ->
    let d := cc_denom m in let a := cc_amount m in let u := cc_sender m in let r := hex_to_addr (cc_receiver m) in
    let c := p_erc20 p in
    if is_contract xcontract s c then
      (p_owner p = 1 \/ p_owner p = 2) /\ 0 < a /\ a <= bget (s_bank s) u d /\
      bank_shift s s' (fun x y => ind ((x =? u) && bytes_eqb y d) (- a)
                                  + ind ((p_owner p =? 1) && (x =? MODULE) && bytes_eqb y d) a) /\
      supply_shift s s' (fun y => ind ((p_owner p =? 2) && bytes_eqb y d) (- a)) /\
      same_gates s s' /\ accts_plus s s' MODULE /\
      exists res,
        (if p_owner p =? 1
         then token_effect (s_tokens s) (s_tokens s') c MODULE (CMint r a) r a res
         else token_effect2 (s_tokens s) (s_tokens s') c MODULE (CTransfer r a) r a MODULE (- a) res) /\
        (p_owner p = 2 -> unpack_bool (cr_ret res) = Some true /\ approval_check (cr_logs res) = Ok tt)
    else s' = delete_pair s p.
  Proof.
    intros H M. apply deliver_inv in H as [(_ & _ & H)|(N & _)]; [|contradiction].
    cbn [handle] in H. exact (convert_coin_ok_exact _ _ _ _ H M).
  Qed.

  Theorem convert_erc20_exact s m s' p :
    deliver xcall xcontract MODULE s (MCE m) = (s', 0%nat) -> ce_pair s m = Ok p ->
    let d := ce_denom m in let a := ce_amount m in let u := hex_to_addr (ce_sender m) in let r := ce_receiver m in
    let c := p_erc20 p in
    if is_contract xcontract s c then
      (p_owner p = 1 \/ p_owner p = 2) /\ 0 < a /\ zmem r (s_blocked s) = false /\
      bank_shift s s' (fun x y => ind ((x =? r) && bytes_eqb y d) a
                                  + ind ((p_owner p =? 1) && (x =? MODULE) && bytes_eqb y d) (- a)) /\
      supply_shift s s' (fun y => ind ((p_owner p =? 2) && bytes_eqb y d) a) /\
      same_gates s s' /\ accts_plus s s' r /\
      exists res,
        (if p_owner p =? 1
         then token_effect (s_tokens s) (s_tokens s') c MODULE (CBurnCoins u a) u (- a) res
         else token_effect (s_tokens s) (s_tokens s') c u (CTransfer MODULE a) MODULE a res) /\
        (p_owner p = 2 -> unpack_bool (cr_ret res) = Some true /\ approval_check (cr_logs res) = Ok tt)
    else s' = delete_pair s p.
  Proof.
    intros H M. apply deliver_inv in H as [(_ & _ & H)|(N & _)]; [|contradiction].
    cbn [handle] in H. exact (convert_erc20_ok_exact _ _ _ _ H M).
  Qed.
End Exact.

Arguments bank_shift {X}. Arguments supply_shift {X}. Arguments same_gates {X}. Arguments accts_plus {X}.
Arguments tok_balance {X}. Arguments token_effect {X}. Arguments token_effect2 {X}. Arguments sent {X}. Arguments cc_pair {X}. Arguments ce_pair {X}.
