(** Monitor soundness, attribution part (kind 42): on every successful transaction step of the model, state
    keyed by an account that is not the msg.sender of a surviving system-contract invocation is untouched —
    so monitor 42 accepts the model.  Combines the end-to-end attribution theorem of the modelled EVM
    (Proofs/AdapterEvm.v) with [exec_native_only_signer]. *)
From Teleport Require Import Base.Bytes Base.Outcome Model.Adapter Model.AdapterEvm Model.AdapterNative Model.AdapterCheck
  Proofs.Adapter Proofs.AdapterNative Proofs.AdapterEvm Proofs.AdapterCheck.
From Coq Require Import Lia ZArith.
Local Open Scope Z_scope.

(** accounts [d'] outside [cs] see the same tables / balance in [s'] as in [s] *)
Definition same_for_others (pools cs : list bytes) (s s' : nstate) : Prop :=
  forall d', ~ In d' cs ->
    (forall i, aget dkey_eqb (n_dels s') (d', i) = aget dkey_eqb (n_dels s) (d', i)) /\
    (forall i, aget dkey_eqb (n_ubds s') (d', i) = aget dkey_eqb (n_ubds s) (d', i)) /\
    (forall i j, aget rkey_eqb (n_reds s') (d', i, j) = aget rkey_eqb (n_reds s) (d', i, j)) /\
    (forall p, aget vkey_eqb (n_votes s') (p, d') = aget vkey_eqb (n_votes s) (p, d')) /\
    (~ In d' pools -> bal s' d' = bal s d').

Lemma same_for_others_refl pools cs s : same_for_others pools cs s s.
Proof. intros d' _. repeat split; reflexivity. Qed.

Lemma mem_bytes_false a l : mem_bytes a l = false -> ~ In a l.
Proof.
  unfold mem_bytes. intros H I. assert (T : existsb (bytes_eqb a) l = true).
  { apply existsb_exists. exists a. split; [exact I | apply bytes_eqb_refl]. }
  congruence.
Qed.

(** pointwise equality for the non-callers makes [others_same] true *)
Lemma others_same_of_pointwise {K V} (keqb : K -> K -> bool) (veqb : V -> V -> bool) dflt (owner : K -> bytes) cs a b :
  (forall v, veqb v v = true) ->
  (forall k, ~ In (owner k) cs -> aget keqb a k = aget keqb b k) ->
  others_same keqb veqb dflt owner cs a b = true.
Proof.
  intros R H. unfold others_same. apply forallb_forall. intros k _.
  destruct (mem_bytes (owner k) cs) eqn:M; [reflexivity|]. cbn [orb].
  rewrite (H k (mem_bytes_false _ _ M)). apply R.
Qed.

Lemma attribution_ok_of_same e cs pre post :
  same_for_others [e_bonded e; e_notbonded e; e_distr e] cs pre post -> attribution_ok e cs pre post = true.
Proof.
  intro H. unfold attribution_ok.
  rewrite (others_same_of_pointwise dkey_eqb Z.eqb 0 fst cs (n_dels pre) (n_dels post) Z.eqb_refl).
  2:{ intros [d i] N. cbn [fst] in N. destruct (H d N) as [H1 _]. symmetry. apply H1. }
  rewrite (others_same_of_pointwise dkey_eqb opt_list_eqb [] fst cs (n_ubds pre) (n_ubds post) opt_list_eqb_refl).
  2:{ intros [d i] N. cbn [fst] in N. destruct (H d N) as [_ [H2 _]]. symmetry. apply H2. }
  rewrite (others_same_of_pointwise rkey_eqb opt_list_eqb [] (fun k => fst (fst k)) cs (n_reds pre) (n_reds post) opt_list_eqb_refl).
  2:{ intros [[d i] j] N. cbn [fst] in N. destruct (H d N) as [_ [_ [H3 _]]]. symmetry. apply H3. }
  rewrite (others_same_of_pointwise vkey_eqb (list_eqb (pair_eqb Z.eqb Z.eqb)) [] snd cs (n_votes pre) (n_votes post)).
  2:{ apply list_eqb_refl. apply pair_eqb_refl; apply Z.eqb_refl. }
  2:{ intros [p d] N. cbn [snd] in N. destruct (H d N) as [_ [_ [_ [H4 _]]]]. symmetry. apply H4. }
  cbn [andb].
  (* balances: compared as [bal], i.e. with default 0 *)
  unfold others_same. apply forallb_forall. intros k _.
  destruct (mem_bytes k (cs ++ [e_bonded e; e_notbonded e; e_distr e])) eqn:M; [reflexivity|]. cbn [orb].
  apply mem_bytes_false in M.
  assert (Nc : ~ In k cs) by (intro I; apply M; apply in_or_app; left; exact I).
  assert (Np : ~ In k [e_bonded e; e_notbonded e; e_distr e]) by (intro I; apply M; apply in_or_app; right; exact I).
  destruct (H k Nc) as [_ [_ [_ [_ H5]]]]. specialize (H5 Np). unfold bal in H5. rewrite H5. apply Z.eqb_refl.
Qed.

Lemma signer_is_msg_signer m : signer m = Proofs.AdapterEvm.msg_signer m.
Proof. destruct m; reflexivity. Qed.

Lemma signed_by_callers cs : forall (l : list invocation) ms,
  Forall2 (fun iv m => item_of_inv iv = Ok m) l ms ->
  (forall iv, In iv l -> In (snd (fst iv)) cs) -> Forall (fun m => In (signer m) cs) ms.
Proof.
  induction 1 as [|iv m l ms Hm F IH]; intro Sub; constructor.
  - rewrite signer_is_msg_signer, (item_signer iv m Hm). apply Sub. left; reflexivity.
  - apply IH. intros iv' I. apply Sub. right; exact I.
Qed.

Section AttrSound.
  Variable e : envinfo.
  Variable st : astep.
  Let pools := [e_bonded e; e_notbonded e; e_distr e].
  Let nex := exec_native (resolve_of (a_vres st)) (e_bonded e) (e_notbonded e) (e_distr e) (e_max e).
  Let ex := lift_exec nex.

  (** one message signed by a caller keeps everybody else's entries *)
  Lemma step_same cs m s s' :
    In (signer m) cs -> ex m s = Ok s' -> same_for_others pools cs (o_n s) (o_n s').
  Proof.
    unfold ex, lift_exec. intros I H. destruct (nex m (o_n s)) as [n'| |] eqn:E; try discriminate.
    inversion H; subst; cbn [o_n]. intros d' N.
    assert (Nd : d' <> signer m) by (intro X; subst; contradiction).
    destruct (exec_native_only_signer _ _ _ _ _ _ _ _ E d' Nd) as [H1 [H2 [H3 [H4 H5]]]].
    repeat split; auto. intro Np. apply H5; intro X; apply Np; subst; unfold pools; cbn; tauto.
  Qed.

  Lemma same_trans cs s1 s2 s3 :
    same_for_others pools cs s1 s2 -> same_for_others pools cs s2 s3 -> same_for_others pools cs s1 s3.
  Proof.
    intros A B d' N. destruct (A d' N) as [A1 [A2 [A3 [A4 A5]]]]. destruct (B d' N) as [B1 [B2 [B3 [B4 B5]]]].
    repeat split; intros; try (etransitivity; [apply B1 || apply B2 || apply B3 || apply B4 | auto]).
    rewrite B5, A5 by assumption. reflexivity.
  Qed.

  Lemma run_msgs_same cs : forall ms s s',
    Forall (fun m => In (signer m) cs) ms -> run_msgs ostate ex ms s = Ok s' -> same_for_others pools cs (o_n s) (o_n s').
  Proof.
    induction ms as [|m ms IH]; intros s s' F H.
    - cbn in H. inversion H; subst. apply same_for_others_refl.
    - cbn [run_msgs obind] in H. destruct (ex m s) as [s1| |] eqn:E; try discriminate.
      inversion F as [|? ? Fm Fr]; subst.
      eapply same_trans; [eapply step_same; eauto | apply IH; assumption].
  Qed.

  (** the application monitor's attribution part accepts every successful model step *)
  Theorem app_monitor_sound_attribution :
    wf_tx (a_tx st) = true -> tx_sizes_ok (a_tx st) ->
    fst (fst (model_tx e st)) = 0%nat ->
    attribution_ok e (map (fun iv : invocation => snd (fst iv)) (fr_inv (run_tx (a_tx st))))
                   (o_n (a_pre st)) (o_n (snd (fst (model_tx e st)))) = true.
  Proof.
    intros W Z C. apply attribution_ok_of_same. fold pools.
    unfold model_tx in *. destruct (fr_ok (run_tx (a_tx st))) eqn:Fk; cbn [negb] in *; [|discriminate].
    match type of C with context [deliver ?x ?f ?l ?s] => destruct (deliver x f l s) as [[u| |] s1] eqn:D end;
      cbn [fst snd] in *; try discriminate.
    destruct u.
    destruct (user_tx_end_to_end _ _ _ (a_tx st) (a_pre st) (Ok tt) s1 W Z D) as [Hok _].
    destruct (Hok eq_refl) as [ms [F R]].
    match type of R with run_msgs _ _ _ ?s0 = _ => change (o_n (a_pre st)) with (o_n s0) end.
    eapply run_msgs_same; [|exact R].
    (* every message is signed by the sender of an invocation *)
    clear R D Hok C. set (cs := map (fun iv : invocation => snd (fst iv)) (fr_inv (run_tx (a_tx st)))).
    assert (Sub : forall iv, In iv (filter (inv_for HStaking) (fr_inv (run_tx (a_tx st))) ++
                                   filter (inv_for HGov) (fr_inv (run_tx (a_tx st)))) -> In (snd (fst iv)) cs).
    { intros iv I. apply in_app_or in I. unfold cs. apply in_map_iff. exists iv. split; [reflexivity|].
      destruct I as [I|I]; apply filter_In in I; tauto. }
    eapply signed_by_callers; [exact F | exact Sub].
  Qed.
End AttrSound.
