(** C13: the hypotheses of the round-trip and validation theorems are INVARIANTS of the module's writes.
    [wf_xibc s /\ valid_xibc s] holds of the initialised store and is preserved by every guarded write of
    Model/GenesisOps.v ([step]); hence every reachable store exports a genesis that validates and re-imports to
    exactly that store ([reach_round_trip]). *)
From Teleport Require Import Base.Bytes Base.Outcome Base.AList Base.Fmt Gen.KeysGen Model.Keys Model.Genesis Model.GenesisOps.
From Teleport Require Import Proofs.Keys Proofs.KeysParse Proofs.GenesisStore Proofs.GenesisKeys Proofs.GenesisXibc Proofs.GenesisValid.
Local Open Scope N_scope.

(** * Sorted association lists: membership after [aset] / a filter on keys *)
Lemma in_sorted_iff (s : store) k v : sorted s = true -> (In (k, v) s <-> aget k s = Some v).
Proof. intro S. split; [apply aget_in_sorted; exact S | apply aget_some_in]. Qed.

Lemma in_aset (s : store) k v kv :
  sorted s = true -> (In kv (aset k v s) <-> kv = (k, v) \/ (In kv s /\ fst kv <> k)).
Proof.
  intro S. destruct kv as [k' v']. rewrite (in_sorted_iff _ _ _ (aset_sorted k v s S)), aget_aset. cbn [fst].
  destruct (bytes_eqb_spec k' k) as [->|N].
  - split; [intros [= <-]; left; reflexivity | intros [[= <-]|[_ C]]; [reflexivity | congruence]].
  - rewrite <- (in_sorted_iff _ _ _ S). split; [intro H; right; auto | intros [[= E _]|[H _]]; [congruence | exact H]].
Qed.

Lemma all_gt_filter k f (s : store) : all_gt k s = true -> all_gt k (filter f s) = true.
Proof.
  unfold all_gt. rewrite !forallb_forall. intros H x I. apply filter_In in I as [I _]. apply H. exact I.
Qed.

Lemma sorted_filter f (s : store) : sorted s = true -> sorted (filter f s) = true.
Proof.
  induction s as [|[k v] s IH]; intro S; [reflexivity|].
  apply sorted_cons in S as [G S]. cbn [filter]. destruct (f (k, v)).
  - apply sorted_cons. split; [apply all_gt_filter; exact G | apply IH; exact S].
  - apply IH. exact S.
Qed.

Lemma aget_filter_key (p : bytes -> bool) (s : store) k :
  aget k (filter (fun kv => p (fst kv)) s) = if p k then aget k s else None.
Proof.
  induction s as [|[k' v'] s IH]; cbn [filter aget fst]; [destruct (p k); reflexivity|].
  destruct (p k') eqn:P; cbn [aget].
  - destruct (bytes_eqb_spec k k') as [->|N]; [rewrite P; reflexivity | exact IH].
  - destruct (bytes_eqb_spec k k') as [->|N]; [rewrite IH, P; reflexivity | exact IH].
Qed.

Lemma adel_as_filter (k : bytes) (s : store) : adel k s = filter (fun kv => negb (bytes_eqb k (fst kv))) s.
Proof. reflexivity. Qed.

(** * Key facts *)
Lemma client_state_key_parse name : no_sep name = true ->
  parse_client_key (full_client_state_key name) = Some (name, host_KeyClientState).
Proof. intro N. rewrite full_client_state_key_split. apply parse_client_key_prefix. exact N. Qed.

Lemma client_state_key_name_inj n m : no_sep n = true -> no_sep m = true ->
  full_client_state_key n = full_client_state_key m -> n = m.
Proof.
  intros Nn Nm E. pose proof (client_state_key_parse n Nn) as P. rewrite E, (client_state_key_parse m Nm) in P. congruence.
Qed.

Lemma client_key_not_state_key name path n : no_sep name = true -> no_sep n = true -> path <> host_KeyClientState ->
  client_store_prefix name ++ path <> full_client_state_key n.
Proof.
  intros Nn Nm NE E. pose proof (parse_client_key_prefix name path Nn) as P. rewrite E, (client_state_key_parse n Nm) in P.
  congruence.
Qed.

Lemma other_family_not_client_key p k n :
  In p xibc_prefixes -> p <> host_KeyClientStorePrefix -> incomparable p host_KeyClientStorePrefix = true ->
  is_prefix p k = true -> k <> full_client_state_key n.
Proof.
  intros _ _ I P E. subst k. pose proof (prefix_exclusive _ _ _ I P) as Q.
  rewrite full_client_state_key_split, is_prefix_client_store in Q. discriminate.
Qed.

Lemma chain_name_not_client_key n : chain_name_key <> full_client_state_key n.
Proof.
  intro E. pose proof (chain_name_no_prefix host_KeyClientStorePrefix chain_name_key ltac:(in_prefixes) (bytes_eqb_refl _)) as Q.
  rewrite E, full_client_state_key_split, is_prefix_client_store in Q. discriminate.
Qed.

Lemma relayer_key_bytes a : relayer_key a = clienttypes_KeyRelayers ++ a.
Proof. reflexivity. Qed.
Lemma ack_key_prefix t : is_prefix host_KeyPacketAckPrefix (packet_ack_key t) = true.
Proof. unfold packet_ack_key. rewrite shape_ack. unfold triple_shape. cbn [render render_item]. apply is_prefix_app. Qed.
Lemma commitment_key_prefix t : is_prefix host_KeyPacketCommitmentPrefix (packet_commitment_key t) = true.
Proof. unfold packet_commitment_key. rewrite shape_commitment. unfold triple_shape. cbn [render render_item]. apply is_prefix_app. Qed.
Lemma receipt_key_prefix t : is_prefix host_KeyPacketReceiptPrefix (packet_receipt_key t) = true.
Proof. unfold packet_receipt_key. rewrite shape_receipt. unfold triple_shape. cbn [render render_item]. apply is_prefix_app. Qed.
Lemma next_seq_key_prefix a b : is_prefix host_KeyNextSeqSendPrefix (next_seq_send_key a b) = true.
Proof. unfold next_seq_send_key. rewrite shape_next_seq. cbn [render render_item]. apply is_prefix_app. Qed.

(** a key under one of the five non-client prefixes is neither a client state key nor the chain name key *)
Lemma family_key_facts p k :
  In p xibc_prefixes -> incomparable p host_KeyClientStorePrefix = true -> is_prefix p k = true ->
  (forall n, k <> full_client_state_key n) /\ k <> chain_name_key /\ is_prefix host_KeyClientStorePrefix k = false
  /\ bytes_eqb k chain_name_key = false.
Proof.
  intros I C P. refine (conj _ (conj _ (conj _ _))).
  - intros n E. subst k. pose proof (prefix_exclusive _ _ _ C P) as Q.
    rewrite full_client_state_key_split, is_prefix_client_store in Q. discriminate.
  - intro E. pose proof (not_chain_name p k I P) as Q. subst k. rewrite bytes_eqb_refl in Q. discriminate.
  - apply (prefix_exclusive _ _ _ C P).
  - apply (not_chain_name p k I P).
Qed.

Section Inv.
  Variables CS CONS : Type.
  Variable cs_unmarshal : bytes -> option CS.
  Variable cs_marshal : CS -> bytes.
  Variable cs_type : CS -> ctype.
  Variable cs_valid : CS -> bool.
  Variable cons_unmarshal : bytes -> option CONS.
  Variable cons_marshal : CONS -> bytes.
  Variable cons_type : CONS -> ctype.
  Variable cons_valid : CONS -> bool.
  Variable rel_unmarshal : bytes -> option relayer.
  Variable rel_marshal : relayer -> bytes.
  Variable acc_addr_ok : bytes -> bool.

  Notation wf_xibc := (wf_xibc CS CONS cs_unmarshal cs_marshal cs_type cons_unmarshal cons_marshal rel_unmarshal rel_marshal).
  Notation wf_xibc_entry := (wf_xibc_entry CS CONS cs_unmarshal cs_marshal cs_type cons_unmarshal cons_marshal rel_unmarshal rel_marshal).
  Notation wf_client_entry := (wf_client_entry CS CONS cs_unmarshal cs_marshal cs_type cons_unmarshal cons_marshal).
  Notation client_type_of := (client_type_of CS cs_unmarshal cs_type).
  Notation valid_xibc := (valid_xibc CS CONS cs_unmarshal cs_type cs_valid cons_unmarshal cons_type cons_valid rel_unmarshal acc_addr_ok).
  Notation valid_xibc_entry := (valid_xibc_entry CS CONS cs_unmarshal cs_type cs_valid cons_unmarshal cons_type cons_valid rel_unmarshal acc_addr_ok).
  Notation valid_client_entry := (valid_client_entry CS CONS cs_unmarshal cs_type cs_valid cons_unmarshal cons_type cons_valid).
  Notation step := (step CS CONS cs_unmarshal cs_marshal cs_type cs_valid cons_unmarshal cons_marshal cons_type cons_valid
                         rel_unmarshal rel_marshal acc_addr_ok).
  Notation reach := (reach CS CONS cs_unmarshal cs_marshal cs_type cs_valid cons_unmarshal cons_marshal cons_type cons_valid
                           rel_unmarshal rel_marshal acc_addr_ok).

  (** the invariant, entry by entry *)
  Definition inv (s : store) : Prop :=
    sorted s = true /\ ahas chain_name_key s = true /\
    forall kv, In kv s -> wf_xibc_entry s kv = true /\ valid_xibc_entry s kv = true.

  Lemma inv_iff s : inv s <-> wf_xibc s = true /\ valid_xibc s = true.
  Proof.
    unfold inv, Genesis.wf_xibc, Genesis.valid_xibc. rewrite !andb_true_iff, !forallb_forall. split.
    - intros [S [C E]]. repeat split; try assumption; intros kv I; apply E; exact I.
    - intros [[[S W] C] V]. repeat split; try assumption; [apply W | apply V]; assumption.
  Qed.

  (** ** The entry conditions look at the store only through the type of the entry's own client *)
  Lemma entry_local s1 s2 kv :
    (forall n path, parse_client_key (fst kv) = Some (n, path) -> client_type_of n s1 = client_type_of n s2) ->
    wf_xibc_entry s1 kv = wf_xibc_entry s2 kv /\ valid_xibc_entry s1 kv = valid_xibc_entry s2 kv.
  Proof.
    destruct kv as [k v]. cbn [fst]. intro H. unfold Genesis.wf_xibc_entry, Genesis.valid_xibc_entry.
    destruct (is_prefix host_KeyClientStorePrefix k); [|split; reflexivity].
    unfold Genesis.wf_client_entry, Genesis.valid_client_entry.
    destruct (parse_client_key k) as [[n path]|]; [|split; reflexivity]. rewrite (H n path eq_refl). split; reflexivity.
  Qed.

  Lemma client_type_of_aget n s1 s2 :
    aget (full_client_state_key n) s1 = aget (full_client_state_key n) s2 -> client_type_of n s1 = client_type_of n s2.
  Proof. unfold Genesis.client_type_of. intros ->. reflexivity. Qed.

  (** ** Writing an entry that is not a client state *)
  Lemma inv_aset s K V :
    inv s -> (forall n, no_sep n = true -> K <> full_client_state_key n) ->
    wf_xibc_entry s (K, V) = true -> valid_xibc_entry s (K, V) = true -> inv (aset K V s).
  Proof.
    intros [S [C E]] NK W Vd.
    assert (T : forall (kv : bytes * bytes) n path, parse_client_key (fst kv) = Some (n, path) -> client_type_of n (aset K V s) = client_type_of n s).
    { intros kv n path P. apply parse_client_key_exact in P as [_ N]. apply client_type_of_aget.
      apply aget_aset_other. intro X. apply (NK n N). symmetry. exact X. }
    refine (conj (aset_sorted K V s S) (conj _ _)).
    - unfold ahas in *. rewrite aget_aset. destruct (bytes_eqb chain_name_key K); [reflexivity | exact C].
    - intros kv I. destruct (entry_local (aset K V s) s kv (T kv)) as [-> ->].
      apply (in_aset _ _ _ _ S) in I as [->|[I _]]; [auto | apply E; exact I].
  Qed.

  (** ** Deleting entries (a filter on keys that keeps every client state and the chain name) *)
  Lemma inv_filter s (p : bytes -> bool) :
    inv s -> (forall n, no_sep n = true -> p (full_client_state_key n) = true) -> p chain_name_key = true ->
    inv (filter (fun kv => p (fst kv)) s).
  Proof.
    intros [S [C E]] PK PC.
    refine (conj (sorted_filter _ s S) (conj _ _)).
    - unfold ahas in *. rewrite aget_filter_key, PC. exact C.
    - intros kv I. apply filter_In in I as [I _].
      assert (T : forall n path, parse_client_key (fst kv) = Some (n, path) ->
                  client_type_of n (filter (fun kv => p (fst kv)) s) = client_type_of n s).
      { intros n path P. apply parse_client_key_exact in P as [_ N]. apply client_type_of_aget.
        rewrite aget_filter_key, (PK n N). reflexivity. }
      destruct (entry_local _ s kv T) as [-> ->]. apply E. exact I.
  Qed.

  Lemma inv_adel s K :
    inv s -> (forall n, no_sep n = true -> K <> full_client_state_key n) -> K <> chain_name_key -> inv (adel K s).
  Proof.
    intros I NK NC. rewrite adel_as_filter. apply (inv_filter s (fun k => negb (bytes_eqb K k)) I).
    - intros n N. apply negb_true_iff. destruct (bytes_eqb_spec K (full_client_state_key n)); [exfalso; eapply NK; eauto | reflexivity].
    - apply negb_true_iff. destruct (bytes_eqb_spec K chain_name_key); [contradiction | reflexivity].
  Qed.

  (** ** [clearClientStore] *)
  Lemma prefix_of_client_key name k : no_sep name = true ->
    (is_prefix (client_store_prefix name) k = true <-> exists path, parse_client_key k = Some (name, path)).
  Proof.
    intro N. split.
    - intro P. apply is_prefix_spec in P as [path ->]. exists path. apply parse_client_key_prefix. exact N.
    - intros [path P]. apply parse_client_key_exact in P as [-> _]. apply is_prefix_app.
  Qed.

  Lemma inv_clear s name : no_sep name = true -> inv s -> inv (clear_client_store name s).
  Proof.
    intros N [S [C E]]. unfold clear_client_store.
    refine (conj (sorted_filter _ s S) (conj _ _)).
    - unfold ahas in *. rewrite (aget_filter_key (fun k => negb (is_prefix (client_store_prefix name) k))).
      replace (is_prefix (client_store_prefix name) chain_name_key) with false; [exact C|]. symmetry.
      apply not_true_is_false. intro P. apply (prefix_of_client_key name _ N) in P as [path P].
      apply parse_client_key_exact in P as [P _].
      pose proof (chain_name_no_prefix host_KeyClientStorePrefix chain_name_key ltac:(in_prefixes) (bytes_eqb_refl _)) as Q.
      rewrite P, is_prefix_client_store in Q. discriminate.
    - intros kv I. apply filter_In in I as [I F]. apply negb_true_iff in F.
      assert (T : forall n path, parse_client_key (fst kv) = Some (n, path) ->
                  client_type_of n (filter (fun kv => negb (is_prefix (client_store_prefix name) (fst kv))) s) = client_type_of n s).
      { intros n path P. apply client_type_of_aget.
        rewrite (aget_filter_key (fun k => negb (is_prefix (client_store_prefix name) k))).
        replace (is_prefix (client_store_prefix name) (full_client_state_key n)) with false; [reflexivity|]. symmetry.
        apply not_true_is_false. intro Q. apply (prefix_of_client_key name _ N) in Q as [path' Q].
        pose proof (parse_client_key_exact _ _ _ P) as [_ Nn]. rewrite (client_state_key_parse n Nn) in Q. inversion Q; subst n.
        assert (X : is_prefix (client_store_prefix name) (fst kv) = true) by (apply (prefix_of_client_key name _ N); eauto).
        congruence. }
      destruct (entry_local _ s kv T) as [-> ->]. apply E. exact I.
  Qed.

  (** ** [SetClientState] *)
  Lemma inv_set_client_state s name c :
    inv s -> valid_chain_name name = true -> cs_valid c = true -> cs_unmarshal (cs_marshal c) = Some c ->
    (client_type_of name s = None \/ client_type_of name s = Some (cs_type c)) ->
    inv (set_client_state CS cs_marshal name c s).
  Proof.
    intros [S [C E]] Vn Vc RT Ty. unfold set_client_state. pose proof (valid_chain_name_no_sep _ Vn) as N.
    set (K := full_client_state_key name). set (V := cs_marshal c).
    assert (Tn : client_type_of name (aset K V s) = Some (cs_type c)).
    { unfold Genesis.client_type_of. fold K. rewrite aget_aset_same. unfold V. rewrite RT. reflexivity. }
    assert (To : forall n, no_sep n = true -> n <> name -> client_type_of n (aset K V s) = client_type_of n s).
    { intros n Nn NE. apply client_type_of_aget. apply aget_aset_other. intro X. apply NE.
      apply (client_state_key_name_inj n name Nn N X). }
    refine (conj (aset_sorted K V s S) (conj _ _)).
    - unfold ahas in *. rewrite aget_aset_other; [exact C | apply chain_name_not_client_key].
    - intros kv I. apply (in_aset _ _ _ _ S) in I as [->|[I NK]].
      + (* the new entry *)
        unfold Genesis.wf_xibc_entry, Genesis.valid_xibc_entry. unfold K, V. rewrite full_client_state_key_split, is_prefix_client_store.
        unfold Genesis.wf_client_entry, Genesis.valid_client_entry. rewrite (parse_client_key_prefix _ _ N), bytes_eqb_refl.
        unfold canonical_cs. rewrite RT, bytes_eqb_refl, Vn, Vc. auto.
      + (* an old entry *)
        destruct (parse_client_key (fst kv)) as [[n path]|] eqn:P.
        * pose proof (parse_client_key_exact _ _ _ P) as [Ek Nn].
          destruct (bytes_eqb_spec n name) as [->|NE].
          -- (* same client: its type did not change, or there was no client and then no such entry *)
             destruct Ty as [Ty|Ty].
             ++ exfalso. destruct (E kv I) as [W Vd]. destruct kv as [k v]. cbn [fst] in *.
                unfold Genesis.wf_xibc_entry in W. unfold Genesis.valid_xibc_entry in Vd.
                rewrite Ek, is_prefix_client_store in W, Vd. unfold Genesis.wf_client_entry in W. unfold Genesis.valid_client_entry in Vd.
                rewrite (parse_client_key_prefix _ _ N) in W, Vd.
                destruct (bytes_eqb_spec path host_KeyClientState) as [->|NP].
                ** apply NK. rewrite Ek. unfold K. rewrite full_client_state_key_split. reflexivity.
                ** rewrite Ty in W, Vd. destruct (parse_consensus_state_key path).
                   --- destruct (cons_unmarshal v); discriminate.
                   --- discriminate.
             ++ assert (T : forall n' path', parse_client_key (fst kv) = Some (n', path') -> client_type_of n' (aset K V s) = client_type_of n' s).
                { intros n' path' P'. rewrite P in P'. inversion P'; subst n'. rewrite Tn, Ty. reflexivity. }
                destruct (entry_local _ s kv T) as [-> ->]. apply E. exact I.
          -- assert (T : forall n' path', parse_client_key (fst kv) = Some (n', path') -> client_type_of n' (aset K V s) = client_type_of n' s).
             { intros n' path' P'. rewrite P in P'. inversion P'; subst n'. apply To; assumption. }
             destruct (entry_local _ s kv T) as [-> ->]. apply E. exact I.
        * assert (T : forall n' path', parse_client_key (fst kv) = Some (n', path') -> client_type_of n' (aset K V s) = client_type_of n' s)
            by (intros n' path' P'; rewrite P in P'; discriminate).
          destruct (entry_local _ s kv T) as [-> ->]. apply E. exact I.
  Qed.

  (** ** The initialised store *)
  Lemma inv_init v : valid_chain_name v = true -> inv [(chain_name_key, v)].
  Proof.
    intro V. refine (conj eq_refl (conj _ _)).
    - unfold ahas. cbn [aget]. rewrite bytes_eqb_refl. reflexivity.
    - intros kv [<-|[]]. split.
      + unfold Genesis.wf_xibc_entry.
        rewrite (chain_name_no_prefix host_KeyClientStorePrefix chain_name_key ltac:(in_prefixes) (bytes_eqb_refl _)), bytes_eqb_refl.
        reflexivity.
      + rewrite valid_chain_name_branch. exact V.
  Qed.

  Lemma inv_chain_name s : inv s -> valid_chain_name (get_chain_name s) = true.
  Proof.
    intros [S [C E]]. unfold get_chain_name. unfold ahas in C. destruct (aget chain_name_key s) as [v|] eqn:G; [|discriminate].
    apply aget_some_in in G. destruct (E _ G) as [_ V]. rewrite valid_chain_name_branch in V. exact V.
  Qed.

  (** ** Every guarded write preserves the invariant *)
  Theorem step_inv s s' : inv s -> step s s' -> inv s'.
  Proof.
    intros I St. destruct St.
    - (* SetClientState *) apply inv_set_client_state; assumption.
    - (* SetClientConsensusState *)
      unfold set_consensus_state. rename H into N, H0 into Vh, H1 into T, H2 into RT, H3 into Vc, H4 into Et, H5 into Z.
      assert (P : parse_client_key (full_consensus_state_key name h) = Some (name, consensus_state_key h))
        by (rewrite full_consensus_key_split; apply parse_client_key_prefix; exact N).
      apply inv_aset; [exact I | | |].
      + intros n Nn E. rewrite E, (client_state_key_parse n Nn) in P.
        assert (E2 : consensus_state_key h = host_KeyClientState) by congruence.
        pose proof (consensus_key_not_client_state h) as Q. rewrite E2, bytes_eqb_refl in Q. discriminate.
      + unfold Genesis.wf_xibc_entry. rewrite full_consensus_key_split, is_prefix_client_store. unfold Genesis.wf_client_entry.
        rewrite (parse_client_key_prefix _ _ N), consensus_key_not_client_state, (parse_consensus_state_key_roundtrip h Vh).
        unfold canonical_cons. rewrite RT. apply bytes_eqb_refl.
      + unfold Genesis.valid_xibc_entry. rewrite full_consensus_key_split, is_prefix_client_store. unfold Genesis.valid_client_entry.
        rewrite (parse_client_key_prefix _ _ N), consensus_key_not_client_state, (parse_consensus_state_key_roundtrip h Vh), RT, T.
        rewrite Z, Vc, Et. cbn [negb andb]. destruct t; reflexivity.
    - (* clientStore.Set of a light client *)
      unfold client_store_set. rename H into N, H0 into T, H1 into M, H2 into NV.
      destruct (metadata_path_not_state _ _ M) as [M1 [M2 M3]].
      apply inv_aset; [exact I | | |].
      + intros n Nn. apply client_key_not_state_key; [exact N | exact Nn|]. intro E. subst path. rewrite bytes_eqb_refl in M1. discriminate.
      + unfold Genesis.wf_xibc_entry. rewrite is_prefix_client_store. unfold Genesis.wf_client_entry.
        rewrite (parse_client_key_prefix _ _ N), M1, M2, T, M. destruct path; [congruence | reflexivity].
      + unfold Genesis.valid_xibc_entry. rewrite is_prefix_client_store. unfold Genesis.valid_client_entry.
        rewrite (parse_client_key_prefix _ _ N), M1, M2. destruct v; [congruence | reflexivity].
    - (* clientStore.Delete of a light client *)
      unfold client_store_delete. apply inv_adel; [exact I | |].
      + intros n Nn. apply client_key_not_state_key; assumption.
      + intro E. pose proof (chain_name_no_prefix host_KeyClientStorePrefix chain_name_key ltac:(in_prefixes) (bytes_eqb_refl _)) as Q.
        rewrite <- E, is_prefix_client_store in Q. discriminate.
    - (* clearClientStore *) apply inv_clear; assumption.
    - (* RegisterRelayers *)
      unfold register_relayer. rename H into Vr, H0 into NA, H1 into RT.
      assert (P : is_prefix clienttypes_KeyRelayers (relayer_key (r_address r)) = true) by (rewrite relayer_key_bytes; apply is_prefix_app).
      destruct (family_key_facts clienttypes_KeyRelayers _ ltac:(in_prefixes) eq_refl P) as [F1 [F2 [F3 F4]]].
      apply inv_aset; [exact I | intros n _; apply F1 | |].
      + unfold Genesis.wf_xibc_entry. rewrite F3, F4, P, RT, !bytes_eqb_refl. destruct (r_address r); [congruence | reflexivity].
      + unfold Genesis.valid_xibc_entry. rewrite F3, F4, P, RT. exact Vr.
    - (* SetChainName *)
      unfold set_chain_name. apply inv_aset; [exact I | intros n _; apply chain_name_not_client_key | |].
      + unfold Genesis.wf_xibc_entry.
        rewrite (chain_name_no_prefix host_KeyClientStorePrefix chain_name_key ltac:(in_prefixes) (bytes_eqb_refl _)), bytes_eqb_refl.
        reflexivity.
      + rewrite valid_chain_name_branch. assumption.
    - (* SetPacketAcknowledgement *)
      unfold set_packet_ack. rename H into Vt, H0 into Vg, H1 into ND.
      pose proof (ack_key_prefix t) as P.
      destruct (family_key_facts host_KeyPacketAckPrefix _ ltac:(in_prefixes) eq_refl P) as [F1 [F2 [F3 F4]]].
      apply inv_aset; [exact I | intros n _; apply F1 | |].
      + unfold Genesis.wf_xibc_entry. rewrite F3, F4, (prefix_exclusive host_KeyPacketAckPrefix clienttypes_KeyRelayers _ eq_refl P), P.
        unfold wf_packet_key. rewrite (ack_key_parse_roundtrip t Vt). apply bytes_eqb_refl.
      + unfold Genesis.valid_xibc_entry. rewrite F3, F4, (prefix_exclusive host_KeyPacketAckPrefix clienttypes_KeyRelayers _ eq_refl P), P.
        unfold valid_packet_entry. rewrite (ack_key_parse_roundtrip t Vt), Vg. destruct data; [congruence | reflexivity].
    - (* SetPacketCommitment *)
      unfold set_packet_commitment. rename H into Vt, H0 into Vg, H1 into ND.
      pose proof (commitment_key_prefix t) as P.
      destruct (family_key_facts host_KeyPacketCommitmentPrefix _ ltac:(in_prefixes) eq_refl P) as [F1 [F2 [F3 F4]]].
      apply inv_aset; [exact I | intros n _; apply F1 | |].
      + unfold Genesis.wf_xibc_entry. rewrite F3, F4, (prefix_exclusive host_KeyPacketCommitmentPrefix clienttypes_KeyRelayers _ eq_refl P),
          (prefix_exclusive host_KeyPacketCommitmentPrefix host_KeyPacketAckPrefix _ eq_refl P), P.
        unfold wf_packet_key. rewrite (commitment_key_parse_roundtrip t Vt). apply bytes_eqb_refl.
      + unfold Genesis.valid_xibc_entry. rewrite F3, F4, (prefix_exclusive host_KeyPacketCommitmentPrefix clienttypes_KeyRelayers _ eq_refl P),
          (prefix_exclusive host_KeyPacketCommitmentPrefix host_KeyPacketAckPrefix _ eq_refl P), P.
        unfold valid_packet_entry. rewrite (commitment_key_parse_roundtrip t Vt), Vg. destruct data; [congruence | reflexivity].
    - (* deletePacketCommitment *)
      unfold delete_packet_commitment. pose proof (commitment_key_prefix t) as P.
      destruct (family_key_facts host_KeyPacketCommitmentPrefix _ ltac:(in_prefixes) eq_refl P) as [F1 [F2 _]].
      apply inv_adel; [exact I | intros n _; apply F1 | exact F2].
    - (* SetPacketReceipt *)
      unfold set_packet_receipt. rename H into Vt, H0 into Vg.
      pose proof (receipt_key_prefix t) as P.
      destruct (family_key_facts host_KeyPacketReceiptPrefix _ ltac:(in_prefixes) eq_refl P) as [F1 [F2 [F3 F4]]].
      apply inv_aset; [exact I | intros n _; apply F1 | |].
      + unfold Genesis.wf_xibc_entry. rewrite F3, F4, (prefix_exclusive host_KeyPacketReceiptPrefix clienttypes_KeyRelayers _ eq_refl P),
          (prefix_exclusive host_KeyPacketReceiptPrefix host_KeyPacketAckPrefix _ eq_refl P),
          (prefix_exclusive host_KeyPacketReceiptPrefix host_KeyPacketCommitmentPrefix _ eq_refl P), P.
        unfold wf_packet_key. rewrite (receipt_key_parse_roundtrip t Vt), bytes_eqb_refl. reflexivity.
      + unfold Genesis.valid_xibc_entry. rewrite F3, F4, (prefix_exclusive host_KeyPacketReceiptPrefix clienttypes_KeyRelayers _ eq_refl P),
          (prefix_exclusive host_KeyPacketReceiptPrefix host_KeyPacketAckPrefix _ eq_refl P),
          (prefix_exclusive host_KeyPacketReceiptPrefix host_KeyPacketCommitmentPrefix _ eq_refl P), P.
        unfold valid_packet_entry. rewrite (receipt_key_parse_roundtrip t Vt), Vg. reflexivity.
    - (* SetNextSequenceSend *)
      unfold set_next_sequence_send. rename H into Va, H0 into Vb, H1 into Ln, H2 into Vg.
      pose proof (next_seq_key_prefix a b) as P.
      destruct (family_key_facts host_KeyNextSeqSendPrefix _ ltac:(in_prefixes) eq_refl P) as [F1 [F2 [F3 F4]]].
      pose proof (next_seq_key_parse_roundtrip a b Va Vb) as PP.
      destruct (sdk_be_to_uint64_8 (be_bytes 8 n) (be8_length n)) as [B _]. rewrite (be8_val n Ln) in B.
      apply inv_aset; [exact I | intros m _; apply F1 | |].
      + unfold Genesis.wf_xibc_entry. rewrite F3, F4, (prefix_exclusive host_KeyNextSeqSendPrefix clienttypes_KeyRelayers _ eq_refl P),
          (prefix_exclusive host_KeyNextSeqSendPrefix host_KeyPacketAckPrefix _ eq_refl P),
          (prefix_exclusive host_KeyNextSeqSendPrefix host_KeyPacketCommitmentPrefix _ eq_refl P),
          (prefix_exclusive host_KeyNextSeqSendPrefix host_KeyPacketReceiptPrefix _ eq_refl P), P, PP, bytes_eqb_refl, be8_length. reflexivity.
      + unfold Genesis.valid_xibc_entry. rewrite F3, F4, (prefix_exclusive host_KeyNextSeqSendPrefix clienttypes_KeyRelayers _ eq_refl P),
          (prefix_exclusive host_KeyNextSeqSendPrefix host_KeyPacketAckPrefix _ eq_refl P),
          (prefix_exclusive host_KeyNextSeqSendPrefix host_KeyPacketCommitmentPrefix _ eq_refl P),
          (prefix_exclusive host_KeyNextSeqSendPrefix host_KeyPacketReceiptPrefix _ eq_refl P), P, PP, B. exact Vg.
    - (* ResetStates *)
      unfold reset_states. cbn [aset]. apply inv_init. apply inv_chain_name. exact I.
  Qed.

  Theorem reach_inv s : reach s -> inv s.
  Proof.
    induction 1 as [v V | s s' R IH St].
    - unfold set_chain_name. cbn [aset]. apply inv_init. exact V.
    - eapply step_inv; eassumption.
  Qed.

  (** ** Every reachable store round-trips through a genesis that validates *)
  Theorem reach_round_trip s :
    reach s ->
    wf_xibc s = true /\ valid_xibc s = true /\
    exists g, export_xibc CS CONS cs_unmarshal cs_type cons_unmarshal rel_unmarshal s = Ok g /\
              import_xibc CS CONS cs_marshal cons_marshal rel_marshal g = Ok s /\
              validate_xibc CS CONS cs_type cs_valid cons_type cons_valid acc_addr_ok g = true.
  Proof.
    intro R. apply reach_inv, inv_iff in R as [W V]. refine (conj W (conj V _)).
    destruct (xibc_round_trip _ _ _ _ _ _ _ _ _ s W) as [g [E Im]]. exists g. refine (conj E (conj Im _)).
    rewrite (export_xibc_validates_iff _ _ _ _ _ cs_valid _ _ cons_type cons_valid _ _ acc_addr_ok s W g E). exact V.
  Qed.
End Inv.
