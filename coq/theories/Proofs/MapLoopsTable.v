(** * C14 — certificates: the lemma names used by [Model/MapLoops.v: site_table] are names of PROVED statements

    A certificate packs a lemma name, its statement and its proof term; [table_certified] checks (by computation)
    that every [Proved name] row of the table has a certificate with that name.  Renaming or deleting a lemma, or
    adding a table row that cites a lemma which does not exist, makes the check compute to [false]. *)
From Coq Require Import List String NArith Bool Permutation Sorting.Sorted.
From Teleport Require Import Base.Bytes Base.Outcome Model.MapLoops Proofs.MapLoops.
Import ListNotations.
Local Open Scope string_scope.

Record certificate : Type := { c_lemma : string; c_statement : Prop; c_proof : c_statement }.

Definition certificates : list certificate := [
  {| c_lemma := "insert_loop_perm";
     c_statement := forall (K V K' V' : Type) (tk : K -> V -> K') (tv : K -> V -> V') (keqb : K' -> K' -> bool),
       (forall a b, keqb a b = true <-> a = b) ->
       forall l l' : list (K * V), Permutation l l' -> NoDup (map (fun e => tk (fst e) (snd e)) l) ->
       mequiv keqb (insert_loop tk tv l) (insert_loop tk tv l');
     c_proof := @insert_loop_perm |};
  {| c_lemma := "insert_loop_const_perm";
     c_statement := forall (K V K' V' : Type) (tk : K -> V -> K') (c : V') (keqb : K' -> K' -> bool),
       (forall a b, keqb a b = true <-> a = b) ->
       forall l l' : list (K * V), Permutation l l' ->
       mequiv keqb (insert_loop tk (fun _ _ => c) l) (insert_loop tk (fun _ _ => c) l');
     c_proof := @insert_loop_const_perm |};
  {| c_lemma := "copy_loop_perm";
     c_statement := forall (K V V' : Type) (g : K -> V -> V') (keqb : K -> K -> bool),
       (forall a b, keqb a b = true <-> a = b) ->
       forall l l' : list (K * V), Permutation l l' -> NoDup (map fst l) ->
       mequiv keqb (insert_loop (fun k _ => k) g l) (insert_loop (fun k _ => k) g l');
     c_proof := @copy_loop_perm |};
  {| c_lemma := "handler_loop_perm";
     c_statement := forall (Name Ev Id H : Type) (handler_of : Name -> option H) (id_of : Ev -> Id) (ideqb : Id -> Id -> bool),
       (forall a b, ideqb a b = true <-> a = b) ->
       forall l l' : list (Name * Ev), Permutation l l' -> NoDup (map (fun e => id_of (snd e)) l) ->
       outcome_mequiv ideqb (handler_loop handler_of id_of l) (handler_loop handler_of id_of l');
     c_proof := @handler_loop_perm |};
  {| c_lemma := "recents_loop_perm";
     c_statement := forall (signer : bytes) (number limit : N) (l l' : list (N * bytes)),
       Permutation l l' -> recents_loop signer number limit l = recents_loop signer number limit l';
     c_proof := recents_loop_perm |};
  {| c_lemma := "validators_loop_perm";
     c_statement := forall (V : Type) (sort : list bytes -> list bytes), sort_spec sort ->
       forall l l' : list (bytes * V), Permutation l l' -> validators_loop sort l = validators_loop sort l';
     c_proof := @validators_loop_perm |}
].

Definition certified (name : string) : bool := existsb (fun c => String.eqb name (c_lemma c)) certificates.

Definition table_certified : bool := forallb certified lemmas_used.

Lemma table_certified_ok : table_certified = true.
Proof. vm_compute. reflexivity. Qed.
