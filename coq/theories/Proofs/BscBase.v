(** Basic lemmas for the BSC client model: 64-bit arithmetic, keyed lists, the
    snapshot map, addresses. *)
From Teleport Require Import Base.Bytes Base.Outcome Model.Bsc.
From Coq Require Import ZifyN ZifyNat.
Local Open Scope N_scope.

Ltac Zify.zify_post_hook ::= Z.div_mod_to_equations.

(** * uint64 arithmetic *)
Lemma two64_val : two64 = 18446744073709551616. Proof. reflexivity. Qed.

Lemma sub64_cases n x : n < two64 -> x < two64 ->
  (x <= n /\ sub64 n x = n - x) \/ (n < x /\ sub64 n x = n + two64 - x).
Proof.
  intros Hn Hx. unfold sub64. rewrite two64_val in *.
  rewrite (N.mod_small n), (N.mod_small x) by lia.
  destruct (N.le_gt_cases x n) as [L|L]; [left|right]; (split; [lia|]).
  - assert (E : n + 18446744073709551616 - x = (n - x) + 1 * 18446744073709551616) by lia.
    rewrite E, N.mod_add by lia. apply N.mod_small. lia.
  - apply N.mod_small. lia.
Qed.

Lemma sub64_lt n x : n < two64 -> sub64 n x < two64.
Proof. intros _. unfold sub64. apply N.mod_lt. rewrite two64_val. lia. Qed.

Lemma sub64_1 n : 0 < n -> n < two64 -> sub64 n 1 = n - 1.
Proof.
  intros H0 H. destruct (sub64_cases n 1 H) as [[_ E]|[L _]]; [rewrite two64_val; lia | exact E | lia].
Qed.

Lemma add64_small a b : a + b < two64 -> add64 a b = a + b.
Proof. intro H. unfold add64. apply N.mod_small. exact H. Qed.

(** * keys *)
Lemma key_eqb_eq a b : key_eqb a b = true <-> a = b.
Proof.
  destruct a as [a1 a2], b as [b1 b2]. unfold key_eqb; cbn [fst snd].
  rewrite andb_true_iff, !N.eqb_eq. split; [intros [-> ->]; reflexivity | intro E; inversion E; auto].
Qed.

Lemma key_eqb_refl a : key_eqb a a = true.
Proof. apply key_eqb_eq. reflexivity. Qed.

Lemma key_eqb_neq a b : key_eqb a b = false <-> a <> b.
Proof.
  split; intro H.
  - intro E. apply key_eqb_eq in E. congruence.
  - destruct (key_eqb a b) eqn:E; [apply key_eqb_eq in E; contradiction | reflexivity].
Qed.

Section Keyed.
  Context {V : Type}.
  Implicit Types (l : list (height * V)) (k : height) (v : V).

  Lemma In_del_key k0 l k v : In (k, v) (del_key k0 l) <-> In (k, v) l /\ k <> k0.
  Proof.
    unfold del_key. rewrite filter_In. cbn [fst]. rewrite negb_true_iff, key_eqb_neq. tauto.
  Qed.

  Lemma In_ins_by lt k0 v0 l k v : In (k, v) (ins_by lt k0 v0 l) <-> (k, v) = (k0, v0) \/ In (k, v) l.
  Proof.
    induction l as [|e l IH]; cbn [ins_by].
    - cbn. intuition congruence.
    - destruct (lt k0 (fst e)); cbn [In]; [intuition congruence|]. rewrite IH. intuition congruence.
  Qed.

  Lemma keys_del_key k0 l : ~ In k0 (map fst (del_key k0 l)).
  Proof.
    intro H. apply in_map_iff in H as [[k v] [E H]]. cbn in E. subst k.
    apply In_del_key in H. tauto.
  Qed.

  Lemma NoDup_keys_del k0 l : NoDup (map fst l) -> NoDup (map fst (del_key k0 l)).
  Proof.
    induction l as [|e l IH]; cbn; intro H; [constructor|].
    inversion H as [|? ? Hn Hd]; subst.
    destruct (negb (key_eqb (fst e) k0)); cbn; [|apply IH; exact Hd].
    constructor; [|apply IH; exact Hd].
    intro Hin. apply Hn. apply in_map_iff in Hin as [[k v] [E Hin]]. cbn in E.
    apply In_del_key in Hin as [Hin _]. apply in_map_iff. exists (k, v). auto.
  Qed.

  Lemma keys_ins_by lt k0 v0 l k : In k (map fst (ins_by lt k0 v0 l)) <-> k = k0 \/ In k (map fst l).
  Proof.
    rewrite !in_map_iff. split.
    - intros [[k' v'] [E H]]. cbn in E. subst k'. apply In_ins_by in H as [H|H].
      + inversion H; auto.
      + right. exists (k, v'). auto.
    - intros [->|[[k' v'] [E H]]].
      + exists (k0, v0). split; [reflexivity|]. apply In_ins_by. auto.
      + exists (k', v'). split; [exact E|]. apply In_ins_by. auto.
  Qed.

  Lemma NoDup_keys_ins lt k0 v0 l : ~ In k0 (map fst l) -> NoDup (map fst l) -> NoDup (map fst (ins_by lt k0 v0 l)).
  Proof.
    induction l as [|e l IH]; cbn [ins_by map]; intros Hn Hd.
    - constructor; [intros []|constructor].
    - destruct (lt k0 (fst e)); cbn [map fst].
      + constructor; assumption.
      + inversion Hd as [|? ? Hne Hd']; subst. constructor.
        * intro H. apply keys_ins_by in H as [H|H]; [apply Hn; left; congruence | contradiction].
        * apply IH; [intro H; apply Hn; right; exact H | exact Hd'].
  Qed.

  Lemma get_key_del k0 l k : k <> k0 -> get_key k (del_key k0 l) = get_key k l.
  Proof.
    intro Hne. induction l as [|e l IH]; cbn; [reflexivity|].
    destruct (key_eqb (fst e) k0) eqn:E0; cbn.
    - apply key_eqb_eq in E0. destruct (key_eqb (fst e) k) eqn:E1; [apply key_eqb_eq in E1; congruence | exact IH].
    - destruct (key_eqb (fst e) k); [reflexivity | exact IH].
  Qed.

  Lemma get_key_del_same k0 l : get_key k0 (del_key k0 l) = None.
  Proof.
    induction l as [|e l IH]; cbn; [reflexivity|].
    destruct (key_eqb (fst e) k0) eqn:E0; cbn; [exact IH|]. rewrite E0. exact IH.
  Qed.

  Lemma get_key_ins_other lt k0 v0 l k : k <> k0 -> get_key k (ins_by lt k0 v0 l) = get_key k l.
  Proof.
    intro Hne. induction l as [|e l IH]; cbn [ins_by get_key fst snd].
    - destruct (key_eqb k0 k) eqn:E; [apply key_eqb_eq in E; congruence | reflexivity].
    - destruct (lt k0 (fst e)); cbn [get_key fst snd].
      + destruct (key_eqb k0 k) eqn:E; [apply key_eqb_eq in E; congruence | reflexivity].
      + destruct (key_eqb (fst e) k); [reflexivity | exact IH].
  Qed.

  Lemma get_key_ins_same lt k0 v0 l : get_key k0 l = None -> get_key k0 (ins_by lt k0 v0 l) = Some v0.
  Proof.
    induction l as [|e l IH]; cbn [ins_by get_key fst snd]; intro H.
    - rewrite key_eqb_refl. reflexivity.
    - destruct (key_eqb (fst e) k0) eqn:E; [discriminate|].
      destruct (lt k0 (fst e)); cbn [get_key fst snd]; [rewrite key_eqb_refl; reflexivity|].
      rewrite E. apply IH. exact H.
  Qed.

  Lemma get_key_In k l v : get_key k l = Some v -> In (k, v) l.
  Proof.
    induction l as [|e l IH]; cbn; [discriminate|].
    destruct (key_eqb (fst e) k) eqn:E.
    - apply key_eqb_eq in E. intro H. inversion H; subst. left. destruct e; reflexivity.
    - intro H. right. apply IH. exact H.
  Qed.
End Keyed.

(** * addresses *)
Lemma zeros_length n : length (zeros n) = n.
Proof. apply repeat_length. Qed.

Lemma fit_length n b : length (fit n b) = n.
Proof.
  unfold fit. destruct (n <? length b)%nat eqn:E.
  - apply Nat.ltb_lt in E. rewrite skipn_length. lia.
  - apply Nat.ltb_ge in E. rewrite app_length, zeros_length. lia.
Qed.

Lemma fit_id n b : length b = n -> fit n b = b.
Proof.
  intro H. unfold fit. rewrite H, Nat.ltb_irrefl, Nat.sub_diag. reflexivity.
Qed.

Lemma to_addr_idem b : to_addr (to_addr b) = to_addr b.
Proof. unfold to_addr. apply fit_id. apply fit_length. Qed.

Lemma to_hash_idem b : to_hash (to_hash b) = to_hash b.
Proof. unfold to_hash. apply fit_id. apply fit_length. Qed.

(** * membership in a list of addresses *)
Lemma mem_In a l : mem a l = true <-> In a l.
Proof.
  induction l as [|x l IH]; cbn; [intuition discriminate|].
  rewrite orb_true_iff, IH, bytes_eqb_eq. intuition.
Qed.

(** * sorted validator list *)
Lemma ins_addr_length a l : (length (ins_addr a l) <= S (length l))%nat.
Proof.
  induction l as [|x l IH]; cbn; [lia|].
  destruct (bytes_cmp a x); cbn; lia.
Qed.

Lemma sorted_vals_length vals : (length (sorted_vals vals) <= length vals)%nat.
Proof.
  unfold sorted_vals. rewrite <- (map_length to_addr vals).
  induction (map to_addr vals) as [|a l IH]; cbn; [lia|].
  pose proof (ins_addr_length a (fold_right ins_addr [] l)). lia.
Qed.

Lemma In_ins_addr a l x : In x (ins_addr a l) <-> x = a \/ In x l.
Proof.
  induction l as [|y l IH]; cbn; [intuition|].
  destruct (bytes_cmp a y) eqn:E; cbn.
  - apply bytes_cmp_eq in E. subst y. intuition.
  - intuition.
  - rewrite IH. intuition.
Qed.

Lemma In_sorted_vals vals x : In x (sorted_vals vals) <-> In x (map to_addr vals).
Proof.
  unfold sorted_vals. induction (map to_addr vals) as [|a l IH]; cbn; [tauto|].
  rewrite In_ins_addr, IH. intuition.
Qed.

(** strictly ascending byte-wise *)
Fixpoint ascending (l : list bytes) : Prop :=
  match l with
  | [] => True
  | x :: l' => (forall y, In y l' -> bytes_cmp x y = Lt) /\ ascending l'
  end.

Lemma ascending_ins a l : ascending l -> ascending (ins_addr a l).
Proof.
  induction l as [|x l IH]; cbn [ins_addr ascending]; intro H.
  - split; [intros y []|exact I].
  - destruct H as [Hx Hl]. destruct (bytes_cmp a x) eqn:E; cbn [ascending].
    + split; assumption.
    + split; [|split; assumption].
      intros y [<-|Hy]; [exact E|]. eapply bytes_cmp_lt_trans; [exact E | apply Hx; exact Hy].
    + split; [|apply IH; exact Hl].
      intros y Hy. apply In_ins_addr in Hy as [->|Hy]; [|apply Hx; exact Hy].
      rewrite bytes_cmp_antisym, E. reflexivity.
  Qed.

Lemma sorted_vals_ascending vals : ascending (sorted_vals vals).
Proof.
  unfold sorted_vals. induction (map to_addr vals) as [|a l IH]; cbn; [exact I|].
  apply ascending_ins. exact IH.
Qed.

(** * the snapshot map of recent signers *)
Lemma In_mset_same n a m : In (n, a) (mset n a m).
Proof.
  induction m as [|e m IH]; cbn; [left; reflexivity|].
  destruct (fst e =? n); [left; reflexivity | right; exact IH].
Qed.

Lemma In_mset_other n a m n' a' : n' <> n -> In (n', a') m -> In (n', a') (mset n a m).
Proof.
  intros Hne. induction m as [|e m IH]; cbn; [intros []|].
  intros [->|H].
  - cbn [fst]. destruct (n' =? n) eqn:E; [apply N.eqb_eq in E; contradiction | left; reflexivity].
  - destruct (fst e =? n); [right; exact H | right; apply IH; exact H].
Qed.

Lemma In_mset_inv n a m n' a' : In (n', a') (mset n a m) -> (n' = n /\ a' = a) \/ In (n', a') m.
Proof.
  induction m as [|e m IH]; cbn.
  - intros [H|[]]. inversion H. auto.
  - destruct (fst e =? n) eqn:E; cbn.
    + intros [H|H]; [inversion H; auto | auto].
    + intros [H|H]; [auto|]. apply IH in H. tauto.
Qed.

Lemma snap_fold_keep (l : list (height * bytes)) acc n a :
  In (n, a) acc -> ~ In n (map (fun e => snd (fst e)) l) ->
  In (n, a) (fold_left (fun m e => mset (snd (fst e)) (to_addr (snd e)) m) l acc).
Proof.
  revert acc. induction l as [|e l IH]; cbn [fold_left map]; intros acc Hin Hn; [exact Hin|].
  apply IH.
  - apply In_mset_other; [|exact Hin]. intro E. apply Hn. left. symmetry. exact E.
  - intro H. apply Hn. right. exact H.
Qed.

Lemma snap_recents_complete (l : list (height * bytes)) r n a :
  NoDup (map (fun e => snd (fst e)) l) -> In ((r, n), a) l -> In (n, to_addr a) (snap_recents l).
Proof.
  unfold snap_recents. generalize (@nil (N * bytes)) as acc.
  induction l as [|e l IH]; cbn [fold_left map]; intros acc Hd Hin; [destruct Hin|].
  inversion Hd as [|? ? Hn Hd']; subst.
  destruct Hin as [->|Hin].
  - cbn [fst snd] in *. apply snap_fold_keep; [apply In_mset_same | exact Hn].
  - apply IH; assumption.
Qed.

Lemma snap_fold_sound (l : list (height * bytes)) acc n a :
  In (n, a) (fold_left (fun m e => mset (snd (fst e)) (to_addr (snd e)) m) l acc) ->
  In (n, a) acc \/ exists r v, In ((r, n), v) l /\ a = to_addr v.
Proof.
  revert acc. induction l as [|e l IH]; cbn [fold_left]; intros acc H; [left; exact H|].
  apply IH in H as [H|[r [v [H E]]]].
  - apply In_mset_inv in H as [[-> ->]|H]; [|left; exact H].
    right. destruct e as [[r n'] v]. exists r, v. cbn. auto.
  - right. exists r, v. split; [right; exact H | exact E].
Qed.

Lemma snap_recents_sound (l : list (height * bytes)) n a :
  In (n, a) (snap_recents l) -> exists r v, In ((r, n), v) l /\ a = to_addr v.
Proof.
  intro H. apply snap_fold_sound in H as [[]|H]. exact H.
Qed.
