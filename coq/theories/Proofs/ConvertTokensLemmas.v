(** C11 — what EVM calls do to the contracts deployed by the module (semantics [std_call]): explicit ledger
    effect of the mint / burn flows, and how totalSupply can move. *)
From Teleport Require Import Base.Bytes Base.Outcome Model.Convert Proofs.ConvertBase Proofs.ConvertExact.
Local Open Scope Z_scope.

(** change of totalSupply caused by a call with result [r] *)
Definition dtotal (cl : call) (r : cres) : Z :=
  if cr_ok r then
    match cl with CMint _ a => a | CBurnCoins _ a => - a | CBurn a => - a | CBurnFrom _ a => - a | _ => 0 end
  else 0.

Lemma std_call_total owner t caller cl t' r :
  std_call owner t caller cl = (t', r) -> st_total t' = st_total t + dtotal cl r.
Proof.
  unfold std_call, dtotal. destruct cl as [x|to amt|to amt|from amt|amt|sp amt|sp amt|sp amt|from to amt|from amt].
  - intro H; inversion H; subst; cbn. ring.
  - destruct ((amt <? 0) || (caller =? 0) || (to =? 0) || (zget (st_bal t) caller <? amt));
      intro H; inversion H; subst; cbn; ring.
  - destruct ((amt <? 0) || negb (caller =? owner) || (to =? 0) || (W256 <=? st_total t + amt));
      intro H; inversion H; subst; cbn; ring.
  - destruct ((amt <? 0) || negb (caller =? owner) || (from =? 0) || (zget (st_bal t) from <? amt));
      intro H; inversion H; subst; cbn; ring.
  - destruct ((amt <? 0) || (caller =? 0) || (zget (st_bal t) caller <? amt));
      intro H; inversion H; subst; cbn; ring.
  - destruct ((amt <? 0) || (W256 <=? amt) || (caller =? 0) || (sp =? 0));
      intro H; inversion H; subst; cbn; ring.
  - destruct ((amt <? 0) || (caller =? 0) || (sp =? 0) || (W256 <=? alget (st_allow t) caller sp + amt));
      intro H; inversion H; subst; cbn; ring.
  - destruct ((amt <? 0) || (caller =? 0) || (sp =? 0) || (alget (st_allow t) caller sp <? amt));
      intro H; inversion H; subst; cbn; ring.
  - destruct ((amt <? 0) || (caller =? 0) || (from =? 0) || (to =? 0) || (zget (st_bal t) from <? amt)
              || (alget (st_allow t) from caller <? amt)); intro H; inversion H; subst; cbn; ring.
  - destruct ((amt <? 0) || (caller =? 0) || (from =? 0) || (alget (st_allow t) from caller <? amt)
              || (zget (st_bal t) from <? amt)); intro H; inversion H; subst; cbn; ring.
Qed.

(** only the role holder can make totalSupply grow *)
Lemma std_call_total_le owner t caller cl t' r :
  std_call owner t caller cl = (t', r) -> caller <> owner -> st_total t' <= st_total t.
Proof.
  intros H N.
  assert (G : (forall sp a, cl <> CMint sp a) \/ exists sp a, cl = CMint sp a).
  { destruct cl; try (left; intros; discriminate). right; eauto. }
  destruct G as [G|(sp & a & ->)].
  2:{ unfold std_call in H. destruct (Z.eqb_spec caller owner) as [E|_]; [contradiction|]. cbn [negb orb] in H.
      rewrite orb_true_r in H. inversion H; subst. lia. }
  pose proof (std_call_total _ _ _ _ _ _ H) as T. rewrite T. unfold dtotal.
  destruct (cr_ok r) eqn:O; [|lia].
  assert (P : match cl with CBurnCoins _ a | CBurn a | CBurnFrom _ a => 0 <= a | _ => True end).
  { unfold std_call in H. destruct cl as [x|to amt|to amt|from amt|amt|sp amt|sp amt|sp amt|from to amt|from amt];
      try exact I.
    - destruct (amt <? 0) eqn:A; cbn [orb] in H; [inversion H; subst; discriminate | apply Z.ltb_ge in A; exact A].
    - destruct (amt <? 0) eqn:A; cbn [orb] in H; [inversion H; subst; discriminate | apply Z.ltb_ge in A; exact A].
    - destruct (amt <? 0) eqn:A; cbn [orb] in H; [inversion H; subst; discriminate | apply Z.ltb_ge in A; exact A]. }
  destruct cl; try lia. exfalso. eapply G. reflexivity.
Qed.

Section TokLemmas.
  Variable X : Type.
  Variable xcall : X -> Z -> Z -> call -> X * cres.
  Variable MODULE : Z.
  Notation tokens := (tokens X).
  Implicit Types tk : tokens.
  Notation tok_exec := (tok_exec xcall MODULE).

  Definition mfind tk (c : Z) : option std_token := afind Z.eqb (fst tk) c.

  (** a call to a contract deployed by the module *)
  Lemma tok_exec_mtok tk c caller cl tk' r t :
    mfind tk c = Some t -> tok_exec tk c caller cl = (tk', r) ->
    exists t' r', std_call MODULE t caller cl = (t', r') /\
      ((cr_ok r' = true /\ r = r' /\ mfind tk' c = Some t' /\ snd tk' = snd tk /\
        forall c', c' <> c -> mfind tk' c' = mfind tk c')
       \/ (cr_ok r' = false /\ r = cfail /\ tk' = tk)).
  Proof.
    unfold mfind, Convert.tok_exec. intros F. rewrite F.
    destruct (std_call MODULE t caller cl) as [t' r'] eqn:S. exists t', r'. split; [reflexivity|].
    destruct (cr_ok r') eqn:O; inversion H; subst.
    - left. cbn [fst snd]. repeat split.
      + apply (afind_aset_same Z.eqb Z.eqb_eq).
      + intros c' N. apply (afind_aset_other Z.eqb Z.eqb_eq). congruence.
    - right. repeat split.
  Qed.

  (** a call to any other contract leaves the module's contracts alone *)
  Lemma tok_exec_ext tk c caller cl tk' r :
    mfind tk c = None -> tok_exec tk c caller cl = (tk', r) -> fst tk' = fst tk.
  Proof.
    unfold mfind, Convert.tok_exec. intros F. rewrite F.
    destruct (xcall (snd tk) c caller cl) as [x' r']. destruct (cr_ok r'); intro H; inversion H; reflexivity.
  Qed.

  (** totalSupply of every module contract after a call *)
  Lemma tok_exec_totals tk c caller cl tk' r :
    tok_exec tk c caller cl = (tk', r) ->
    forall c' t', mfind tk' c' = Some t' ->
      exists t, mfind tk c' = Some t /\ st_total t' = st_total t + (if c' =? c then dtotal cl r else 0).
  Proof.
    intros H c' t' F'. destruct (mfind tk c) as [t|] eqn:F.
    - destruct (tok_exec_mtok _ _ _ _ _ _ _ F H) as (t1 & r' & S & [(O & -> & F1 & _ & Oth)|(O & -> & ->)]).
      + destruct (Z.eqb_spec c' c) as [->|N].
        * rewrite F1 in F'; inversion F'; subst t1. exists t. split; [exact F|]. eapply std_call_total; exact S.
        * rewrite (Oth c' N) in F'. exists t'. split; [exact F'|]. ring.
      + exists t'. split; [exact F'|]. unfold dtotal; cbn. destruct (c' =? c); ring.
    - pose proof (tok_exec_ext _ _ _ _ _ _ F H) as E. unfold mfind in *. rewrite E in F'.
      exists t'. split; [exact F'|]. destruct (Z.eqb_spec c' c) as [->|N]; [congruence | ring].
  Qed.

  Lemma tok_exec_total_le tk c caller cl tk' r :
    tok_exec tk c caller cl = (tk', r) -> caller <> MODULE ->
    forall c' t', mfind tk' c' = Some t' -> exists t, mfind tk c' = Some t /\ st_total t' <= st_total t.
  Proof.
    intros H NM c' t' F'. destruct (mfind tk c) as [t|] eqn:F.
    - destruct (tok_exec_mtok _ _ _ _ _ _ _ F H) as (t1 & r' & S & [(O & -> & F1 & _ & Oth)|(O & -> & ->)]).
      + destruct (Z.eqb_spec c' c) as [->|N].
        * rewrite F1 in F'; inversion F'; subst t1. exists t. split; [exact F|]. eapply std_call_total_le; eassumption.
        * rewrite (Oth c' N) in F'. exists t'. split; [exact F' | lia].
      + exists t'. split; [exact F' | lia].
    - pose proof (tok_exec_ext _ _ _ _ _ _ F H) as E. unfold mfind in *. rewrite E in F'.
      exists t'. split; [exact F' | lia].
  Qed.

  (** no module contract disappears *)
  Lemma tok_exec_keeps tk c caller cl tk' r :
    tok_exec tk c caller cl = (tk', r) -> forall c' t, mfind tk c' = Some t -> exists t', mfind tk' c' = Some t'.
  Proof.
    intros H c' t0 F0. destruct (mfind tk c) as [t|] eqn:F.
    - destruct (tok_exec_mtok _ _ _ _ _ _ _ F H) as (t1 & r' & S & [(O & -> & F1 & _ & Oth)|(O & -> & ->)]).
      + destruct (Z.eqb_spec c' c) as [->|N]; [exists t1; exact F1 | exists t0; rewrite (Oth c' N); exact F0].
      + exists t0; exact F0.
    - pose proof (tok_exec_ext _ _ _ _ _ _ F H) as E. unfold mfind in *. rewrite E. exists t0; exact F0.
  Qed.

  Lemma tok_balance_totals tk c a tk' v :
    tok_balance xcall MODULE tk c a = (tk', v) ->
    forall c' t', mfind tk' c' = Some t' -> exists t, mfind tk c' = Some t /\ st_total t' = st_total t.
  Proof.
    unfold tok_balance. destruct (tok_exec tk c MODULE (CBalanceOf a)) as [tk1 r] eqn:E.
    intro H; inversion H; subst. intros c' t' F'.
    destruct (tok_exec_totals _ _ _ _ _ _ E c' t' F') as (t & F & T). exists t. split; [exact F|].
    rewrite T. unfold dtotal. destruct (cr_ok r), (c' =? c); ring.
  Qed.

  (** the read–call–read pattern of the four flows: totalSupply moves by the call's [dtotal] on [c] only *)
  Lemma token_effect_totals tk tk' c caller cl watch dv res :
    token_effect xcall MODULE tk tk' c caller cl watch dv res ->
    forall c' t', mfind tk' c' = Some t' ->
      exists t, mfind tk c' = Some t /\ st_total t' = st_total t + (if c' =? c then dtotal cl res else 0).
  Proof.
    intros (tk0 & v0 & tk1 & v1 & B0 & E & O & B1 & V) c' t' F'.
    destruct (tok_balance_totals _ _ _ _ _ B1 c' t' F') as (t1 & F1 & T1).
    destruct (tok_exec_totals _ _ _ _ _ _ E c' t1 F1) as (t0 & F0 & T0).
    destruct (tok_balance_totals _ _ _ _ _ B0 c' t0 F0) as (t & F & T).
    exists t. split; [exact F|]. lia.
  Qed.

  Lemma token_effect2_totals tk tk' c caller cl w1 d1 w2 d2 res :
    token_effect2 xcall MODULE tk tk' c caller cl w1 d1 w2 d2 res ->
    forall c' t', mfind tk' c' = Some t' ->
      exists t, mfind tk c' = Some t /\ st_total t' = st_total t + (if c' =? c then dtotal cl res else 0).
  Proof.
    intros (tka & v0 & tkb & e0 & tk1 & tkc & v1 & e1 & B0 & B0' & E & O & B1 & B1' & V & V') c' t' F'.
    destruct (tok_balance_totals _ _ _ _ _ B1' c' t' F') as (t3 & F3 & T3).
    destruct (tok_balance_totals _ _ _ _ _ B1 c' t3 F3) as (t2 & F2 & T2).
    destruct (tok_exec_totals _ _ _ _ _ _ E c' t2 F2) as (t1 & F1 & T1).
    destruct (tok_balance_totals _ _ _ _ _ B0' c' t1 F1) as (t0 & F0 & T0).
    destruct (tok_balance_totals _ _ _ _ _ B0 c' t0 F0) as (t & F & T).
    exists t. split; [exact F|]. lia.
  Qed.

  (** ** Explicit ledger effect on a contract deployed by the module *)
  Lemma tok_balance_mtok tk c a tk' v t :
    mfind tk c = Some t -> tok_balance xcall MODULE tk c a = (tk', v) ->
    v = Some (zget (st_bal t) a) /\ mfind tk' c = Some t /\ snd tk' = snd tk /\
    forall c', c' <> c -> mfind tk' c' = mfind tk c'.
  Proof.
    unfold tok_balance. intros F. destruct (tok_exec tk c MODULE (CBalanceOf a)) as [tk1 r] eqn:E.
    intro H; inversion H; subst.
    destruct (tok_exec_mtok _ _ _ _ _ _ _ F E) as (t1 & r' & S & [(O & -> & F1 & SN & Oth)|(O & -> & ->)]);
      cbn in S; inversion S; subst.
    - cbn. repeat split; assumption.
    - cbn in O; discriminate.
  Qed.

  (** flow 1.1 on a module contract: the receiver gets exactly [a], totalSupply grows by [a], no other holder,
      no other contract moves *)
  Theorem mint_ledger tk tk' c r a res t :
    mfind tk c = Some t -> token_effect xcall MODULE tk tk' c MODULE (CMint r a) r a res ->
    exists t', mfind tk' c = Some t' /\
      (forall x, zget (st_bal t') x = zget (st_bal t) x + ind (x =? r) a) /\
      st_total t' = st_total t + a /\ st_allow t' = st_allow t /\
      (forall c', c' <> c -> mfind tk' c' = mfind tk c') /\ snd tk' = snd tk.
  Proof.
    intros F (tk0 & v0 & tk1 & v1 & B0 & E & O & B1 & V).
    destruct (tok_balance_mtok _ _ _ _ _ _ F B0) as (_ & F0 & S0 & O0).
    destruct (tok_exec_mtok _ _ _ _ _ _ _ F0 E) as (t1 & r' & S & [(O1 & -> & F1 & S1 & Oth1)|(O1 & -> & _)]);
      [|cbn in O; discriminate].
    destruct (tok_balance_mtok _ _ _ _ _ _ F1 B1) as (_ & F2 & S2 & O2).
    exists t1. split; [exact F2|].
    unfold std_call in S.
    destruct ((a <? 0) || negb (MODULE =? MODULE) || (r =? 0) || (W256 <=? st_total t + a)); inversion S; subst;
      [cbn in O; discriminate|]. cbn [st_bal st_total st_allow].
    repeat split.
    - intro x. rewrite zget_zset. unfold ind. rewrite (Z.eqb_sym x r). destruct (r =? x) eqn:EQ.
      + apply Z.eqb_eq in EQ; subst. reflexivity.
      + ring.
    - intros c' N. rewrite (O2 c' N), (Oth1 c' N), (O0 c' N). reflexivity.
    - congruence.
  Qed.

  (** flow 1.2 on a module contract: the sender loses exactly [a], totalSupply shrinks by [a], nothing else *)
  Theorem burn_ledger tk tk' c u a res t :
    mfind tk c = Some t -> token_effect xcall MODULE tk tk' c MODULE (CBurnCoins u a) u (- a) res ->
    exists t', mfind tk' c = Some t' /\ a <= zget (st_bal t) u /\
      (forall x, zget (st_bal t') x = zget (st_bal t) x + ind (x =? u) (- a)) /\
      st_total t' = st_total t - a /\ st_allow t' = st_allow t /\
      (forall c', c' <> c -> mfind tk' c' = mfind tk c') /\ snd tk' = snd tk.
  Proof.
    intros F (tk0 & v0 & tk1 & v1 & B0 & E & O & B1 & V).
    destruct (tok_balance_mtok _ _ _ _ _ _ F B0) as (_ & F0 & S0 & O0).
    destruct (tok_exec_mtok _ _ _ _ _ _ _ F0 E) as (t1 & r' & S & [(O1 & -> & F1 & S1 & Oth1)|(O1 & -> & _)]);
      [|cbn in O; discriminate].
    destruct (tok_balance_mtok _ _ _ _ _ _ F1 B1) as (_ & F2 & S2 & O2).
    exists t1. split; [exact F2|].
    unfold std_call in S.
    destruct ((a <? 0) || negb (MODULE =? MODULE) || (u =? 0)) eqn:G1; cbn [orb] in S;
      [inversion S; subst; cbn in O; discriminate|].
    destruct (zget (st_bal t) u <? a) eqn:L; inversion S; subst; [cbn in O; discriminate|].
    apply Z.ltb_ge in L. cbn [st_bal st_total st_allow].
    repeat split.
    - exact L.
    - intro x. rewrite zget_zset. unfold ind. rewrite (Z.eqb_sym x u). destruct (u =? x) eqn:EQ.
      + apply Z.eqb_eq in EQ; subst. ring.
      + ring.
    - intros c' N. rewrite (O2 c' N), (Oth1 c' N), (O0 c' N). reflexivity.
    - congruence.
  Qed.
End TokLemmas.
