(** C11 — backing of the voucher coin of an external token pair (a pair listing only that voucher): over every
    history, the voucher's bank supply never exceeds the ERC-20 balance the contract keeps for the module,
    PROVIDED the external contract (i) reports balances honestly (balanceOf is a view of a ledger) and (ii) no
    call lowers the module's balance other than the module's OWN transfer in the called contract.  What that own
    transfer takes from the module is NOT a hypothesis any more: since the repair c5eeeaa convertCoinNativeERC20
    compares the module's balance before and after (before the repair a token charging the sender a fee broke
    the invariant: Refuted/C11_refuted.v). *)
From Teleport Require Import Base.Bytes Base.Outcome Model.Convert Proofs.ConvertBase Proofs.ConvertExact
  Proofs.ConvertTokensLemmas Proofs.ConvertBacking.
Local Open Scope Z_scope.

Definition is_transfer (cl : call) : bool := match cl with CTransfer _ _ => true | _ => false end.

Section Voucher.
  Variable X : Type.
  Variable xcall : X -> Z -> Z -> call -> X * cres.
  Variable xcontract : X -> Z -> bool.
  Variable MODULE : Z.
  Notation state := (state X).
  Notation tokens := (tokens X).
  Implicit Types s : state.
  Implicit Types tk : tokens.
  Notation step := (step xcall xcontract MODULE).
  Notation run := (run xcall xcontract MODULE).
  Notation tok_exec := (tok_exec xcall MODULE).

  (** the balance contract [c] keeps for [holder] in external state [x] *)
  Variable ledger : X -> Z -> Z -> Z.

  (** (i) balanceOf is an honest view *)
  Definition honest_view : Prop :=
    forall x c caller a x' r, xcall x c caller (CBalanceOf a) = (x', r) -> cr_ok r = true ->
      x' = x /\ cr_ret r = Some (ledger x c a).

  (** (ii) a successful call never lowers the module's balance in any contract -- except the module's own
      transfer in the called contract, about which nothing is assumed (the code checks its effect) *)
  Definition others_cannot_debit : Prop :=
    forall x c caller cl x' r, xcall x c caller cl = (x', r) -> cr_ok r = true ->
      forall c', ((caller =? MODULE) && (c' =? c) && is_transfer cl) = true \/ ledger x c' MODULE <= ledger x' c' MODULE.

  Hypothesis HV : honest_view.
  Hypothesis ND : others_cannot_debit.

  (** every external single-voucher pair is fully backed *)
  Definition VBacked s : Prop :=
    forall id p v, In (id, p) (s_pairs s) -> p_owner p = 2 -> p_denoms p = [v] -> find_mtok s (p_erc20 p) = None ->
      sget (s_supply s) v <= ledger (s_ext s) (p_erc20 p) MODULE.

  (** registry well-formedness needed here: additionally no contract address in two pairs (C12) *)
  Definition WFv s : Prop :=
    WF s /\ forall id p id' p', In (id, p) (s_pairs s) -> In (id', p') (s_pairs s) -> p_erc20 p = p_erc20 p' -> id = id'.

  Definition InvV s : Prop := WFv s /\ VBacked s.

  (** ** Calls *)
  Lemma tok_exec_ledger tk c caller cl tk' r :
    tok_exec tk c caller cl = (tk', r) ->
    forall c', ((caller =? MODULE) && (c' =? c) && is_transfer cl) = true /\ mfind X tk c = None
               \/ ledger (snd tk) c' MODULE <= ledger (snd tk') c' MODULE.
  Proof.
    intros H c'.
    destruct (mfind X tk c) as [t|] eqn:F.
    - right. destruct (tok_exec_mtok X xcall MODULE _ _ _ _ _ _ _ F H) as (t1 & r' & S & [(O & -> & F1 & SN & Oth)|(O & -> & ->)]).
      + rewrite SN. lia.
      + lia.
    - unfold mfind in F. unfold Convert.tok_exec in H. rewrite F in H.
      destruct (xcall (snd tk) c caller cl) as [x' r'] eqn:XC. destruct (cr_ok r') eqn:O; inversion H; subst.
      + cbn [snd]. destruct (ND _ _ _ _ _ _ XC O c') as [T|L]; [left; split; [exact T | reflexivity] | right; exact L].
      + right. lia.
  Qed.

  Lemma tok_exec_mfind_none tk c caller cl tk' r c' :
    tok_exec tk c caller cl = (tk', r) -> mfind X tk' c' = None -> mfind X tk c' = None.
  Proof.
    intros H N. destruct (mfind X tk c') as [t|] eqn:F; [|reflexivity].
    destruct (tok_exec_keeps X xcall MODULE _ _ _ _ _ _ H c' t F) as (t' & F'). congruence.
  Qed.

  (** a balance read on an external contract changes nothing and returns the ledger entry *)
  Lemma tok_balance_ext tk c a tk' v :
    mfind X tk c = None -> tok_balance xcall MODULE tk c a = (tk', Some v) -> tk' = tk /\ v = ledger (snd tk) c a.
  Proof.
    unfold tok_balance, mfind, Convert.tok_exec. intros F. rewrite F.
    destruct (xcall (snd tk) c MODULE (CBalanceOf a)) as [x' r'] eqn:XC. destruct (cr_ok r') eqn:O.
    - intro H; inversion H; subst. destruct (HV _ _ _ _ _ _ XC O) as [-> R]. split; [destruct tk; reflexivity|].
      congruence.
    - intro H; inversion H.
  Qed.

  Lemma tok_balance_snd tk c a tk' v : tok_balance xcall MODULE tk c a = (tk', Some v) -> snd tk' = snd tk.
  Proof.
    intro H. destruct (mfind X tk c) as [t|] eqn:F.
    - destruct (tok_balance_mtok X xcall MODULE _ _ _ _ _ _ F H) as (_ & _ & S & _). exact S.
    - destruct (tok_balance_ext _ _ _ _ _ F H) as [-> _]. reflexivity.
  Qed.

  Lemma tok_balance_mfind_none tk c a tk' v c' :
    tok_balance xcall MODULE tk c a = (tk', v) -> mfind X tk' c' = None -> mfind X tk c' = None.
  Proof.
    unfold tok_balance. destruct (tok_exec tk c MODULE (CBalanceOf a)) as [tk1 r] eqn:E.
    intro H; inversion H; subst. eapply tok_exec_mfind_none; exact E.
  Qed.

  (** the read–call–read pattern with a call that is not the module's own transfer: the module's balance drops
      nowhere *)
  Lemma token_effect_ledger tk tk' c caller cl watch dv res :
    token_effect xcall MODULE tk tk' c caller cl watch dv res -> (caller =? MODULE) && is_transfer cl = false ->
    forall c', ledger (snd tk) c' MODULE <= ledger (snd tk') c' MODULE.
  Proof.
    intros (tk0 & v0 & tk1 & v1 & B0 & E & O & B1 & V) NT c'.
    rewrite (tok_balance_snd _ _ _ _ _ B1). rewrite <- (tok_balance_snd _ _ _ _ _ B0).
    destruct (tok_exec_ledger _ _ _ _ _ _ E c') as [[T _]|L]; [|exact L].
    exfalso. destruct (caller =? MODULE), (is_transfer cl), (c' =? c); cbn in *; discriminate.
  Qed.

  (** flow 2.2: the module's balance drops in the called contract only, and there by exactly [a] when the
      contract is external (the code compares the two reads), not at all otherwise *)
  Lemma token_effect2_ledger tk tk' c r a res :
    token_effect2 xcall MODULE tk tk' c MODULE (CTransfer r a) r a MODULE (- a) res -> 0 <= a ->
    forall c', ledger (snd tk) c' MODULE - (if c' =? c then a else 0) <= ledger (snd tk') c' MODULE.
  Proof.
    intros (tka & v0 & tkb & e0 & tk1 & tkc & v1 & e1 & B0 & B0' & E & O & B1 & B1' & V & V') P c'.
    pose proof (tok_balance_snd _ _ _ _ _ B0) as S0. pose proof (tok_balance_snd _ _ _ _ _ B0') as S0'.
    pose proof (tok_balance_snd _ _ _ _ _ B1) as S1. pose proof (tok_balance_snd _ _ _ _ _ B1') as S1'.
    rewrite S1', S1, <- S0, <- S0'.
    destruct (tok_exec_ledger _ _ _ _ _ _ E c') as [[T F]|L].
    - (* the module's own transfer on the external contract c' = c: use the two reads *)
      rewrite Z.eqb_refl in T. cbn [andb] in T. rewrite andb_true_r in T. apply Z.eqb_eq in T. subst c'.
      rewrite Z.eqb_refl.
      pose proof (tok_balance_mfind_none _ _ _ _ _ _ B0' F) as Fa.
      destruct (tok_balance_ext _ _ _ _ _ Fa B0') as [EQb ->].
      assert (F1 : mfind X tk1 c = None).
      { destruct (mfind X tk1 c) as [t1|] eqn:F1; [|reflexivity].
        destruct (tok_exec_totals X xcall MODULE _ _ _ _ _ _ E c t1 F1) as (t & F0 & _). congruence. }
      assert (Fc : mfind X tkc c = None).
      { destruct (mfind X tkc c) as [t1|] eqn:Fc; [|reflexivity].
        destruct (tok_balance_totals X xcall MODULE _ _ _ _ _ B1 c t1 Fc) as (t & F0 & _). congruence. }
      destruct (tok_balance_ext _ _ _ _ _ Fc B1') as [_ ->]. subst tkb. rewrite S1 in V'. lia.
    - destruct (c' =? c); lia.
  Qed.

  Lemma token_effect_mfind_none tk tk' c caller cl watch dv res c' :
    token_effect xcall MODULE tk tk' c caller cl watch dv res -> mfind X tk' c' = None -> mfind X tk c' = None.
  Proof.
    intros (tk0 & v0 & tk1 & v1 & B0 & E & O & B1 & V) N.
    eapply tok_balance_mfind_none; [exact B0|]. eapply tok_exec_mfind_none; [exact E|].
    eapply tok_balance_mfind_none; [exact B1|]. exact N.
  Qed.

  Lemma token_effect2_mfind_none tk tk' c caller cl w1 d1 w2 d2 res c' :
    token_effect2 xcall MODULE tk tk' c caller cl w1 d1 w2 d2 res -> mfind X tk' c' = None -> mfind X tk c' = None.
  Proof.
    intros (tka & v0 & tkb & e0 & tk1 & tkc & v1 & e1 & B0 & B0' & E & O & B1 & B1' & V & V') N.
    eapply tok_balance_mfind_none; [exact B0|]. eapply tok_balance_mfind_none; [exact B0'|].
    eapply tok_exec_mfind_none; [exact E|].
    eapply tok_balance_mfind_none; [exact B1|]. eapply tok_balance_mfind_none; [exact B1'|]. exact N.
  Qed.

  (** flow 2.1 on an external contract: the module's ledger entry grew by exactly [a] *)
  Lemma token_effect_escrowed tk tk' c u a res :
    mfind X tk c = None -> token_effect xcall MODULE tk tk' c u (CTransfer MODULE a) MODULE a res ->
    ledger (snd tk') c MODULE = ledger (snd tk) c MODULE + a.
  Proof.
    intros F (tk0 & v0 & tk1 & v1 & B0 & E & O & B1 & V).
    destruct (tok_balance_ext _ _ _ _ _ F B0) as [-> ->].
    assert (F1 : mfind X tk1 c = None).
    { destruct (mfind X tk1 c) as [t1|] eqn:F1; [|reflexivity].
      destruct (tok_exec_totals X xcall MODULE _ _ _ _ _ _ E c t1 F1) as (t & F0 & _). congruence. }
    destruct (tok_balance_ext _ _ _ _ _ F1 B1) as [-> ->]. lia.
  Qed.

  (** ** Preservation *)
  Lemma vbacked_step s s' :
    s_pairs s' = s_pairs s ->
    (forall c, find_mtok s' c = None -> find_mtok s c = None) ->
    (forall id p v, In (id, p) (s_pairs s) -> p_owner p = 2 -> p_denoms p = [v] -> find_mtok s (p_erc20 p) = None ->
       exists dv, sget (s_supply s') v = sget (s_supply s) v + dv /\
                  ledger (s_ext s) (p_erc20 p) MODULE + dv <= ledger (s_ext s') (p_erc20 p) MODULE) ->
    VBacked s -> VBacked s'.
  Proof.
    intros P N H B id p v I O D F. rewrite P in I. specialize (N _ F).
    destruct (H id p v I O D N) as (dv & S & L). specialize (B id p v I O D N). lia.
  Qed.

  Lemma invv_delete_pair s d p :
    InvV s -> get_pair s (get_denom_map s d) = Some p -> InvV (delete_pair s p).
  Proof.
    intros [[W U] B] GP.
    assert (SUB : forall id q, In (id, q) (s_pairs (delete_pair s p)) -> In (id, q) (s_pairs s)).
    { intros id q I. unfold delete_pair in I. cbn in I. apply (adel_In bytes_eqb bytes_eqb_eq) in I. tauto. }
    split; [split|].
    - eapply wf_delete_pair; eassumption.
    - intros id q id' q' I I' E. apply U with q q'; auto.
    - intros id q v I O D F. apply (B id q v (SUB _ _ I) O D). exact F.
  Qed.

  (** pairs with the same contract are the same pair; so a single-voucher pair sharing the contract of the
      pair that lists [d] has voucher [d] *)
  Lemma same_contract_same_voucher s d p id q v :
    WFv s -> get_pair s (get_denom_map s d) = Some p -> In (id, q) (s_pairs s) -> p_denoms q = [v] ->
    p_erc20 q = p_erc20 p -> v = d.
  Proof.
    intros [W U] GP I D E. pose proof W as (NDk & W2 & W3 & W4).
    pose proof (get_pair_In _ _ _ _ GP) as IP.
    assert (id = get_denom_map s d) by (apply U with q p; assumption). subst id.
    pose proof (In_afind bytes_eqb bytes_eqb_eq _ _ _ NDk I) as A. unfold get_pair in GP.
    assert (q = p) by congruence. subst q.
    pose proof (W3 d p GP) as L. rewrite D in L. destruct L as [L|[]]. exact L.
  Qed.

  Lemma inv_v_handle s m s' :
    handle xcall xcontract MODULE s m = Ok s' -> signer (OMsg m) <> Some MODULE -> InvV s -> InvV s'.
  Proof.
    intros H NS [[W U] B].
    pose proof (handle_ok_gates _ _ _ _ _ _ _ H) as (_ & p & PR & _ & _ & _ & GP).
    destruct m as [m|m]; cbn [handle] in H.
    - (* MsgConvertCoin *)
      pose proof (convert_coin_ok_exact _ _ _ _ _ _ _ _ H PR) as E. cbv zeta in E.
      destruct (is_contract xcontract s (p_erc20 p)) eqn:C;
        [|subst s'; apply (invv_delete_pair s (cc_denom m)); [exact (conj (conj W U) B) | exact GP]].
      destruct E as (OW & P & L & BS & SS & (G1 & G2 & G3 & G4 & G5 & G6 & G7 & G8) & A & res & TE & _).
      split; [split; [unfold WF; rewrite G3, G5; exact W | rewrite G3; exact U]|].
      destruct OW as [O1|O2]; rewrite ?O1, ?O2 in *; cbn [Z.eqb Pos.eqb andb] in *.
      + (* flow 1.1 *)
        apply (vbacked_step s s' G3); [| |exact B].
        * intros c0 N. rewrite find_mtok_tokens in *. eapply token_effect_mfind_none; eassumption.
        * intros id q v I O D F. exists 0. split; [rewrite SS; unfold ind; ring|].
          assert (NT : (MODULE =? MODULE) && is_transfer (CMint (hex_to_addr (cc_receiver m)) (cc_amount m)) = false)
            by (cbn; apply andb_false_r).
          pose proof (token_effect_ledger _ _ _ _ _ _ _ _ TE NT (p_erc20 q)) as LG.
          change (snd (s_tokens s)) with (s_ext s) in LG. change (snd (s_tokens s')) with (s_ext s') in LG. lia.
      + (* flow 2.2 *)
        apply (vbacked_step s s' G3); [| |exact B].
        * intros c0 N. rewrite find_mtok_tokens in *. eapply token_effect2_mfind_none; eassumption.
        * intros id q v I O D F.
          exists (ind (bytes_eqb v (cc_denom m)) (- cc_amount m)). split; [apply SS|].
          assert (PA : 0 <= cc_amount m) by lia.
          pose proof (token_effect2_ledger _ _ _ _ _ _ TE PA (p_erc20 q)) as LG.
          change (snd (s_tokens s)) with (s_ext s) in LG. change (snd (s_tokens s')) with (s_ext s') in LG.
          destruct (bytes_eqb_spec v (cc_denom m)) as [->|NV]; unfold ind.
          -- destruct (p_erc20 q =? p_erc20 p); lia.
          -- destruct (Z.eqb_spec (p_erc20 q) (p_erc20 p)) as [EQ|_]; [|lia].
             exfalso. apply NV. eapply same_contract_same_voucher; [exact (conj W U) | exact GP | exact I | exact D | exact EQ].
    - (* MsgConvertERC20 *)
      pose proof (convert_erc20_ok_exact _ _ _ _ _ _ _ _ H PR) as E. cbv zeta in E. cbn [signer] in NS.
      assert (NM : hex_to_addr (ce_sender m) <> MODULE) by congruence.
      destruct (is_contract xcontract s (p_erc20 p)) eqn:C;
        [|subst s'; apply (invv_delete_pair s (ce_denom m)); [exact (conj (conj W U) B) | exact GP]].
      destruct E as (OW & P & BL & BS & SS & (G1 & G2 & G3 & G4 & G5 & G6 & G7 & G8) & A & res & TE & _).
      split; [split; [unfold WF; rewrite G3, G5; exact W | rewrite G3; exact U]|].
      destruct OW as [O1|O2]; rewrite ?O1, ?O2 in *; cbn [Z.eqb Pos.eqb andb] in *.
      + (* flow 1.2 *)
        apply (vbacked_step s s' G3); [| |exact B].
        * intros c0 N. rewrite find_mtok_tokens in *. eapply token_effect_mfind_none; eassumption.
        * intros id q v I O D F. exists 0. split; [rewrite SS; unfold ind; ring|].
          assert (NT : (MODULE =? MODULE) && is_transfer (CBurnCoins (hex_to_addr (ce_sender m)) (ce_amount m)) = false)
            by (cbn; apply andb_false_r).
          pose proof (token_effect_ledger _ _ _ _ _ _ _ _ TE NT (p_erc20 q)) as LG.
          change (snd (s_tokens s)) with (s_ext s) in LG. change (snd (s_tokens s')) with (s_ext s') in LG. lia.
      + (* flow 2.1 *)
        apply (vbacked_step s s' G3); [| |exact B].
        * intros c0 N. rewrite find_mtok_tokens in *. eapply token_effect_mfind_none; eassumption.
        * intros id q v I O D F.
          exists (ind (bytes_eqb v (ce_denom m)) (ce_amount m)). split; [apply SS|].
          assert (NT : (hex_to_addr (ce_sender m) =? MODULE) && is_transfer (CTransfer MODULE (ce_amount m)) = false).
          { destruct (Z.eqb_spec (hex_to_addr (ce_sender m)) MODULE) as [EQ|_]; [contradiction | reflexivity]. }
          pose proof (token_effect_ledger _ _ _ _ _ _ _ _ TE NT (p_erc20 q)) as LG.
          change (snd (s_tokens s)) with (s_ext s) in LG. change (snd (s_tokens s')) with (s_ext s') in LG.
          destruct (bytes_eqb_spec v (ce_denom m)) as [->|NV]; unfold ind; [|lia].
          assert (In (ce_denom m) (p_denoms q)) as DQ by (rewrite D; left; reflexivity).
          destruct (WF_unique X s (ce_denom m) p id q W GP I DQ) as [_ ->].
          rewrite find_mtok_tokens in F.
          pose proof (token_effect_escrowed _ _ _ _ _ _ F TE) as EQ.
          change (snd (s_tokens s)) with (s_ext s) in EQ. change (snd (s_tokens s')) with (s_ext s') in EQ. lia.
  Qed.

  Lemma inv_v_msg s m s' c :
    deliver xcall xcontract MODULE s m = (s', c) -> signer (OMsg m) <> Some MODULE -> InvV s -> InvV s'.
  Proof.
    intros H NS I. apply deliver_inv in H as [(_ & _ & H)|(_ & ->)]; [|exact I].
    eapply inv_v_handle; eassumption.
  Qed.

  Lemma inv_v_hook s r d a s' c :
    hook_recv xcall xcontract MODULE s r d a = (s', c) -> r <> MODULE -> InvV s -> InvV s'.
  Proof.
    intros H NM I. apply hook_recv_inv in H as [(_ & _ & _ & _ & H)|(_ & ->)]; [|exact I].
    apply (inv_v_handle s (MCC (hook_msg r d a)) s'); [exact H | | exact I].
    cbn [signer hook_msg cc_sender]. congruence.
  Qed.

  (** ** Names of the vouchers.  RegisterERC20 names the voucher of an external contract "aggregate/<address>"
      (types.CreateDenom); coins of such a denomination are minted by x/aggregate only, so the coins other modules
      create ([OEnvMint]) are of other denominations. *)
  Definition VNamed s : Prop :=
    forall id p v, In (id, p) (s_pairs s) -> p_owner p = 2 -> p_denoms p = [v] -> is_prefix aggregate_prefix v = true.

  Definition no_voucher_mint (o : op) : Prop :=
    match o with OEnvMint _ d _ => is_prefix aggregate_prefix d = false | _ => True end.

  Lemma vnamed_sub s s' :
    (forall id p, In (id, p) (s_pairs s') ->
       exists p0, In (id, p0) (s_pairs s) /\ p_owner p0 = p_owner p /\ p_denoms p0 = p_denoms p) ->
    VNamed s -> VNamed s'.
  Proof. intros S V id p v I O D. destruct (S id p I) as (p0 & I0 & O0 & D0). apply (V id p0 v I0); congruence. Qed.

  Lemma handle_pairs s m s' :
    handle xcall xcontract MODULE s m = Ok s' ->
    s_pairs s' = s_pairs s \/ exists p, s_pairs s' = adel bytes_eqb (s_pairs s) (p_id p).
  Proof.
    intro H. pose proof (handle_ok_gates _ _ _ _ _ _ _ H) as (_ & p & PR & _).
    destruct m as [m|m]; cbn [handle] in H.
    - pose proof (convert_coin_ok_exact _ _ _ _ _ _ _ _ H PR) as E. cbv zeta in E.
      destruct (is_contract xcontract s (p_erc20 p)); [|subst s'; right; exists p; reflexivity].
      destruct E as (_ & _ & _ & _ & _ & (_ & _ & G3 & _) & _). left. exact G3.
    - pose proof (convert_erc20_ok_exact _ _ _ _ _ _ _ _ H PR) as E. cbv zeta in E.
      destruct (is_contract xcontract s (p_erc20 p)); [|subst s'; right; exists p; reflexivity].
      destruct E as (_ & _ & _ & _ & _ & (_ & _ & G3 & _) & _). left. exact G3.
  Qed.

  Lemma vnamed_pairs s s' :
    s_pairs s' = s_pairs s \/ (exists p, s_pairs s' = adel bytes_eqb (s_pairs s) (p_id p)) -> VNamed s -> VNamed s'.
  Proof.
    intros [E|(p & E)]; apply vnamed_sub; intros id q I; rewrite E in I.
    - exists q. repeat split; assumption.
    - apply (adel_In bytes_eqb bytes_eqb_eq) in I as [I _]. exists q. repeat split; assumption.
  Qed.

  Lemma vnamed_step s o : VNamed s -> VNamed (step s o).
  Proof.
    destruct o as [m|c caller cl|f t d a|id|p e sd sl|r d a|t d a]; cbn [Convert.step].
    - destruct (deliver xcall xcontract MODULE s m) as [s' k] eqn:D. cbn [fst].
      apply deliver_inv in D as [(_ & _ & H)|(_ & ->)]; [|auto]. apply vnamed_pairs. eapply handle_pairs; eassumption.
    - unfold token_call. destruct (evm_call xcall MODULE s c caller cl) as [s1 r] eqn:E.
      destruct (cr_ok r); cbn [fst]; [|auto].
      apply evm_call_inv in E as [(_ & _ & _ & tk' & _ & ->)|[_ ->]]; [|auto]. apply vnamed_pairs. left. reflexivity.
    - unfold bank_send. destruct (zmem t (s_blocked s)); [auto|].
      destruct (send_coins s f t d a) as [s1| |] eqn:S; cbn [fst]; auto.
      apply send_coins_inv in S as (_ & _ & _ & ->).
      destruct (sent_proj X s f t d a) as (_ & _ & Q3 & _). apply vnamed_pairs. left. exact Q3.
    - destruct (get_pair s id) as [p0|]; [|auto]. apply vnamed_sub. cbn [s_pairs set_registry]. intros i q I.
      apply (aupd_In bytes_eqb bytes_eqb_eq) in I as (v0 & I & [->|[_ ->]]); exists v0; repeat split; assumption.
    - apply vnamed_pairs. left. reflexivity.
    - destruct (hook_recv xcall xcontract MODULE s r d a) as [s' k] eqn:D. cbn [fst].
      apply hook_recv_inv in D as [(_ & _ & _ & _ & H)|(_ & ->)]; [|auto].
      apply vnamed_pairs. apply (handle_pairs s (MCC (hook_msg r d a))). exact H.
    - destruct (env_mint s t d a) as [s' k] eqn:D. cbn [fst].
      apply env_mint_inv in D as [(_ & _ & _ & ->)|(_ & ->)]; [|auto].
      apply vnamed_pairs. left.
      match goal with |- s_pairs (ensure_acct ?s0 t) = _ => destruct (ensure_acct_proj X s0 t) as (_ & _ & -> & _) end.
      reflexivity.
  Qed.

  (** coins of a non-voucher denomination created by another module *)
  Lemma inv_v_env_mint s t d a s' k :
    env_mint s t d a = (s', k) -> is_prefix aggregate_prefix d = false -> VNamed s -> InvV s -> InvV s'.
  Proof.
    intros H NV VN [[W U] B]. apply env_mint_inv in H as [(_ & _ & _ & ->)|(_ & ->)]; [|exact (conj (conj W U) B)].
    match goal with |- InvV (ensure_acct ?s0 t) =>
      destruct (ensure_acct_proj X s0 t) as (_ & _ & Q3 & _ & Q5 & _ & Q7 & _ & _ & _ & Q11 & Q12) end.
    cbn [s_pairs s_denom s_supply s_mtok s_ext set_supply set_bank] in Q3, Q5, Q7, Q11, Q12.
    split; [split; [unfold WF; rewrite Q3, Q5; exact W | rewrite Q3; exact U]|].
    intros id q v I OW D F. rewrite Q3 in I. unfold find_mtok in F. rewrite Q11 in F. rewrite Q7, Q12.
    rewrite sget_sset. destruct (bytes_eqb_spec d v) as [->|_]; [|exact (B id q v I OW D F)].
    rewrite (VN id q v I OW D) in NV. discriminate.
  Qed.

  Lemma inv_v_token_call s c caller cl s' k :
    token_call xcall MODULE s c caller cl = (s', k) -> caller <> MODULE -> InvV s -> InvV s'.
  Proof.
    unfold token_call. destruct (evm_call xcall MODULE s c caller cl) as [s1 r] eqn:E.
    destruct (cr_ok r) eqn:O; intros H NM [[W U] B]; inversion H; subst; [|exact (conj (conj W U) B)].
    apply evm_call_inv in E as [(_ & _ & _ & tk' & T & ->)|[-> _]]; [|cbn in O; discriminate].
    split; [split; [exact W | exact U]|].
    apply (vbacked_step s (set_tokens s tk') eq_refl); [| |exact B].
    - intros c0 N. rewrite find_mtok_tokens, s_tokens_set in N. rewrite find_mtok_tokens.
      eapply tok_exec_mfind_none; eassumption.
    - intros id q v I OW D F. exists 0. split; [cbn [s_supply set_tokens]; ring|].
      destruct (tok_exec_ledger _ _ _ _ _ _ T (p_erc20 q)) as [[TT _]|LG].
      + exfalso. destruct (Z.eqb_spec caller MODULE) as [EQ|_]; [contradiction | cbn in TT; discriminate].
      + cbn [s_ext set_tokens]. change (snd (s_tokens s)) with (s_ext s) in LG. lia.
  Qed.

  Lemma inv_v_bank_send s f t d a s' k : bank_send s f t d a = (s', k) -> InvV s -> InvV s'.
  Proof.
    unfold bank_send. destruct (zmem t (s_blocked s)); [intros H I; inversion H; subst; exact I|].
    destruct (send_coins s f t d a) as [s1| |] eqn:S; intros H [[W U] B]; inversion H; subst;
      try exact (conj (conj W U) B).
    apply send_coins_inv in S as (VD & P & L & ->).
    destruct (sent_proj X s f t d a) as (_ & _ & Q3 & _ & Q5 & Q6 & _ & _ & _ & Q10 & Q11).
    split; [split; [unfold WF; rewrite Q3, Q5; exact W | rewrite Q3; exact U]|].
    intros id q v I OW D F. rewrite Q3 in I. unfold find_mtok in F. rewrite Q10 in F. rewrite Q6, Q11.
    exact (B id q v I OW D F).
  Qed.

  Lemma inv_v_toggle s id : InvV s -> InvV (step s (OToggle id)).
  Proof.
    intros [[W U] B]. split; [split; [apply wf_toggle; exact W|]|];
      cbn [Convert.step]; destruct (get_pair s id) as [p0|] eqn:G; try assumption.
    - cbn [s_pairs set_registry]. intros i1 q1 i2 q2 I1 I2 E.
      apply (aupd_In bytes_eqb bytes_eqb_eq) in I1 as (v1 & I1 & H1).
      apply (aupd_In bytes_eqb bytes_eqb_eq) in I2 as (v2 & I2 & H2).
      apply U with v1 v2; try assumption.
      destruct H1 as [->|[_ ->]], H2 as [->|[_ ->]]; exact E.
    - intros i q v I OW D F. cbn [s_pairs set_registry] in I. cbn in F.
      apply (aupd_In bytes_eqb bytes_eqb_eq) in I as (v0 & I & [->|[_ ->]]).
      + exact (B i v0 v I OW D F).
      + exact (B i v0 v I OW D F).
  Qed.

  (** ** The invariant over all histories *)
  Theorem inv_v_step s o : not_module_signed MODULE o -> no_voucher_mint o -> VNamed s -> InvV s -> InvV (step s o).
  Proof.
    intros NS NV VN I. destruct o as [m|c caller cl|f t d a|id|p e sd sl|r d a|t d a].
    - cbn [Convert.step]. destruct (deliver xcall xcontract MODULE s m) as [s' k] eqn:D. cbn [fst].
      eapply inv_v_msg; eassumption.
    - cbn [Convert.step]. destruct (token_call xcall MODULE s c caller cl) as [s' k] eqn:D. cbn [fst].
      eapply inv_v_token_call; [exact D| |exact I]. intro; subst. apply NS. reflexivity.
    - cbn [Convert.step]. destruct (bank_send s f t d a) as [s' k] eqn:D. cbn [fst].
      eapply inv_v_bank_send; eassumption.
    - apply inv_v_toggle; exact I.
    - destruct I as [[W U] B]. split; [split; [exact W | exact U]|]. intros id q v IN OW D F. exact (B id q v IN OW D F).
    - cbn [Convert.step]. destruct (hook_recv xcall xcontract MODULE s r d a) as [s' k] eqn:D. cbn [fst].
      eapply inv_v_hook; [exact D| |exact I]. intro; subst. apply NS. reflexivity.
    - cbn [Convert.step]. destruct (env_mint s t d a) as [s' k] eqn:D. cbn [fst].
      eapply inv_v_env_mint; eassumption.
  Qed.

  Theorem inv_v_run l : forall s, Forall (not_module_signed MODULE) l -> Forall no_voucher_mint l ->
    VNamed s -> InvV s -> InvV (run s l) /\ VNamed (run s l).
  Proof.
    induction l as [|o l IH]; intros s F NV VN I; [split; assumption|]. cbn [Convert.run fold_left].
    inversion F; subst. inversion NV; subst. apply IH; [assumption | assumption | |].
    - apply vnamed_step; assumption.
    - apply inv_v_step; assumption.
  Qed.
End Voucher.

Arguments VBacked {X}. Arguments WFv {X}. Arguments InvV {X}. Arguments VNamed {X}. Arguments honest_view {X}. Arguments others_cannot_debit {X}.
