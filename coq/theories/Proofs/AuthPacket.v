(** C06 — refinement between layers: the message-server handlers of the PACKET-CORE model
    (Model/Packet.v: concrete KV store, receipts, commitments, acknowledgement hashes, callbacks
    as inputs — the model the packet properties C01/C02/C04/C05 are proved about and tied to the code
    with) are an INSTANCE of the authorization model (Model/Auth.v), whose lower layer is arbitrary.

    Consequence: every theorem of Props/C06.v holds of the packet-core model's RecvPacket /
    Acknowledgement, not only of the abstract handlers.

    The only assumption is the specification of the TSS client's verification functions
    (x/xibc/clients/tss-client/types/client_state.go VerifyPacketCommitment / VerifyPacketAcknowledgement:
    `if string(proof) != cs.TssAddress { error }` and nothing else), stated as a Section hypothesis
    about the packet model's [client_verify] oracle. *)
From Teleport Require Import Base.Bytes Base.Outcome Base.AList Model.Auth Model.AuthCheck Proofs.Auth Proofs.AuthBranches.
From Teleport Require Model.Packet.

Module P := Model.Packet.

Section Refine.
  Variable PP : P.params.
  Variable env : N.
  (** TssAddress of the TSS client state stored under a chain name (in environment [env]) *)
  Variable tss_addr : bytes -> bytes.

  Hypothesis tss_verify : forall name ct kind h proof src dst seq v,
    P.is_tss ct = true ->
    P.client_verify PP env name ct kind h proof src dst seq v = bytes_eqb proof (tss_addr name).

  (** rest of the messages as the authorization model sees them: the packet-core message and the
      callback inputs of the packet-core operation *)
  Definition PK : Type := (P.recv_msg * P.cbres)%type.
  Definition AK : Type := (P.ack_msg * (P.cbres * P.cbres * P.cbres))%type.

  Definition ack_conv (a : ack) : P.ackt := P.mkAck (ack_code a) (ack_result a) (ack_message a) (ack_relayer a) (ack_fee a).
  Definition ack_back (a : P.ackt) : ack :=
    {| ack_code := P.a_code a; ack_result := P.a_result a; ack_message := P.a_message a;
       ack_relayer := P.a_relayer a; ack_fee := P.a_fee a |}.

  Definition pkt_of (bz : bytes) : P.packet := fst (P.decode PP bz).
  Definition pkt_err (bz : bytes) : bool := snd (P.decode PP bz).

  (** the lower layer of the authorization model, instantiated by the packet-core model *)
  Definition plow : lower P.cstate unit PK AK :=
    {| client_of := fun d c => match aget c (P.st_clients d) with
                               | None => None
                               | Some ct => Some (if P.is_tss ct then TSS (tss_addr c) else Light)
                               end;
       self_chain := P.st_name;
       lo_update := fun d _ _ => Ok d;
       lo_recv := fun d m => let pm := fst (rm_rest PK m) in
                             if pkt_err (P.rm_packet pm) then Err else P.recv_keeper PP env d pm;
       lo_callback := fun d1 m =>
         let '(pm, cb) := rm_rest PK m in
         match P.call_packet PP d1 (P.EvOnRecv (pkt_of (P.rm_packet pm))) cb with
         | Panic => CbPanic P.cstate
         | Err => CbFailed P.cstate d1
         | Ok s2 => match P.cb_ret cb with
                    | None => CbReturned P.cstate s2 None
                    | Some (code, r, mg) => CbReturned P.cstate (if (code =? 0)%N then s2 else d1) (Some (code, r, mg))
                    end
         end;
       lo_write_ack := fun d m a =>
         match P.pack_ack PP (ack_conv a) with
         | None => Err
         | Some bz => P.write_ack PP d (pkt_of (P.rm_packet (fst (rm_rest PK m)))) bz
         end;
       lo_ack := fun d m => let pm := fst (am_rest AK m) in
                            if pkt_err (P.am_packet pm) then Err else P.ack_keeper PP env d pm;
       lo_set_status := fun d m =>
         let '(pm, (cb1, _, _)) := am_rest AK m in
         let p := pkt_of (P.am_packet pm) in
         match am_ack AK m with
         | Some a => P.call_packet PP d (P.EvAckStatus (P.p_dst p) (P.p_seq p) (if (ack_code a =? 0)%N then 1%N else 2%N)) cb1
         | None => Err
         end;
       lo_pay := fun d m payee =>
         let '(pm, (_, cb2, _)) := am_rest AK m in
         let p := pkt_of (P.am_packet pm) in
         match P.bech32_decode PP payee with
         | Some addr => P.call_packet PP d (P.EvFee (P.p_dst p) (P.p_seq p) addr) cb2
         | None => Err
         end;
       lo_on_ack := fun d m =>
         let '(pm, (_, _, cb3)) := am_rest AK m in
         match am_ack AK m with
         | Some a => P.call_packet PP d (P.EvOnAck (pkt_of (P.am_packet pm)) (ack_conv a)) cb3
         | None => Err
         end |}.

  Definition bech_ok (r : bytes) : bool := match P.bech32_decode PP r with Some _ => true | None => false end.

  (** the authorization model's view of a packet-core message *)
  Definition recv_view (pm : P.recv_msg) (cb : P.cbres) : recv_msg PK :=
    let p := pkt_of (P.rm_packet pm) in
    {| rm_signer := P.rm_signer pm; rm_src := P.p_src p; rm_dst := P.p_dst p; rm_seq := P.p_seq p;
       rm_fee := P.p_fee p; rm_rest := (pm, cb) |}.

  Definition ack_view (pm : P.ack_msg) (cbs : P.cbres * P.cbres * P.cbres) : ack_msg AK :=
    let p := pkt_of (P.am_packet pm) in
    {| am_signer := P.am_signer pm; am_src := P.p_src p; am_dst := P.p_dst p; am_seq := P.p_seq p;
       am_ack := option_map ack_back (P.decode_ack PP (P.am_ack pm)); am_rest := (pm, cbs) |}.

  (** the registry of the authorization model is the packet-core model's relayer table *)
  Definition related (s : state P.cstate) : Prop := P.st_relayers (low P.cstate s) = rdump_of (reg P.cstate s).

  (** ** the relayer look-ups agree *)
  Lemma aget_rdump r a : aget a (rdump_of r) = option_map (fun x => (r_chains x, r_addrs x)) (reg_get r a).
  Proof.
    induction r as [|[k x] r IH]; cbn; [reflexivity|]. rewrite bytes_eqb_sym.
    destruct (bytes_eqb k a); [reflexivity | exact IH].
  Qed.

  Lemma find_chain_addr_at c cs ads : P.find_chain c cs ads = addr_at cs ads c.
  Proof.
    revert ads; induction cs as [|ch cs IH]; intro ads; cbn; [reflexivity|].
    destruct (bytes_eqb ch c); [reflexivity | apply IH].
  Qed.

  Lemma other_chain_agree d r c a :
    P.st_relayers d = rdump_of r -> P.relayer_on_other_chain d c a = other_chain_addr r c a.
  Proof.
    intro H. unfold P.relayer_on_other_chain, other_chain_addr. rewrite H, aget_rdump.
    destruct (reg_get r a) as [x|]; cbn; [apply find_chain_addr_at | reflexivity].
  Qed.

  Lemma find_fold_rev_match c a cs ads :
    P.find_fold PP c a cs ads = rev_match (P.equal_fold PP) cs ads c a.
  Proof.
    revert ads; induction cs as [|ch cs IH]; intro ads; cbn; [reflexivity|].
    destruct (bytes_eqb ch c); [|apply IH].
    destruct ads as [|x ads]; [reflexivity|]. destruct (P.equal_fold PP x a); [reflexivity | apply IH].
  Qed.

  Lemma teleport_agree r c a :
    P.relayer_on_teleport_in PP (rdump_of r) c a = teleport_addr (P.equal_fold PP) r c a.
  Proof.
    induction r as [|[k x] r IH]; cbn; [reflexivity|].
    rewrite find_fold_rev_match.
    destruct (rev_match (P.equal_fold PP) (r_chains x) (r_addrs x) c a) as [[|]| |]; cbn; try reflexivity. exact IH.
  Qed.

  (** ** frame lemmas of the packet-core functions: clients, chain name and relayer table are not
      touched by the keeper functions, the callback and the acknowledgement write *)
  Definition same_ctl (a b : P.cstate) : Prop :=
    P.st_clients a = P.st_clients b /\ P.st_name a = P.st_name b /\ P.st_relayers a = P.st_relayers b.

  Lemma same_ctl_refl a : same_ctl a a.
  Proof. repeat split. Qed.

  Lemma same_ctl_trans a b c : same_ctl a b -> same_ctl b c -> same_ctl a c.
  Proof. intros [A1 [A2 A3]] [B1 [B2 B3]]. repeat split; congruence. Qed.

  Lemma recv_keeper_frame d pm d1 : P.recv_keeper PP env d pm = Ok d1 -> same_ctl d d1.
  Proof.
    unfold P.recv_keeper. destruct (P.decode PP (P.rm_packet pm)) as [p err].
    destruct (err && (P.p_seq p =? 0)%N); [discriminate|].
    destruct (negb (P.validate_packet d p)); [discriminate|].
    destruct (P.sget _ d); [discriminate|].
    destruct (aget (P.p_src p) (P.st_clients d)) as [ct|]; [|discriminate].
    destruct (P.abi_pack PP p) as [bz|]; [|discriminate].
    destruct (negb (P.client_verify PP env _ _ _ _ _ _ _ _ _)); [discriminate|].
    cbn. destruct (aget (P.p_dst p) (P.st_clients d)); [destruct (negb (bytes_eqb (P.p_dst p) (P.st_name d)))|];
      intro H; inversion H; subst; repeat split.
  Qed.

  Lemma send_packet_frame d p b d' : P.send_packet PP d p b = Ok d' -> same_ctl d d'.
  Proof.
    unfold P.send_packet.
    destruct (negb (P.validate_basic p)); [discriminate|].
    destruct (negb (bytes_eqb (P.p_src p) (P.st_name d))); [discriminate|].
    destruct (aget (P.p_dst p) (P.st_clients d)); [|discriminate].
    destruct (P.next_seq PP d (P.p_src p) (P.p_dst p)) as [n| |]; cbn; try discriminate.
    destruct (negb (P.p_seq p =? n)%N); [discriminate|].
    destruct (P.abi_pack PP p); [|discriminate].
    destruct (negb b); [discriminate|]. intro H; inversion H; subst; repeat split.
  Qed.

  Lemma hook_sends_frame l d d' : P.hook_sends PP d l = Ok d' -> same_ctl d d'.
  Proof.
    revert d; induction l as [|[p b] l IH]; intro d; cbn.
    - intro H; inversion H; subst. apply same_ctl_refl.
    - destruct (P.send_packet PP d p b) as [d1| |] eqn:E; cbn; try discriminate.
      intro H. eapply same_ctl_trans; [eapply send_packet_frame; exact E | apply IH; exact H].
  Qed.

  Lemma call_packet_frame d e cb d' : P.call_packet PP d e cb = Ok d' -> same_ctl d d'.
  Proof.
    unfold P.call_packet. destruct (P.cb_fail cb); [discriminate|]. intro H.
    apply hook_sends_frame in H. destruct H as [A [B C]]. repeat split; assumption.
  Qed.

  Lemma write_ack_frame d p bz d' : P.write_ack PP d p bz = Ok d' -> same_ctl d d'.
  Proof.
    unfold P.write_ack. destruct (P.is_nil bz); [discriminate|].
    destruct (P.sget _ d); [discriminate|].
    destruct (aget (P.p_src p) (P.st_clients d)); [|discriminate].
    destruct (P.abi_pack PP p); [|discriminate]. intro H; inversion H; subst; repeat split.
  Qed.

  Lemma ack_keeper_frame d pm d1 : P.ack_keeper PP env d pm = Ok d1 -> same_ctl d d1.
  Proof.
    unfold P.ack_keeper. destruct (P.decode PP (P.am_packet pm)) as [p err].
    destruct err; [discriminate|].
    destruct (negb (P.validate_packet d p)); [discriminate|].
    destruct (P.abi_pack PP p) as [bz|]; [|discriminate].
    destruct (negb (bytes_eqb _ (P.sha256 PP bz))); [discriminate|].
    destruct (aget (P.p_dst p) (P.st_clients d)) as [ct|]; [|discriminate].
    destruct (negb (P.client_verify PP env _ _ _ _ _ _ _ _ _)); [discriminate|].
    cbn. destruct (negb (bytes_eqb (P.p_src p) (P.st_name d))).
    - destruct (aget (P.p_src p) (P.st_clients d)); [|discriminate]. intro H; inversion H; subst; repeat split.
    - intro H; inversion H; subst; repeat split.
  Qed.

  (** ** a TSS client and another signer: the packet-core keeper functions reject *)
  Lemma recv_keeper_tss_rejects d pm ct :
    let p := pkt_of (P.rm_packet pm) in
    aget (P.p_src p) (P.st_clients d) = Some ct -> P.is_tss ct = true ->
    bytes_eqb (P.rm_signer pm) (tss_addr (P.p_src p)) = false ->
    P.recv_keeper PP env d pm = Err.
  Proof.
    unfold pkt_of, P.recv_keeper. destruct (P.decode PP (P.rm_packet pm)) as [p err]. cbn [fst].
    intros Hc Ht Hs.
    destruct (err && (P.p_seq p =? 0)%N); [reflexivity|].
    destruct (negb (P.validate_packet d p)); [reflexivity|].
    destruct (P.sget _ d); [reflexivity|].
    rewrite Hc. destruct (P.abi_pack PP p) as [bz|]; [|reflexivity].
    rewrite Ht. rewrite (tss_verify _ _ _ _ _ _ _ _ _ Ht), Hs. reflexivity.
  Qed.

  Lemma ack_keeper_tss_rejects d pm ct :
    let p := pkt_of (P.am_packet pm) in
    aget (P.p_dst p) (P.st_clients d) = Some ct -> P.is_tss ct = true ->
    bytes_eqb (P.am_signer pm) (tss_addr (P.p_dst p)) = false ->
    P.ack_keeper PP env d pm = Err.
  Proof.
    unfold pkt_of, P.ack_keeper. destruct (P.decode PP (P.am_packet pm)) as [p err]. cbn [fst].
    intros Hc Ht Hs.
    destruct err; [reflexivity|].
    destruct (negb (P.validate_packet d p)); [reflexivity|].
    destruct (P.abi_pack PP p) as [bz|]; [|reflexivity].
    destruct (negb (bytes_eqb _ (P.sha256 PP bz))); [reflexivity|].
    rewrite Hc, Ht. rewrite (tss_verify _ _ _ _ _ _ _ _ _ Ht), Hs. reflexivity.
  Qed.

  (** the keeper functions never panic *)
  Lemma recv_keeper_no_panic d pm : P.recv_keeper PP env d pm <> Panic.
  Proof.
    unfold P.recv_keeper. destruct (P.decode PP (P.rm_packet pm)) as [p err].
    destruct (err && (P.p_seq p =? 0)%N); [discriminate|].
    destruct (negb (P.validate_packet d p)); [discriminate|].
    destruct (P.sget _ d); [discriminate|].
    destruct (aget (P.p_src p) (P.st_clients d)) as [ct|]; [|discriminate].
    destruct (P.abi_pack PP p) as [bz|]; [|discriminate].
    destruct (negb (P.client_verify PP env _ _ _ _ _ _ _ _ _)); [discriminate|].
    cbn. destruct (aget (P.p_dst p) (P.st_clients d)); [destruct (negb (bytes_eqb (P.p_dst p) (P.st_name d)))|]; discriminate.
  Qed.

  Lemma ack_keeper_no_panic d pm : P.ack_keeper PP env d pm <> Panic.
  Proof.
    unfold P.ack_keeper. destruct (P.decode PP (P.am_packet pm)) as [p err].
    destruct err; [discriminate|].
    destruct (negb (P.validate_packet d p)); [discriminate|].
    destruct (P.abi_pack PP p) as [bz|]; [|discriminate].
    destruct (negb (bytes_eqb _ (P.sha256 PP bz))); [discriminate|].
    destruct (aget (P.p_dst p) (P.st_clients d)) as [ct|]; [|discriminate].
    destruct (negb (P.client_verify PP env _ _ _ _ _ _ _ _ _)); [discriminate|].
    cbn. destruct (negb (bytes_eqb (P.p_src p) (P.st_name d))); [|discriminate].
    destruct (aget (P.p_src p) (P.st_clients d)); discriminate.
  Qed.

  (** outcomes agree: same class, and for Ok the authorization model's new lower state IS the
      packet-core model's new state, registry and relation preserved *)
  Definition agree (a : outcome (state P.cstate)) (b : outcome P.cstate) (s : state P.cstate) : Prop :=
    match a, b with
    | Ok s', Ok c' => low P.cstate s' = c' /\ reg P.cstate s' = reg P.cstate s /\ related s'
    | Err, Err => True
    | Panic, Panic => True
    | _, _ => False
    end.

  Lemma ack_conv_mk code r mg rel fee : ack_conv (mk_ack code r mg rel fee) = P.mkAck code r mg rel fee.
  Proof. reflexivity. Qed.

  Lemma write_ack_agree s d m a p :
    related s -> same_ctl (low P.cstate s) d -> pkt_of (P.rm_packet (fst (rm_rest PK m))) = p ->
    agree (write_ack P.cstate unit PK AK plow s d m a)
          (match P.pack_ack PP (ack_conv a) with
           | None => Err
           | Some bz => P.write_ack PP d p bz
           end) s.
  Proof.
    intros R [_ [_ F]] <-. unfold write_ack. cbn [lo_write_ack plow].
    destruct (P.pack_ack PP (ack_conv a)) as [bz|]; cbn; [|exact I].
    destruct (P.write_ack PP d _ bz) as [d'| |] eqn:E; cbn; try exact I.
    split; [reflexivity|]. split; [reflexivity|]. unfold related. cbn [low reg].
    apply write_ack_frame in E as [_ [_ E]]. rewrite <- E, <- F. exact R.
  Qed.

  (** * RecvPacket of the packet-core model refines the authorization model's *)
  Lemma recv_common s pm cb :
    related s ->
    tss_signer_ok P.cstate unit PK AK plow (low P.cstate s) (rm_src PK (recv_view pm cb)) (rm_signer PK (recv_view pm cb)) = true ->
    agree (handle_recv P.cstate unit PK AK plow s (recv_view pm cb))
          (P.recv_handler PP env (low P.cstate s) pm cb) s.
  Proof.
    intros R T. unfold handle_recv, packet_recv. rewrite T. clear T.
    unfold P.recv_handler.
    cbn [rm_src rm_signer rm_dst rm_fee rm_seq rm_rest recv_view client_of self_chain lo_recv lo_callback plow fst].
    set (d := low P.cstate s) in *.
    unfold pkt_err, pkt_of.
    assert (Ep : forall p err, P.decode PP (P.rm_packet pm) = (p, err) -> pkt_of (P.rm_packet (fst (rm_rest PK (recv_view pm cb)))) = p).
    { intros p err E. cbn. unfold pkt_of. rewrite E. reflexivity. }
    destruct (P.decode PP (P.rm_packet pm)) as [p err] eqn:Ed. cbn [fst snd].
    specialize (Ep p err eq_refl).
    destruct err.
    { cbn. destruct (P.recv_keeper PP env d pm) as [d1| |] eqn:Ek; cbn; try exact I.
      exfalso; eapply recv_keeper_no_panic; exact Ek. }
    destruct (P.recv_keeper PP env d pm) as [d1| |] eqn:Ek; cbn [obind]; try exact I.
    pose proof (recv_keeper_frame _ _ _ Ek) as F1. destruct (F1) as [Fc [Fn Fr]].
    rewrite (other_chain_agree d1 (reg P.cstate s)) by (rewrite <- Fr; exact R).
    destruct (other_chain_addr (reg P.cstate s) (P.p_src p) (P.rm_signer pm)) as [[relayer|]| |]; cbn [obind]; try exact I.
    destruct (bytes_eqb (P.p_dst p) (P.st_name d1)).
    - destruct (P.call_packet PP d1 (P.EvOnRecv p) cb) as [s2| |] eqn:Ecb.
      + destruct (P.cb_ret cb) as [[[code r] mg]|]; [|exact I].
        rewrite <- ack_conv_mk. apply (write_ack_agree s _ (recv_view pm cb)); [exact R| |exact Ep].
        destruct (code =? 0)%N; [|exact F1].
        eapply same_ctl_trans; [exact F1 | eapply call_packet_frame; exact Ecb].
      + rewrite <- ack_conv_mk. apply (write_ack_agree s _ (recv_view pm cb)); [exact R | exact F1 | exact Ep].
      + exact I.
    - destruct (aget (P.p_dst p) (P.st_clients d1)).
      + cbn. split; [reflexivity|]. split; [reflexivity|]. unfold related; cbn [low reg set_low]. rewrite <- Fr. exact R.
      + rewrite <- ack_conv_mk. apply (write_ack_agree s _ (recv_view pm cb)); [exact R | exact F1 | exact Ep].
  Qed.

  Lemma recv_tss_reject s pm cb :
    tss_signer_ok P.cstate unit PK AK plow (low P.cstate s) (rm_src PK (recv_view pm cb)) (rm_signer PK (recv_view pm cb)) = false ->
    P.recv_handler PP env (low P.cstate s) pm cb = Err.
  Proof.
    unfold tss_signer_ok. cbn [rm_src rm_signer recv_view client_of plow].
    destruct (aget (P.p_src (pkt_of (P.rm_packet pm))) (P.st_clients (low P.cstate s))) as [ct|] eqn:Ec; [|discriminate].
    destruct (P.is_tss ct) eqn:Et; [|discriminate]. intro Hs.
    unfold P.recv_handler. rewrite (recv_keeper_tss_rejects _ _ _ Ec Et Hs). reflexivity.
  Qed.

  Theorem recv_refines s pm cb :
    related s ->
    agree (handle_recv P.cstate unit PK AK plow s (recv_view pm cb))
          (P.recv_handler PP env (low P.cstate s) pm cb) s.
  Proof.
    intro R.
    destruct (tss_signer_ok P.cstate unit PK AK plow (low P.cstate s) (rm_src PK (recv_view pm cb)) (rm_signer PK (recv_view pm cb))) eqn:T.
    - apply recv_common; assumption.
    - rewrite (recv_tss_reject _ _ _ T). unfold handle_recv, packet_recv. rewrite T. exact I.
  Qed.

  (** * Acknowledgement of the packet-core model refines the authorization model's *)
  Lemma ack_tss_reject s pm cbs :
    tss_signer_ok P.cstate unit PK AK plow (low P.cstate s) (am_dst AK (ack_view pm cbs)) (am_signer AK (ack_view pm cbs)) = false ->
    P.ack_handler PP env (low P.cstate s) pm (fst (fst cbs)) (snd (fst cbs)) (snd cbs) = Err.
  Proof.
    unfold tss_signer_ok. cbn [am_dst am_signer ack_view client_of plow].
    destruct (aget (P.p_dst (pkt_of (P.am_packet pm))) (P.st_clients (low P.cstate s))) as [ct|] eqn:Ec; [|discriminate].
    destruct (P.is_tss ct) eqn:Et; [|discriminate]. intro Hs.
    unfold P.ack_handler. rewrite (ack_keeper_tss_rejects _ _ _ Ec Et Hs). reflexivity.
  Qed.

  Lemma ack_back_zero a : ack_is_zero (ack_back a) = P.ack_empty a.
  Proof.
    unfold ack_is_zero, P.ack_empty, ack_back; cbn.
    assert (Z : forall b, bytes_eqb b [] = P.is_nil b) by (intros [|x b]; reflexivity).
    rewrite !Z. reflexivity.
  Qed.

  Lemma ack_conv_back a : ack_conv (ack_back a) = a.
  Proof. destruct a; reflexivity. Qed.

  Lemma ack_common s pm cb1 cb2 cb3 :
    related s ->
    tss_signer_ok P.cstate unit PK AK plow (low P.cstate s) (am_dst AK (ack_view pm (cb1, cb2, cb3)))
                  (am_signer AK (ack_view pm (cb1, cb2, cb3))) = true ->
    agree (handle_ack P.cstate unit PK AK (P.equal_fold PP) bech_ok plow s (ack_view pm (cb1, cb2, cb3)))
          (P.ack_handler PP env (low P.cstate s) pm cb1 cb2 cb3) s.
  Proof.
    intros R T. unfold handle_ack, packet_ack. rewrite T. clear T.
    unfold P.ack_handler.
    cbn [am_src am_signer am_dst am_seq am_ack am_rest ack_view self_chain lo_ack lo_set_status lo_pay lo_on_ack plow fst snd].
    set (d := low P.cstate s) in *.
    unfold pkt_err, pkt_of.
    destruct (P.decode PP (P.am_packet pm)) as [p err] eqn:Ed. cbn [fst snd].
    destruct err.
    { cbn. destruct (P.ack_keeper PP env d pm) as [d1| |] eqn:Ek; cbn; try exact I.
      exfalso; eapply ack_keeper_no_panic; exact Ek. }
    destruct (P.ack_keeper PP env d pm) as [d1| |] eqn:Ek; cbn [obind]; try exact I.
    pose proof (ack_keeper_frame _ _ _ Ek) as F1. destruct (F1) as [Fc [Fn Fr]].
    destruct (P.decode_ack PP (P.am_ack pm)) as [a|]; cbn [option_map]; [|exact I].
    rewrite ack_back_zero. destruct (P.ack_empty a); [exact I|].
    destruct (bytes_eqb (P.p_src p) (P.st_name d1)).
    2: { cbn. split; [reflexivity|]. split; [reflexivity|]. unfold related; cbn [low reg set_low]. rewrite <- Fr. exact R. }
    change (ack_code (ack_back a)) with (P.a_code a).
    destruct (P.call_packet PP d1 _ cb1) as [s2| |] eqn:E1; cbn [obind]; try exact I.
    pose proof (call_packet_frame _ _ _ _ E1) as F2.
    unfold P.relayer_on_teleport.
    replace (P.st_relayers s2) with (rdump_of (reg P.cstate s)).
    2: { destruct F2 as [_ [_ F2]]. rewrite <- F2, <- Fr. symmetry; exact R. }
    rewrite teleport_agree. change (ack_relayer (ack_back a)) with (P.a_relayer a).
    destruct (teleport_addr (P.equal_fold PP) (reg P.cstate s) (P.p_dst p) (P.a_relayer a)) as [[payee|]| |]; cbn [obind]; try exact I.
    unfold bech_ok. destruct (P.bech32_decode PP payee) as [addr|]; cbn [negb]; [|exact I].
    destruct (P.call_packet PP s2 _ cb2) as [s3| |] eqn:E2; cbn [obind]; try exact I.
    pose proof (call_packet_frame _ _ _ _ E2) as F3.
    rewrite ack_conv_back.
    destruct (P.call_packet PP s3 _ cb3) as [s4| |] eqn:E3; cbn [obind]; try exact I.
    pose proof (call_packet_frame _ _ _ _ E3) as F4.
    cbn. split; [reflexivity|]. split; [reflexivity|]. unfold related; cbn [low reg set_low].
    destruct F2 as [_ [_ F2]], F3 as [_ [_ F3]], F4 as [_ [_ F4]]. rewrite <- F4, <- F3, <- F2, <- Fr. exact R.
  Qed.

  Theorem ack_refines s pm cb1 cb2 cb3 :
    related s ->
    agree (handle_ack P.cstate unit PK AK (P.equal_fold PP) bech_ok plow s (ack_view pm (cb1, cb2, cb3)))
          (P.ack_handler PP env (low P.cstate s) pm cb1 cb2 cb3) s.
  Proof.
    intro R.
    destruct (tss_signer_ok P.cstate unit PK AK plow (low P.cstate s) (am_dst AK (ack_view pm (cb1, cb2, cb3)))
                            (am_signer AK (ack_view pm (cb1, cb2, cb3)))) eqn:T.
    - apply ack_common; assumption.
    - pose proof (ack_tss_reject s pm (cb1, cb2, cb3) T) as X. cbn [fst snd] in X. rewrite X.
      unfold handle_ack, packet_ack. rewrite T. exact I.
  Qed.

  (** * What follows for the packet-core model itself *)
  Lemma rdump_reg_of (rs : rdump) : rdump_of (reg_of rs) = rs.
  Proof. induction rs as [|[k [cs ads]] rs IH]; cbn; [reflexivity | f_equal; exact IH]. Qed.

  (** any packet-core state, seen as a state of the authorization model *)
  Definition lift (c : P.cstate) : state P.cstate := {| reg := reg_of (P.st_relayers c); low := c; wlog := [] |}.

  Lemma lift_related c : related (lift c).
  Proof. unfold related, lift; cbn. symmetry; apply rdump_reg_of. Qed.

  Lemma reg_get_reg_of rs a : reg_get (reg_of rs) a = option_map (fun ca => {| r_chains := fst ca; r_addrs := snd ca |}) (aget a rs).
  Proof.
    induction rs as [|[k [cs ads]] rs IH]; cbn; [reflexivity|]. rewrite bytes_eqb_sym.
    destruct (bytes_eqb a k); [reflexivity | exact IH].
  Qed.

  (** An accepted RecvPacket of the packet-core model: the signer's record in the relayer table lists the
      packet's source chain; for a TSS source the signer is the TSS address; the relayer table is unchanged; and
      the resulting state is either the keeper's (packet relayed onwards) or the result of WriteAcknowledgement
      of the packed acknowledgement (code, result, message, RELAYER, packet fee option) where RELAYER is
      Addresses[i], i the first index with Chains[i] = source, of the signer's record. *)
  Theorem packet_core_recv_sound c pm cb c' :
    P.recv_handler PP env c pm cb = Ok c' ->
    let p := pkt_of (P.rm_packet pm) in
    exists chains addrs i relayer,
      aget (P.rm_signer pm) (P.st_relayers c) = Some (chains, addrs) /\
      first_index chains (P.p_src p) = Some i /\ nth_error addrs i = Some relayer /\
      (forall ct, aget (P.p_src p) (P.st_clients c) = Some ct -> P.is_tss ct = true -> P.rm_signer pm = tss_addr (P.p_src p)) /\
      P.st_relayers c' = P.st_relayers c /\
      (P.recv_keeper PP env c pm = Ok c' \/
       exists d code res mg bz,
         P.pack_ack PP (P.mkAck code res mg relayer (P.p_fee p)) = Some bz /\ P.write_ack PP d p bz = Ok c').
  Proof.
    intros H p.
    pose proof (recv_refines (lift c) pm cb (lift_related c)) as A. cbn [low lift] in A. rewrite H in A.
    destruct (handle_recv P.cstate unit PK AK plow (lift c) (recv_view pm cb)) as [s'| |] eqn:E; cbn in A; try contradiction.
    destruct A as [A1 [A2 A3]].
    apply (handle_recv_exact P.cstate unit PK AK plow) in E as [d1 [relayer [Ht [El [Ho Hb]]]]].
    cbn [rm_src rm_signer recv_view reg low lift] in Ht, Ho. fold p in Ht, Ho.
    apply other_chain_addr_some in Ho as [x [i [E1 [E2 E3]]]].
    rewrite reg_get_reg_of in E1.
    destruct (aget (P.rm_signer pm) (P.st_relayers c)) as [[chains addrs]|] eqn:Eg; cbn in E1; [|discriminate].
    inversion E1; subst x; cbn in E2, E3. clear E1.
    exists chains, addrs, i, relayer. repeat (split; [assumption || reflexivity|]).
    split.
    { intros ct Hc Hts. unfold tss_signer_ok in Ht. cbn [client_of plow] in Ht. rewrite Hc, Hts in Ht.
      apply bytes_eqb_eq in Ht. exact Ht. }
    split.
    { unfold related in A3. rewrite A1 in A3. rewrite A3, A2. cbn [reg lift]. apply rdump_reg_of. }
    assert (Ek : P.recv_keeper PP env c pm = Ok d1).
    { cbn [lo_recv plow rm_rest recv_view fst] in El. destruct (pkt_err (P.rm_packet pm)); [discriminate | exact El]. }
    assert (W : forall d a, lo_write_ack P.cstate unit PK AK plow d (recv_view pm cb) a = Ok c' ->
                exists bz, P.pack_ack PP (ack_conv a) = Some bz /\ P.write_ack PP d p bz = Ok c').
    { intros d a. cbn [lo_write_ack plow rm_rest recv_view fst]. fold p.
      destruct (P.pack_ack PP (ack_conv a)) as [bz|]; [|discriminate]. intro X. exists bz. split; [reflexivity | exact X]. }
    destruct Hb as [[_ [d2 [d3 [_ [Hw Es]]]]] | [[_ [d2 [code [res [mg [d3 [_ [Hw Es]]]]]]]] |
                    [[_ [_ [d3 [Hw Es]]]] | [_ [_ Es]]]]]; subst s'; cbn [low acked set_low] in A1; subst.
    - right. apply W in Hw as [bz [B1 B2]]. rewrite ack_conv_mk in B1. eauto 10.
    - right. apply W in Hw as [bz [B1 B2]]. rewrite ack_conv_mk in B1. eauto 10.
    - right. apply W in Hw as [bz [B1 B2]]. rewrite ack_conv_mk in B1. eauto 10.
    - left. exact Ek.
  Qed.
End Refine.
