(** The aggregate part of the genesis round trip (C13): for every well-formed
    aggregate store (token pairs under their id, both indexes containing
    exactly what the pairs demand) [export_agg] returns the pairs and
    [import_agg] rebuilds the store key by key — any number of pairs, any number
    of denominations per pair, disabled pairs, any owner. *)
From Teleport Require Import Base.Bytes Base.Outcome Base.AList Base.Fmt Gen.KeysGen Model.Keys Model.Genesis.
From Teleport Require Import Proofs.GenesisStore Proofs.GenesisXibc.

Section Agg.
  Variable tp_unmarshal : bytes -> option token_pair.
  Variable tp_marshal : token_pair -> bytes.
  Variable sha256 : bytes -> bytes.
  Variable hex_to_address : bytes -> bytes.

  Notation wf_agg := (wf_agg tp_unmarshal tp_marshal sha256 hex_to_address).
  Notation wf_agg_entry := (wf_agg_entry tp_unmarshal tp_marshal sha256 hex_to_address).
  Notation agg_pairs := (agg_pairs tp_unmarshal).
  Notation id_or_nil := (id_or_nil sha256).
  Notation pair_id := (pair_id sha256).
  Notation pair_writes := (pair_writes tp_marshal hex_to_address).
  Notation import_agg := (import_agg tp_marshal sha256 hex_to_address).
  Notation import_agg_from := (import_agg_from tp_marshal sha256 hex_to_address).
  Notation export_agg := (export_agg tp_unmarshal).

  Lemma prefix_x01 k : is_prefix aggregate_KeyPrefixTokenPair k = true <-> exists id, k = x01 :: id.
  Proof.
    change aggregate_KeyPrefixTokenPair with [x01]. destruct k as [|c k]; cbn [is_prefix].
    - split; [discriminate | intros [id H]; discriminate].
    - rewrite andb_true_r. split.
      + intro H. apply byte_eqb_eq in H. subst c. exists k. reflexivity.
      + intros [id H]. inversion H; subst. reflexivity.
  Qed.

  Lemma pair_id_ok p : tp_denoms p <> [] -> pair_id p = Ok (id_or_nil p).
  Proof. unfold Genesis.id_or_nil, Genesis.pair_id. destruct (tp_denoms p); [congruence | reflexivity]. Qed.

  Lemma import_agg_from_ok ps s0 :
    (forall p, In p ps -> tp_denoms p <> []) ->
    import_agg_from ps s0 = Ok (apply_writes (flat_map (fun p => pair_writes p (id_or_nil p)) ps) s0).
  Proof.
    revert s0. induction ps as [|p ps IH]; intros s0 H; [reflexivity|].
    cbn [Genesis.import_agg_from flat_map]. rewrite (pair_id_ok p) by (apply H; left; reflexivity). cbn [obind].
    rewrite IH by (intros q Hq; apply H; right; exact Hq). rewrite apply_writes_app. reflexivity.
  Qed.

  Section WithStore.
    Variable s : store.
    Hypothesis WF : wf_agg s = true.

    Lemma agg_sorted : sorted s = true.
    Proof. unfold Genesis.wf_agg in WF. apply andb_true_iff in WF as [W _]. apply andb_true_iff in W as [W _]. exact W. Qed.

    Lemma agg_entry kv : In kv s -> wf_agg_entry s kv = true.
    Proof.
      unfold Genesis.wf_agg in WF. apply andb_true_iff in WF as [W _]. apply andb_true_iff in W as [_ W].
      rewrite forallb_forall in W. apply W.
    Qed.

    Lemma agg_complete p : In p (agg_pairs s) -> agg_index_complete sha256 hex_to_address s p = true.
    Proof. unfold Genesis.wf_agg in WF. apply andb_true_iff in WF as [_ W]. rewrite forallb_forall in W. apply W. Qed.

    (** a pair of the export comes from an entry stored under its id, with its canonical encoding *)
    Lemma in_agg_pairs p :
      In p (agg_pairs s) <->
      exists v, In (x01 :: id_or_nil p, v) s /\ tp_unmarshal v = Some p /\ tp_marshal p = v /\ tp_denoms p <> [].
    Proof.
      unfold Genesis.agg_pairs. rewrite in_flat_map. split.
      - intros [[k v] [I H]]. apply in_prefix_iter in I as [I P]. cbn [fst snd] in *.
        apply prefix_x01 in P as [id ->]. pose proof (agg_entry _ I) as W. cbn in W.
        destruct (tp_unmarshal v) as [q|] eqn:U; [|destruct H]. destruct H as [H|[]]. subst q.
        apply andb_true_iff in W as [W W3]. apply andb_true_iff in W as [W1 W2].
        apply bytes_eqb_eq in W2, W3. subst id. exists v. refine (conj I (conj U (conj W3 _))).
        intro E. rewrite E in W1. discriminate.
      - intros [v [I [U _]]]. exists (x01 :: id_or_nil p, v). split.
        + apply in_prefix_iter. split; [exact I|]. apply prefix_x01. eexists; reflexivity.
        + cbn [snd]. rewrite U. left; reflexivity.
    Qed.

    Lemma export_agg_ok : export_agg s = Ok (agg_pairs s).
    Proof.
      unfold Genesis.export_agg, Genesis.agg_pairs. apply ocollect_total.
      intros [k v] I. apply in_prefix_iter in I as [I P]. cbn [fst snd] in *.
      apply prefix_x01 in P as [id ->]. pose proof (agg_entry _ I) as W. cbn in W.
      destruct (tp_unmarshal v); [reflexivity | discriminate].
    Qed.

    Lemma agg_writes_sound kv : In kv (flat_map (fun p => pair_writes p (id_or_nil p)) (agg_pairs s)) -> In kv s.
    Proof.
      rewrite in_flat_map. intros [p [Ip H]]. pose proof (agg_complete _ Ip) as C.
      apply in_agg_pairs in Ip as [v [I [_ [M _]]]].
      unfold Genesis.pair_writes in H. destruct H as [H|H].
      - subst kv. rewrite M. exact I.
      - apply in_app_or in H as [H|[H|[]]].
        + apply in_map_iff in H as [d [E D]]. subst kv. unfold agg_index_complete in C. apply andb_true_iff in C as [_ C].
          rewrite forallb_forall in C. specialize (C d D).
          destruct (aget (aggregate_KeyPrefixTokenPairByDenom ++ d) s) as [w|] eqn:G; [|discriminate].
          apply bytes_eqb_eq in C. subst w. apply aget_some_in. exact G.
        + subst kv. unfold agg_index_complete in C. apply andb_true_iff in C as [C _].
          destruct (aget (aggregate_KeyPrefixTokenPairByERC20 ++ hex_to_address (tp_erc20 p)) s) as [w|] eqn:G; [|discriminate].
          apply bytes_eqb_eq in C. subst w. apply aget_some_in. exact G.
    Qed.

    Lemma agg_writes_complete kv : In kv s -> In kv (flat_map (fun p => pair_writes p (id_or_nil p)) (agg_pairs s)).
    Proof.
      destruct kv as [k v]. intro I. pose proof (agg_entry _ I) as W. cbn in W. apply in_flat_map.
      destruct k as [|c id]; [discriminate|].
      destruct c; try discriminate.
      - (* x01: a token pair *)
        destruct (tp_unmarshal v) as [p|] eqn:U; [|discriminate].
        apply andb_true_iff in W as [W W3]. apply andb_true_iff in W as [W1 W2]. apply bytes_eqb_eq in W2, W3. subst id.
        exists p. split.
        + apply in_agg_pairs. exists v. refine (conj I (conj U (conj W3 _))). intro E. rewrite E in W1. discriminate.
        + unfold Genesis.pair_writes. left. rewrite W3. reflexivity.
      - (* x02: ERC-20 index *)
        apply existsb_exists in W as [p [Ip W]]. apply andb_true_iff in W as [W1 W2]. apply bytes_eqb_eq in W1, W2. subst id v.
        exists p. split; [exact Ip|]. unfold Genesis.pair_writes. right. apply in_or_app. right. left. reflexivity.
      - (* x03: denomination index *)
        apply existsb_exists in W as [p [Ip W]]. apply andb_true_iff in W as [W1 W2]. apply bytes_eqb_eq in W2. subst v.
        unfold bmem in W1. apply existsb_exists in W1 as [d [D E]]. apply bytes_eqb_eq in E. subst d.
        exists p. split; [exact Ip|]. unfold Genesis.pair_writes. right. apply in_or_app. left.
        apply in_map_iff. exists id. auto.
    Qed.

    Theorem agg_round_trip : exists ps, export_agg s = Ok ps /\ import_agg ps = Ok s.
    Proof.
      exists (agg_pairs s). split; [exact export_agg_ok|].
      unfold Genesis.import_agg. rewrite import_agg_from_ok.
      - f_equal. apply apply_writes_exact; [exact agg_sorted | exact agg_writes_sound | exact agg_writes_complete].
      - intros p Ip. apply in_agg_pairs in Ip as [v [_ [_ [_ D]]]]. exact D.
    Qed.
  End WithStore.
End Agg.
