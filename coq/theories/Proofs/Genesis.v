(** C13: the three modules together — export then import is the identity on
    every well-formed module state, the export is a fixed point of
    import-then-export, and the hypothesis "well-formed" covers the values the
    keepers write (codec round trip). *)
From Teleport Require Import Base.Bytes Base.Outcome Base.AList Base.Fmt Gen.KeysGen Model.Keys Model.Genesis.
From Teleport Require Import Proofs.Keys Proofs.KeysParse Proofs.GenesisStore Proofs.GenesisKeys Proofs.GenesisXibc Proofs.GenesisAgg Proofs.GenesisValid.
From Teleport Require Model.Rvesting.

Section All.
  Variables CS CONS : Type.
  Variable cs_unmarshal : bytes -> option CS.
  Variable cs_marshal : CS -> bytes.
  Variable cs_type : CS -> ctype.
  Variable cons_unmarshal : bytes -> option CONS.
  Variable cons_marshal : CONS -> bytes.
  Variable rel_unmarshal : bytes -> option relayer.
  Variable rel_marshal : relayer -> bytes.
  Variable tp_unmarshal : bytes -> option token_pair.
  Variable tp_marshal : token_pair -> bytes.
  Variable sha256 : bytes -> bytes.
  Variable hex_to_address : bytes -> bytes.

  Notation wf_state := (wf_state CS CONS cs_unmarshal cs_marshal cs_type cons_unmarshal cons_marshal rel_unmarshal rel_marshal
                                  tp_unmarshal tp_marshal sha256 hex_to_address).
  Notation export := (export CS CONS cs_unmarshal cs_type cons_unmarshal rel_unmarshal tp_unmarshal).
  Notation import := (import CS CONS cs_marshal cons_marshal rel_marshal tp_marshal sha256 hex_to_address).

  Theorem export_import_id st :
    wf_state st = true -> exists g, export st = Ok g /\ import g = Ok st.
  Proof.
    intro W. unfold Genesis.wf_state in W. apply andb_true_iff in W as [WX WA].
    destruct (xibc_round_trip _ _ _ _ _ _ _ _ _ _ WX) as [[gc gp] [EX IX]].
    destruct (agg_round_trip _ _ _ _ _ WA) as [ps [EA IA]].
    exists {| g_client := gc; g_packet := gp; g_agg_params := st_agg_params st; g_pairs := ps; g_rv_params := st_rv_params st |}.
    split.
    - unfold Genesis.export, export_with. fold (export_xibc CS CONS cs_unmarshal cs_type cons_unmarshal rel_unmarshal).
      rewrite EX. cbn [obind]. rewrite EA. reflexivity.
    - unfold Genesis.import. cbn [g_client g_packet g_pairs g_agg_params g_rv_params]. rewrite IX. cbn [obind]. rewrite IA.
      cbn [obind]. destruct st; reflexivity.
  Qed.

  (** exporting the re-imported state yields the same genesis again *)
  Theorem export_idempotent st g :
    wf_state st = true -> export st = Ok g -> exists st', import g = Ok st' /\ export st' = Ok g.
  Proof.
    intros W E. destruct (export_import_id st W) as [g' [E' I]]. rewrite E in E'. inversion E'; subst g'.
    exists st. auto.
  Qed.

  (** ** The export passes the modules' own genesis validation exactly when the state satisfies [valid_state] *)
  Variable cs_valid : CS -> bool.
  Variable cons_type : CONS -> ctype.
  Variable cons_valid : CONS -> bool.
  Variable acc_addr_ok : bytes -> bool.
  Notation validate := (validate CS CONS cs_type cs_valid cons_type cons_valid acc_addr_ok hex_to_address).
  Notation valid_state := (valid_state CS CONS cs_unmarshal cs_type cs_valid cons_unmarshal cons_type cons_valid rel_unmarshal acc_addr_ok
                                       tp_unmarshal hex_to_address).

  Theorem export_validates_iff st g :
    wf_state st = true -> export st = Ok g -> validate g = valid_state st.
  Proof.
    intros W E. unfold Genesis.wf_state in W. apply andb_true_iff in W as [WX WA].
    unfold Genesis.export, export_with in E. fold (export_xibc CS CONS cs_unmarshal cs_type cons_unmarshal rel_unmarshal) in E.
    destruct (export_xibc CS CONS cs_unmarshal cs_type cons_unmarshal rel_unmarshal (st_xibc st)) as [x| |] eqn:EX; try discriminate.
    cbn [obind] in E. rewrite (export_agg_ok _ _ _ _ _ WA) in E. cbn [obind] in E. inversion E; subst g.
    unfold Genesis.validate, Genesis.valid_state. cbn [g_client g_packet g_pairs g_rv_params].
    replace (fst x, snd x) with x by (destruct x; reflexivity).
    rewrite (export_xibc_validates_iff _ _ _ _ _ cs_valid _ _ cons_type cons_valid _ _ acc_addr_ok _ WX _ EX). reflexivity.
  Qed.

  (** the property's clause: a well-formed state whose entries are valid exports a genesis that passes validation *)
  Theorem export_validates st :
    wf_state st = true -> valid_state st = true -> exists g, export st = Ok g /\ validate g = true.
  Proof.
    intros W V. destruct (export_import_id st W) as [g [E _]]. exists g. split; [exact E|].
    rewrite (export_validates_iff st g W E). exact V.
  Qed.

  (** ** The values the keepers write are canonical (what [wf] asks of a value), given the codec round trip *)
  Hypothesis cs_rt : forall x, cs_unmarshal (cs_marshal x) = Some x.
  Hypothesis cons_rt : forall x, cons_unmarshal (cons_marshal x) = Some x.
  Hypothesis rel_rt : forall x, rel_unmarshal (rel_marshal x) = Some x.
  Hypothesis tp_rt : forall x, tp_unmarshal (tp_marshal x) = Some x.

  Theorem written_values_canonical :
    (forall x, canonical_cs CS cs_unmarshal cs_marshal (cs_marshal x) = true) /\
    (forall x, canonical_cons CONS cons_unmarshal cons_marshal (cons_marshal x) = true) /\
    (forall r, match rel_unmarshal (rel_marshal r) with
               | Some r' => bytes_eqb (relayer_key (r_address r)) (relayer_key (r_address r')) && bytes_eqb (rel_marshal r') (rel_marshal r)
                            && negb (is_nil (r_address r'))
               | None => false end = negb (is_nil (r_address r))) /\
    (forall p, tp_denoms p <> [] ->
               match tp_unmarshal (tp_marshal p) with
               | Some p' => negb (is_nil (tp_denoms p')) && bytes_eqb (id_or_nil sha256 p) (id_or_nil sha256 p') && bytes_eqb (tp_marshal p') (tp_marshal p)
               | None => false end = true).
  Proof.
    refine (conj _ (conj _ (conj _ _))).
    - intro x. unfold canonical_cs. rewrite cs_rt. apply bytes_eqb_refl.
    - intro x. unfold canonical_cons. rewrite cons_rt. apply bytes_eqb_refl.
    - intro r. rewrite rel_rt, !bytes_eqb_refl. reflexivity.
    - intros p D. rewrite tp_rt, !bytes_eqb_refl. destruct (tp_denoms p); [congruence | reflexivity].
  Qed.
End All.
