(** ABI round trip for the six event shapes: the decoder transcribed from go-ethereum reads back
    exactly the fields of an event encoded the way Solidity emits it. *)
From Teleport Require Import Base.Bytes Base.Outcome Model.Adapter.
From Coq Require Import ZifyN ZifyNat.
Local Open Scope N_scope.

(** ** lists *)
Lemma blen_app a b : blen (a ++ b) = blen a + blen b.
Proof. unfold blen. rewrite app_length. lia. Qed.

Lemma blen_nat a : N.to_nat (blen a) = length a.
Proof. unfold blen. lia. Qed.

Lemma skipn_app_exact {A} (a b : list A) : skipn (length a) (a ++ b) = b.
Proof. induction a; cbn; auto. Qed.

Lemma firstn_app_exact {A} (a b : list A) : firstn (length a) (a ++ b) = a.
Proof. induction a; cbn; [destruct b; reflexivity|]. f_equal; auto. Qed.

Lemma slice_mid pre w post : slice (pre ++ w ++ post) (blen pre) (blen w) = w.
Proof. unfold slice. rewrite !blen_nat, skipn_app_exact, firstn_app_exact. reflexivity. Qed.

Lemma slice_mid' pre w post i n : blen pre = i -> blen w = n -> slice (pre ++ w ++ post) i n = w.
Proof. intros <- <-. apply slice_mid. Qed.

Lemma slice_head w post n : blen w = n -> slice (w ++ post) 0 n = w.
Proof. intro H. apply (slice_mid' [] w post 0 n); [reflexivity | exact H]. Qed.

Lemma word_at_mid pre w post i : blen pre = i -> blen w = 32 -> word_at (pre ++ w ++ post) i = Some w.
Proof.
  intros Hp Hw. unfold word_at. rewrite !blen_app, Hp, Hw.
  destruct (i + 32 <=? i + (32 + blen post)) eqn:E; [|apply N.leb_gt in E; lia].
  rewrite (slice_mid' pre w post i 32) by assumption. reflexivity.
Qed.

Lemma zeros_length n : length (zeros n) = n.
Proof. apply repeat_length. Qed.

Lemma blen_zeros n : blen (zeros n) = N.of_nat n.
Proof. unfold blen. rewrite zeros_length. reflexivity. Qed.

(** ** big-endian numbers *)
Lemma be_N_snoc a x : be_N (a ++ [x]) = be_N a * 256 + Byte.to_N x.
Proof. unfold be_N. rewrite fold_left_app. reflexivity. Qed.

Lemma byte_of_N_to_N n : n < 256 -> Byte.to_N (byte_of_N n) = n.
Proof.
  intro H. unfold byte_of_N. destruct (Byte.of_N n) as [b|] eqn:E.
  - apply Byte.to_of_N; exact E.
  - apply Byte.of_N_None_iff in E. lia.
Qed.

Lemma be_bytes_length k : forall n, length (be_bytes k n) = k.
Proof. induction k; intro n; cbn; [reflexivity|]. rewrite app_length, IHk. cbn. lia. Qed.

Lemma be_N_be_bytes k : forall n, be_N (be_bytes k n) = n mod 256 ^ N.of_nat k.
Proof.
  induction k; intro n.
  - cbn. rewrite N.mod_1_r. reflexivity.
  - cbn [be_bytes]. rewrite be_N_snoc, IHk, byte_of_N_to_N by (apply N.mod_lt; lia).
    replace (N.of_nat (S k)) with (N.succ (N.of_nat k)) by lia. rewrite N.pow_succ_r'.
    rewrite (N.mod_mul_r n 256 (256 ^ N.of_nat k)) by (try apply N.pow_nonzero; lia). lia.
Qed.

Lemma be_bytes_split b : forall a n, be_bytes (a + b) n = be_bytes a (n / 256 ^ N.of_nat b) ++ be_bytes b n.
Proof.
  induction b; intros a n.
  - cbn [be_bytes]. rewrite Nat.add_0_r, app_nil_r. cbn. rewrite N.div_1_r. reflexivity.
  - rewrite Nat.add_succ_r. cbn [be_bytes]. rewrite IHb, app_assoc. f_equal. f_equal.
    rewrite N.div_div by (try apply N.pow_nonzero; lia). f_equal.
    replace (N.of_nat (S b)) with (N.succ (N.of_nat b)) by lia. rewrite N.pow_succ_r'. reflexivity.
Qed.

Lemma word_length n : length (word_of_N n) = 32%nat.
Proof. apply be_bytes_length. Qed.

Lemma blen_word n : blen (word_of_N n) = 32.
Proof. unfold blen. rewrite word_length. reflexivity. Qed.

Lemma be_N_word n : n < 2 ^ 256 -> be_N (word_of_N n) = n.
Proof.
  intro H. unfold word_of_N. rewrite be_N_be_bytes. apply N.mod_small.
  replace (256 ^ N.of_nat 32) with (2 ^ 256) by (vm_compute; reflexivity). exact H.
Qed.

Lemma skipn_word k j n : (k + j = 32)%nat -> skipn k (word_of_N n) = be_bytes j n.
Proof.
  intro E. unfold word_of_N. rewrite <- E, be_bytes_split.
  rewrite <- (be_bytes_length k (n / 256 ^ N.of_nat j)) at 1. apply skipn_app_exact.
Qed.

Lemma dec_u64_word n : n < 2 ^ 64 -> dec_u64 (word_of_N n) = n.
Proof.
  intro H. unfold dec_u64. rewrite (skipn_word 24 8) by reflexivity. rewrite be_N_be_bytes.
  apply N.mod_small. replace (256 ^ N.of_nat 8) with (2 ^ 64) by (vm_compute; reflexivity). exact H.
Qed.

Lemma dec_u32_word n : n < 2 ^ 32 -> dec_u32 (word_of_N n) = n.
Proof.
  intro H. unfold dec_u32. rewrite (skipn_word 28 4) by reflexivity. rewrite be_N_be_bytes.
  apply N.mod_small. replace (256 ^ N.of_nat 4) with (2 ^ 32) by (vm_compute; reflexivity). exact H.
Qed.

Lemma dec_u256_word n : n < 2 ^ 256 -> dec_u256 (word_of_N n) = n.
Proof. apply be_N_word. Qed.

Lemma dec_addr_enc a : length a = 20%nat -> dec_addr (enc_addr a) = a.
Proof. intro H. unfold dec_addr, enc_addr. change 12%nat with (length (zeros 12)) at 1. apply skipn_app_exact. Qed.

Lemma blen_enc_addr a : length a = 20%nat -> blen (enc_addr a) = 32.
Proof. intro H. unfold enc_addr. rewrite blen_app, blen_zeros. unfold blen. rewrite H. reflexivity. Qed.

(** ** strings *)
Lemma blen_pad32 s : blen (pad32 s) = padded_len s.
Proof. unfold pad32, padded_len. rewrite blen_app, blen_zeros. lia. Qed.

Lemma blen_enc_string s : blen (enc_string s) = 32 + padded_len s.
Proof. unfold enc_string. rewrite blen_app, blen_word, blen_pad32. reflexivity. Qed.

Lemma size_le_63 t : t < 2 ^ 62 -> (63 <? N.size t) = false.
Proof.
  intro H. apply N.ltb_ge. destruct (N.eq_dec t 0) as [->|NZ]; [cbn; lia|].
  rewrite N.size_log2 by exact NZ.
  assert (N.log2 t < 62) by (apply N.log2_lt_pow2; lia). lia.
Qed.

(** reading a string whose offset word sits at [i] and whose encoding sits at offset [off] *)
Lemma dec_string_at d i off v pre post :
  word_at d i = Some (word_of_N off) ->
  d = pre ++ enc_string v ++ post -> blen pre = off -> blen d < 2 ^ 62 ->
  dec_string d i = Some v.
Proof.
  intros Hw Hd Hp Hb. unfold dec_string, length_prefix. rewrite Hw.
  assert (Hoff : off < 2 ^ 256).
  { assert (off <= blen d) by (rewrite Hd, blen_app; lia).
    assert (2 ^ 62 < 2 ^ 256) by (apply N.pow_lt_mono_r; lia). lia. }
  rewrite be_N_word by exact Hoff.
  assert (Hlen : blen d = off + (32 + padded_len v) + blen post).
  { rewrite Hd, !blen_app, blen_enc_string, Hp. lia. }
  assert (Hpl : blen v <= padded_len v) by (unfold padded_len; lia).
  destruct (blen d <? off + 32) eqn:E1; [apply N.ltb_lt in E1; lia|].
  rewrite size_le_63 by lia.
  replace (off + 32 - 32) with off by lia.
  assert (Hs : slice d off 32 = word_of_N (blen v)).
  { rewrite Hd. unfold enc_string. rewrite <- app_assoc. apply slice_mid'; [exact Hp | apply blen_word]. }
  rewrite Hs, be_N_word.
  2:{ assert (2 ^ 62 < 2 ^ 256) by (apply N.pow_lt_mono_r; lia). lia. }
  rewrite size_le_63 by lia.
  destruct (blen d <? off + 32 + blen v) eqn:E2; [apply N.ltb_lt in E2; lia|].
  f_equal. rewrite Hd. unfold enc_string, pad32. rewrite <- !app_assoc.
  rewrite (app_assoc pre). apply slice_mid'; [rewrite blen_app, blen_word; lia | reflexivity].
Qed.

(** ** the weighted-vote option list *)
Definition enc_opt (ow : N * N) : bytes := word_of_N (fst ow) ++ word_of_N (snd ow).

Lemma blen_enc_opts os : blen (flat_map enc_opt os) = 64 * N.of_nat (length os).
Proof.
  induction os as [|ow os IH]; [reflexivity|]. cbn [flat_map length]. unfold enc_opt at 1.
  rewrite !blen_app, !blen_word, IH. lia.
Qed.

Definition opt_in_range (ow : N * N) : Prop := fst ow < 2 ^ 32 /\ snd ow < 2 ^ 64.

Lemma dec_opt_elems_enc os : forall pre j post,
  blen pre = 64 * j -> Forall opt_in_range os ->
  dec_opt_elems (pre ++ flat_map enc_opt os ++ post) (length os) j = Some os.
Proof.
  induction os as [|[o w] os IH]; intros pre j post Hp Hr; [reflexivity|].
  inversion Hr as [|x l [Ho Hw] Hr']; subst. cbn [length dec_opt_elems flat_map].
  set (d' := pre ++ (enc_opt (o, w) ++ flat_map enc_opt os) ++ post).
  assert (Hd : blen d' = 64 * j + 64 + blen (flat_map enc_opt os) + blen post).
  { unfold d', enc_opt. rewrite !blen_app, !blen_word, Hp. cbn [fst snd]. lia. }
  destruct (blen d' <? 64 * j + 32) eqn:E1; [apply N.ltb_lt in E1; lia|].
  assert (Hsk : skipn (N.to_nat (64 * j)) d' = (enc_opt (o, w) ++ flat_map enc_opt os) ++ post).
  { unfold d'. rewrite <- Hp, blen_nat. apply skipn_app_exact. }
  rewrite Hsk.
  destruct (blen ((enc_opt (o, w) ++ flat_map enc_opt os) ++ post) <? 64) eqn:E2.
  { apply N.ltb_lt in E2. unfold enc_opt in E2. rewrite !blen_app, !blen_word in E2. lia. }
  specialize (IH (pre ++ enc_opt (o, w)) (j + 1) post).
  assert (Ed : (pre ++ enc_opt (o, w)) ++ flat_map enc_opt os ++ post = d').
  { unfold d'. rewrite <- !app_assoc. reflexivity. }
  rewrite Ed in IH. rewrite IH.
  2:{ unfold enc_opt. rewrite !blen_app, !blen_word, Hp. lia. }
  2:{ exact Hr'. }
  cbn [fst snd] in Ho, Hw.
  f_equal. f_equal. unfold enc_opt. cbn [fst snd]. rewrite <- !app_assoc.
  f_equal.
  - rewrite slice_head by apply blen_word. apply dec_u32_word; exact Ho.
  - rewrite (slice_mid' (word_of_N o) (word_of_N w)) by apply blen_word. apply dec_u64_word; exact Hw.
Qed.


(** ** events *)
Definition wf_event (e : event) : Prop :=
  blen (encode_event e) < 2 ^ 62 /\
  match e with
  | EDelegated d _ (Some a) | EUndelegated d _ (Some a) | ERedelegated d _ _ (Some a) =>
      length d = 20%nat /\ a < 2 ^ 256
  | EWithdrew d _ => length d = 20%nat
  | EVoted d pid opt => length d = 20%nat /\ pid < 2 ^ 64 /\ opt < 2 ^ 32
  | EVotedW d pid os => length d = 20%nat /\ pid < 2 ^ 64 /\ Forall opt_in_range os
  | _ => False
  end.

Ltac reassoc_to t := match goal with |- context [?D] => replace D with t by (rewrite <- ?app_assoc; reflexivity) end.

Lemma unpack_delegated_like (mk : bytes -> bytes -> option N -> event) k d v a :
  (forall D, unpack_event k D =
     match word_at D 0, dec_string D 32, word_at D 64 with
     | Some w0, Some v, Some w2 => Some (mk (dec_addr w0) v (Some (dec_u256 w2)))
     | _, _, _ => None
     end) ->
  length d = 20%nat -> a < 2 ^ 256 ->
  blen (enc_addr d ++ word_of_N 96 ++ word_of_N a ++ enc_string v) < 2 ^ 62 ->
  unpack_event k (enc_addr d ++ word_of_N 96 ++ word_of_N a ++ enc_string v) = Some (mk d v (Some a)).
Proof.
  intros Hk Hd Ha Hb. rewrite Hk. set (D := enc_addr d ++ word_of_N 96 ++ word_of_N a ++ enc_string v) in *.
  assert (H0 : word_at D 0 = Some (enc_addr d)).
  { apply (word_at_mid [] (enc_addr d)); [reflexivity | apply blen_enc_addr; exact Hd]. }
  assert (H1 : word_at D 32 = Some (word_of_N 96)).
  { apply (word_at_mid (enc_addr d) (word_of_N 96)); [apply blen_enc_addr; exact Hd | apply blen_word]. }
  assert (H2 : word_at D 64 = Some (word_of_N a)).
  { unfold D. rewrite app_assoc. apply word_at_mid; [|apply blen_word].
    rewrite blen_app, blen_word, blen_enc_addr by exact Hd. reflexivity. }
  assert (Hs : dec_string D 32 = Some v).
  { apply (dec_string_at D 32 96 v (enc_addr d ++ word_of_N 96 ++ word_of_N a) []); [exact H1| | |exact Hb].
    - unfold D. rewrite app_nil_r, <- !app_assoc. reflexivity.
    - rewrite !blen_app, !blen_word, blen_enc_addr by exact Hd. reflexivity. }
  rewrite H0, Hs, H2, dec_addr_enc, dec_u256_word by assumption. reflexivity.
Qed.

Theorem unpack_encode e : wf_event e -> unpack_event (kind_of_event e) (encode_event e) = Some e.
Proof.
  intros [Hb Hw]. destruct e as [d v [a|] | d v [a|] | d s t [a|] | d v | d pid opt | d pid os]; try contradiction;
    cbn [kind_of_event encode_event] in *.
  - destruct Hw as [Hd Ha]. apply (unpack_delegated_like EDelegated KDelegated); auto.
  - destruct Hw as [Hd Ha]. apply (unpack_delegated_like EUndelegated KUndelegated); auto.
  - (* Redelegated *)
    destruct Hw as [Hd Ha]. cbn [unpack_event].
    set (D := enc_addr d ++ word_of_N 128 ++ word_of_N (128 + 32 + padded_len s) ++ word_of_N a ++ enc_string s ++ enc_string t) in *.
    assert (H0 : word_at D 0 = Some (enc_addr d)).
    { apply (word_at_mid [] (enc_addr d)); [reflexivity | apply blen_enc_addr; exact Hd]. }
    assert (H1 : word_at D 32 = Some (word_of_N 128)).
    { apply (word_at_mid (enc_addr d) (word_of_N 128)); [apply blen_enc_addr; exact Hd | apply blen_word]. }
    assert (H2 : word_at D 64 = Some (word_of_N (128 + 32 + padded_len s))).
    { unfold D. rewrite app_assoc. apply word_at_mid; [|apply blen_word].
      rewrite blen_app, blen_word, blen_enc_addr by exact Hd. reflexivity. }
    assert (H3 : word_at D 96 = Some (word_of_N a)).
    { unfold D. rewrite (app_assoc (enc_addr d)), (app_assoc (enc_addr d ++ word_of_N 128)). apply word_at_mid; [|apply blen_word].
      rewrite !blen_app, !blen_word, blen_enc_addr by exact Hd. reflexivity. }
    assert (Hs : dec_string D 32 = Some s).
    { apply (dec_string_at D 32 128 s (enc_addr d ++ word_of_N 128 ++ word_of_N (128 + 32 + padded_len s) ++ word_of_N a) (enc_string t));
        [exact H1| | |exact Hb].
      - unfold D. rewrite <- !app_assoc. reflexivity.
      - rewrite !blen_app, !blen_word, blen_enc_addr by exact Hd. reflexivity. }
    assert (Ht : dec_string D 64 = Some t).
    { apply (dec_string_at D 64 (128 + 32 + padded_len s) t
               (enc_addr d ++ word_of_N 128 ++ word_of_N (128 + 32 + padded_len s) ++ word_of_N a ++ enc_string s) []);
        [exact H2| | |exact Hb].
      - unfold D. rewrite app_nil_r, <- !app_assoc. reflexivity.
      - rewrite !blen_app, !blen_word, blen_enc_string, blen_enc_addr by exact Hd. lia. }
    rewrite H0, Hs, Ht, H3, dec_addr_enc, dec_u256_word by assumption. reflexivity.
  - (* Withdrew *)
    cbn [unpack_event]. set (D := enc_addr d ++ word_of_N 64 ++ enc_string v) in *.
    assert (H0 : word_at D 0 = Some (enc_addr d)).
    { apply (word_at_mid [] (enc_addr d)); [reflexivity | apply blen_enc_addr; exact Hw]. }
    assert (H1 : word_at D 32 = Some (word_of_N 64)).
    { apply (word_at_mid (enc_addr d) (word_of_N 64)); [apply blen_enc_addr; exact Hw | apply blen_word]. }
    assert (Hs : dec_string D 32 = Some v).
    { apply (dec_string_at D 32 64 v (enc_addr d ++ word_of_N 64) []); [exact H1| | |exact Hb].
      - unfold D. rewrite app_nil_r, <- !app_assoc. reflexivity.
      - rewrite !blen_app, !blen_word, blen_enc_addr by exact Hw. reflexivity. }
    rewrite H0, Hs, dec_addr_enc by assumption. reflexivity.
  - (* Voted *)
    destruct Hw as [Hd [Hp Ho]]. cbn [unpack_event]. set (D := enc_addr d ++ word_of_N pid ++ word_of_N opt) in *.
    assert (H0 : word_at D 0 = Some (enc_addr d)).
    { apply (word_at_mid [] (enc_addr d)); [reflexivity | apply blen_enc_addr; exact Hd]. }
    assert (H1 : word_at D 32 = Some (word_of_N pid)).
    { apply (word_at_mid (enc_addr d) (word_of_N pid)); [apply blen_enc_addr; exact Hd | apply blen_word]. }
    assert (H2 : word_at D 64 = Some (word_of_N opt)).
    { unfold D. rewrite app_assoc. rewrite <- (app_nil_r (word_of_N opt)).
      apply (word_at_mid (enc_addr d ++ word_of_N pid) (word_of_N opt) []); [|apply blen_word].
      rewrite blen_app, blen_word, blen_enc_addr by exact Hd. reflexivity. }
    rewrite H0, H1, H2, dec_addr_enc, dec_u64_word, dec_u32_word by assumption. reflexivity.
  - (* VotedWeighted *)
    destruct Hw as [Hd [Hp Hr]]. cbn [unpack_event].
    change (flat_map (fun ow : N * N => word_of_N (fst ow) ++ word_of_N (snd ow)) os) with (flat_map enc_opt os) in *.
    set (D := enc_addr d ++ word_of_N pid ++ word_of_N 96 ++ word_of_N (N.of_nat (length os)) ++ flat_map enc_opt os) in *.
    assert (H0 : word_at D 0 = Some (enc_addr d)).
    { apply (word_at_mid [] (enc_addr d)); [reflexivity | apply blen_enc_addr; exact Hd]. }
    assert (H1 : word_at D 32 = Some (word_of_N pid)).
    { apply (word_at_mid (enc_addr d) (word_of_N pid)); [apply blen_enc_addr; exact Hd | apply blen_word]. }
    assert (H2 : word_at D 64 = Some (word_of_N 96)).
    { unfold D. rewrite app_assoc. apply word_at_mid; [|apply blen_word].
      rewrite blen_app, blen_word, blen_enc_addr by exact Hd. reflexivity. }
    assert (HD : blen D = 128 + 64 * N.of_nat (length os)).
    { unfold D. rewrite !blen_app, !blen_word, blen_enc_addr, blen_enc_opts by exact Hd. lia. }
    assert (Ho : dec_opts D 64 = Some os).
    { unfold dec_opts, length_prefix. rewrite H2, be_N_word by (vm_compute; reflexivity).
      destruct (blen D <? 96 + 32) eqn:E1; [apply N.ltb_lt in E1; lia|].
      rewrite size_le_63 by (vm_compute; reflexivity).
      replace (96 + 32 - 32) with 96 by reflexivity.
      assert (Hs : slice D 96 32 = word_of_N (N.of_nat (length os))).
      { unfold D. rewrite (app_assoc (enc_addr d)), (app_assoc (enc_addr d ++ word_of_N pid)).
        apply slice_mid'; [|apply blen_word]. rewrite !blen_app, !blen_word, blen_enc_addr by exact Hd. reflexivity. }
      assert (Hn : N.of_nat (length os) < 2 ^ 256).
      { assert (2 ^ 62 < 2 ^ 256) by (apply N.pow_lt_mono_r; lia). lia. }
      rewrite Hs, be_N_word by exact Hn.
      rewrite size_le_63 by lia.
      destruct (blen D <? 96 + 32 + N.of_nat (length os)) eqn:E2; [apply N.ltb_lt in E2; lia|].
      assert (Hsk : skipn (N.to_nat (96 + 32)) D = flat_map enc_opt os).
      { unfold D. rewrite (app_assoc (enc_addr d)), (app_assoc (enc_addr d ++ word_of_N pid)),
          (app_assoc ((enc_addr d ++ word_of_N pid) ++ word_of_N 96)).
        replace (N.to_nat (96 + 32)) with (length (((enc_addr d ++ word_of_N pid) ++ word_of_N 96) ++ word_of_N (N.of_nat (length os)))).
        - apply skipn_app_exact.
        - rewrite !app_length, !word_length. unfold enc_addr. rewrite app_length, zeros_length, Hd. reflexivity. }
      rewrite Hsk, blen_enc_opts.
      destruct (64 * N.of_nat (length os) <? 32 * N.of_nat (length os)) eqn:E3; [apply N.ltb_lt in E3; lia|].
      rewrite Nat2N.id.
      rewrite <- (app_nil_r (flat_map enc_opt os)).
      apply (dec_opt_elems_enc os [] 0 []); [reflexivity | exact Hr]. }
    rewrite H0, H1, Ho, dec_addr_enc, dec_u64_word by assumption. reflexivity.
Qed.

Lemma encode_nonempty e : encode_event e <> [].
Proof. destruct e as [d v a | d v a | d s t a | d v | d pid opt | d pid os]; cbn; discriminate. Qed.

(** [ParseLog] on the canonical log of a well-formed event returns the event *)
Theorem parse_log_encode e : wf_event e -> parse_log (kind_of_event e) 1 (encode_event e) = Some e.
Proof.
  intro W. unfold parse_log. pose proof (encode_nonempty e) as NE.
  destruct (encode_event e) as [|b r] eqn:E; [contradiction|]. rewrite <- E, (unpack_encode e W). reflexivity.
Qed.

(** a topic mismatch (an extra topic) or truncated data never yields an event: spot lemma used
    by the non-vacuity examples *)
Lemma parse_log_extra_topic k d : parse_log k 2 d = None.
Proof. unfold parse_log. destruct (match d with [] => _ | _ => _ end); reflexivity. Qed.
