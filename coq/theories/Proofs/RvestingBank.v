(** Lemmas about the bank part of the C20 world model (Model/RvestingBank.v): every operation keeps
    "sum of all balances = stored supply" and non-negative balances; the supply changes only by mint / burn. *)
From Teleport Require Import Base.Bytes Base.Outcome Model.Rvesting Model.RvestingBank Proofs.Rvesting.
Local Open Scope Z_scope.

Lemma acct_nil j : acct [] j = [].
Proof. unfold acct. destruct j; reflexivity. Qed.

Lemma acct_set : forall i a j m, acct (set_acct a i m) j = if Nat.eqb i j then m else acct a j.
Proof.
  induction i as [|i IH]; intros a j m.
  - destruct a as [|x t]; destruct j as [|j]; cbn; try reflexivity. destruct j; reflexivity.
  - destruct a as [|x t]; destruct j as [|j]; cbn [set_acct Nat.eqb]; try reflexivity.
    + change (acct ([] :: set_acct [] i m) (S j)) with (acct (set_acct [] i m) j). rewrite IH, !acct_nil. reflexivity.
    + change (acct (x :: set_acct t i m) (S j)) with (acct (set_acct t i m) j). rewrite IH. reflexivity.
Qed.

Lemma sumd_set : forall i a m d, sumd (set_acct a i m) d = sumd a d - get (acct a i) d + get m d.
Proof.
  induction i as [|i IH]; intros a m d.
  - destruct a as [|x t]; cbn [set_acct sumd]; unfold acct; cbn [nth get]; lia.
  - destruct a as [|x t]; cbn [set_acct sumd].
    + rewrite IH. rewrite !acct_nil. cbn [sumd get]. lia.
    + rewrite IH. change (acct (x :: t) (S i)) with (acct t i). lia.
Qed.

Definition delta (c : bytes * Z) (d : bytes) : Z := if bytes_eqb (fst c) d then snd c else 0.

Lemma vtotal_cons c l d : vtotal (c :: l) d = delta c d + vtotal l d.
Proof. destruct c as [k a]. reflexivity. Qed.

Lemma vtotal_app l1 l2 d : vtotal (l1 ++ l2) d = vtotal l1 d + vtotal l2 d.
Proof. induction l1 as [|c l IH]; [reflexivity|]. rewrite <- app_comm_cons, !vtotal_cons, IH. lia. Qed.

Lemma sub_coin_get a i c j d :
  get (acct (sub_coin a i c) j) d = get (acct a j) d - (if Nat.eqb i j then delta c d else 0).
Proof.
  unfold sub_coin, delta. rewrite acct_set. destruct (Nat.eqb i j) eqn:E; [|lia].
  apply Nat.eqb_eq in E. subst j. rewrite get_upd. destruct (bytes_eqb_spec (fst c) d) as [->|]; lia.
Qed.

Lemma add_coin_get a i c j d :
  get (acct (add_coin a i c) j) d = get (acct a j) d + (if Nat.eqb i j then delta c d else 0).
Proof.
  unfold add_coin, delta. rewrite acct_set. destruct (Nat.eqb i j) eqn:E; [|lia].
  apply Nat.eqb_eq in E. subst j. rewrite get_upd. destruct (bytes_eqb_spec (fst c) d) as [->|]; lia.
Qed.

Lemma sub_coin_sum a i c d : sumd (sub_coin a i c) d = sumd a d - delta c d.
Proof.
  unfold sub_coin, delta. rewrite sumd_set, get_upd. destruct (bytes_eqb_spec (fst c) d) as [->|]; lia.
Qed.

Lemma add_coin_sum a i c d : sumd (add_coin a i c) d = sumd a d + delta c d.
Proof.
  unfold add_coin, delta. rewrite sumd_set, get_upd. destruct (bytes_eqb_spec (fst c) d) as [->|]; lia.
Qed.

Lemma sub_coins_get l : forall a i j d,
  get (acct (sub_coins a i l) j) d = get (acct a j) d - (if Nat.eqb i j then vtotal l d else 0).
Proof.
  unfold sub_coins. induction l as [|c l IH]; intros a i j d; cbn [fold_left].
  - destruct (Nat.eqb i j); cbn; lia.
  - rewrite IH, sub_coin_get, vtotal_cons. destruct (Nat.eqb i j); lia.
Qed.

Lemma add_coins_get l : forall a i j d,
  get (acct (add_coins a i l) j) d = get (acct a j) d + (if Nat.eqb i j then vtotal l d else 0).
Proof.
  unfold add_coins. induction l as [|c l IH]; intros a i j d; cbn [fold_left].
  - destruct (Nat.eqb i j); cbn; lia.
  - rewrite IH, add_coin_get, vtotal_cons. destruct (Nat.eqb i j); lia.
Qed.

Lemma sub_coins_sum l : forall a i d, sumd (sub_coins a i l) d = sumd a d - vtotal l d.
Proof.
  unfold sub_coins. induction l as [|c l IH]; intros a i d; cbn [fold_left]; [cbn; lia|].
  rewrite IH, sub_coin_sum, vtotal_cons. lia.
Qed.

Lemma add_coins_sum l : forall a i d, sumd (add_coins a i l) d = sumd a d + vtotal l d.
Proof.
  unfold add_coins. induction l as [|c l IH]; intros a i d; cbn [fold_left]; [cbn; lia|].
  rewrite IH, add_coin_sum, vtotal_cons. lia.
Qed.

Lemma sub_coins_other l a i j : i <> j -> acct (sub_coins a i l) j = acct a j.
Proof.
  intro Hne. unfold sub_coins. revert a. induction l as [|c l IH]; intro a; cbn [fold_left]; [reflexivity|].
  rewrite IH. unfold sub_coin. rewrite acct_set. apply Nat.eqb_neq in Hne. rewrite Hne. reflexivity.
Qed.

Lemma add_coins_other l a i j : i <> j -> acct (add_coins a i l) j = acct a j.
Proof.
  intro Hne. unfold add_coins. revert a. induction l as [|c l IH]; intro a; cbn [fold_left]; [reflexivity|].
  rewrite IH. unfold add_coin. rewrite acct_set. apply Nat.eqb_neq in Hne. rewrite Hne. reflexivity.
Qed.

Lemma sub_checked_eq l : forall a i a1, sub_checked a i l = Some a1 -> a1 = sub_coins a i l.
Proof.
  induction l as [|c l IH]; intros a i a1; cbn [sub_checked]; intro H; [inversion H; reflexivity|].
  destruct (snd c <=? get (acct a i) (fst c)); [|discriminate]. apply IH in H. exact H.
Qed.

Lemma sub_checked_nonneg l : forall a i a1,
  sub_checked a i l = Some a1 -> (forall d, 0 <= get (acct a i) d) -> forall d, 0 <= get (acct a1 i) d.
Proof.
  induction l as [|c l IH]; intros a i a1; cbn [sub_checked]; intros H Hn; [inversion H; subst; exact Hn|].
  destruct (snd c <=? get (acct a i) (fst c)) eqn:E; [|discriminate].
  apply (IH _ _ _ H). intro d. rewrite sub_coin_get, Nat.eqb_refl. unfold delta.
  apply Z.leb_le in E. destruct (bytes_eqb_spec (fst c) d) as [<-|]; [lia|]. specialize (Hn d). lia.
Qed.

Lemma sorted_from_pos l : forall low, coins_sorted_from low l = true -> Forall (fun c => 0 < snd c) l.
Proof.
  induction l as [|[d a] t IH]; intros low; cbn [coins_sorted_from]; intro H; [constructor|].
  repeat (apply andb_true_iff in H as [H ?]). constructor; [cbn; apply Z.ltb_lt; assumption | eapply IH; eassumption].
Qed.

Lemma coins_valid_pos l : coins_is_valid l = true -> Forall (fun c => 0 < snd c) l.
Proof.
  destruct l as [|[d a] t]; cbn [coins_is_valid]; intro H; [constructor|].
  repeat (apply andb_true_iff in H as [H ?]). constructor; [cbn; apply Z.ltb_lt; assumption | eapply sorted_from_pos; eassumption].
Qed.

Lemma vtotal_nonneg l d : Forall (fun c => 0 < snd c) l -> 0 <= vtotal l d.
Proof.
  induction 1 as [|c l Hc _ IH]; [cbn; lia|]. rewrite vtotal_cons. unfold delta. destruct (bytes_eqb (fst c) d); lia.
Qed.

(** * The bank invariant *)
Definition bank_ok (a : accts) (s : balmap) : Prop :=
  (forall d, sumd a d = get s d) /\ (forall i d, 0 <= get (acct a i) d).

Lemma bank_send_ok a s i j l a' :
  bank_ok a s -> bank_send a i j l = Ok a' -> bank_ok a' s.
Proof.
  intros [Hs Hn]. unfold bank_send. destruct (coins_is_valid l) eqn:Ev; cbn [negb]; [|discriminate].
  destruct (sub_checked a i l) as [a1|] eqn:Ec; [|discriminate]. intro H; inversion H; subst a'. clear H.
  pose proof (sub_checked_eq _ _ _ _ Ec) as E1. pose proof (sub_checked_nonneg _ _ _ _ Ec (Hn i)) as Hn1.
  pose proof (vtotal_nonneg l) as Hv. specialize (Hv) . pose proof (coins_valid_pos l Ev) as Hpos.
  split.
  - intro d. rewrite add_coins_sum, E1, sub_coins_sum, <- Hs. lia.
  - intros k d. rewrite add_coins_get.
    assert (0 <= get (acct a1 k) d).
    { destruct (Nat.eq_dec i k) as [<-|Hne]; [apply Hn1|]. rewrite E1, sub_coins_other by exact Hne. apply Hn. }
    specialize (Hv d Hpos). destruct (Nat.eqb j k); lia.
Qed.

(** What a successful send does, per account and denomination. *)
Lemma bank_send_get a i j l a' k d :
  bank_send a i j l = Ok a' ->
  get (acct a' k) d = get (acct a k) d - (if Nat.eqb i k then vtotal l d else 0) + (if Nat.eqb j k then vtotal l d else 0).
Proof.
  unfold bank_send. destruct (coins_is_valid l); cbn [negb]; [|discriminate].
  destruct (sub_checked a i l) as [a1|] eqn:Ec; [|discriminate]. intro H; inversion H; subst a'.
  rewrite add_coins_get, (sub_checked_eq _ _ _ _ Ec), sub_coins_get. reflexivity.
Qed.

Lemma bank_send_other a i j l a' k : bank_send a i j l = Ok a' -> k <> i -> k <> j -> acct a' k = acct a k.
Proof.
  unfold bank_send. destruct (coins_is_valid l); cbn [negb]; [|discriminate].
  destruct (sub_checked a i l) as [a1|] eqn:Ec; [|discriminate]. intro H; inversion H; subst a'. intros H1 H2.
  rewrite add_coins_other by congruence. rewrite (sub_checked_eq _ _ _ _ Ec), sub_coins_other by congruence. reflexivity.
Qed.

Lemma sup_add_get l : forall s d, get (sup_add s l) d = get s d + vtotal l d.
Proof.
  unfold sup_add. induction l as [|c l IH]; intros s d; cbn [fold_left]; [cbn; lia|].
  rewrite IH, get_upd, vtotal_cons. unfold delta. destruct (bytes_eqb_spec (fst c) d) as [->|]; lia.
Qed.

Lemma sup_sub_get l : forall s d, get (sup_sub s l) d = get s d - vtotal l d.
Proof.
  unfold sup_sub. induction l as [|c l IH]; intros s d; cbn [fold_left]; [cbn; lia|].
  rewrite IH, get_upd, vtotal_cons. unfold delta. destruct (bytes_eqb_spec (fst c) d) as [->|]; lia.
Qed.

Lemma bank_mint_ok a s i l a' s' :
  bank_ok a s -> bank_mint a s i l = Ok (a', s') ->
  bank_ok a' s' /\ forall d, get s' d = get s d + vtotal l d.
Proof.
  intros [Hs Hn]. unfold bank_mint. destruct (coins_is_valid l) eqn:Ev; cbn [negb]; [|discriminate].
  intro H; inversion H; subst a' s'. pose proof (coins_valid_pos l Ev) as Hpos. split; [split|].
  - intro d. rewrite add_coins_sum, sup_add_get, Hs. reflexivity.
  - intros k d. rewrite add_coins_get. pose proof (vtotal_nonneg l d Hpos). specialize (Hn k d). destruct (Nat.eqb i k); lia.
  - intro d. apply sup_add_get.
Qed.

Lemma bank_burn_ok a s i l a' s' :
  bank_ok a s -> bank_burn a s i l = Ok (a', s') ->
  bank_ok a' s' /\ forall d, get s' d = get s d - vtotal l d.
Proof.
  intros [Hs Hn]. unfold bank_burn. destruct (coins_is_valid l) eqn:Ev; cbn [negb]; [|discriminate].
  destruct (sub_checked a i l) as [a1|] eqn:Ec; [|discriminate]. intro H; inversion H; subst a' s'.
  pose proof (sub_checked_eq _ _ _ _ Ec) as E1. split; [split|].
  - intro d. rewrite E1, sub_coins_sum, sup_sub_get, Hs. reflexivity.
  - intros k d. destruct (Nat.eq_dec i k) as [<-|Hne]; [apply (sub_checked_nonneg _ _ _ _ Ec (Hn i))|].
    rewrite E1, sub_coins_other by exact Hne. apply Hn.
  - intro d. apply sup_sub_get.
Qed.

(** * GetAllBalances *)
Lemma get_notin m d : ~ In d (map fst m) -> get m d = 0.
Proof.
  induction m as [|[k v] t IH]; cbn [map fst get In]; intro H; [reflexivity|].
  destruct (bytes_eqb_spec k d) as [->|]; [tauto|]. apply IH; tauto.
Qed.

Lemma vtotal_flat (f : bytes -> list (bytes * Z)) (g : bytes -> Z) :
  (forall x d, vtotal (f x) d = if bytes_eqb x d then g x else 0) ->
  forall ds, NoDup ds -> forall d, vtotal (flat_map f ds) d = if mem d ds then g d else 0.
Proof.
  intros Hf. induction ds as [|x ds IH]; intros ND d; cbn [flat_map mem]; [reflexivity|].
  inversion ND as [|? ? Hx ND']; subst. rewrite vtotal_app, Hf, IH by exact ND'.
  destruct (bytes_eqb_spec x d) as [->|]; cbn [orb]; [|lia].
  apply mem_false_notin in Hx. rewrite Hx. lia.
Qed.

Lemma vtotal_all_balances m d : vtotal (all_balances m) d = Z.max 0 (get m d).
Proof.
  unfold all_balances.
  rewrite (vtotal_flat _ (fun x => Z.max 0 (get m x))).
  - destruct (mem d (distinct (map fst m))) eqn:E; [reflexivity|].
    apply mem_false_notin in E. rewrite distinct_In in E. rewrite (get_notin m d E). reflexivity.
  - intros x d'. destruct (0 <? get m x) eqn:E; cbn [vtotal].
    + apply Z.ltb_lt in E. destruct (bytes_eqb x d'); lia.
    + apply Z.ltb_ge in E. destruct (bytes_eqb x d'); lia.
  - apply distinct_NoDup.
Qed.
