(** C06 — monitor soundness: the executable property monitor of Model/AuthCheck.v (which has
    its own vocabulary and looks only at observed dumps) accepts every step the model makes. *)
From Teleport Require Import Base.Bytes Base.Outcome Model.Auth Model.AuthCheck Proofs.Auth.

Lemma list_eqb_refl {A} (eqb : A -> A -> bool) (l : list A) : (forall x, eqb x x = true) -> list_eqb eqb l l = true.
Proof. intro H. induction l as [|x l IH]; cbn; [reflexivity | rewrite H, IH; reflexivity]. Qed.

Lemma rdump_eqb_refl d : rdump_eqb d d = true.
Proof.
  apply list_eqb_refl. intros [k [cs ads]]; cbn.
  rewrite bytes_eqb_refl, !list_eqb_refl by apply bytes_eqb_refl. reflexivity.
Qed.

Lemma assoc_rdump r a :
  assoc (rdump_of r) a = option_map (fun x => (r_chains x, r_addrs x)) (reg_get r a).
Proof.
  induction r as [|[k x] r IH]; cbn; [reflexivity|]. destruct (bytes_eqb k a); [reflexivity | exact IH].
Qed.

Lemma listed_rdump r s c : listed (rdump_of r) s c = auth_relayer r c s.
Proof.
  unfold listed, dump_get, auth_relayer. rewrite assoc_rdump. destruct (reg_get r s); reflexivity.
Qed.

Lemma registered_addr_rdump r s c a :
  other_chain_addr r c s = Ok (Some a) -> registered_addr (rdump_of r) s c = Some a.
Proof.
  intro H. apply other_chain_addr_some in H as [x [i [E [H1 H2]]]].
  unfold registered_addr, dump_get. rewrite assoc_rdump, E. cbn. rewrite H1. exact H2.
Qed.

Lemma filter_rdump_set r a v :
  filter (fun kv : bytes * (list bytes * list bytes) => negb (bytes_eqb (fst kv) a)) (rdump_of (reg_set r a v)) =
  filter (fun kv : bytes * (list bytes * list bytes) => negb (bytes_eqb (fst kv) a)) (rdump_of r).
Proof.
  unfold rdump_of. induction r as [|[k x] r IH]; cbn.
  - rewrite bytes_eqb_refl; reflexivity.
  - destruct (bytes_cmp a k) eqn:E; cbn.
    + apply bytes_cmp_eq in E; subst k. rewrite bytes_eqb_refl; reflexivity.
    + rewrite bytes_eqb_refl; reflexivity.
    + rewrite IH; reflexivity.
Qed.

Lemma others_same_set r a v : others_same (rdump_of r) (rdump_of (reg_set r a v)) a = true.
Proof. unfold others_same. rewrite filter_rdump_set. apply rdump_eqb_refl. Qed.

(** reverse look-up: the monitor's [rev_find] agrees with the model's [teleport_addr] whenever
    the latter returns an address *)
Lemma rev_match_existsb cs ads c a b :
  rev_match ascii_fold_eq cs ads c a = Ok b ->
  existsb (fun ca : bytes * bytes => bytes_eqb (fst ca) c && ascii_fold_eq (snd ca) a) (combine cs ads) = b.
Proof.
  revert ads; induction cs as [|ch cs IH]; intro ads; cbn.
  - intro H; inversion H; reflexivity.
  - destruct ads as [|x ads]; cbn.
    + destruct (bytes_eqb ch c); [discriminate|]. intro H. apply IH in H. destruct cs; exact H.
    + destruct (bytes_eqb ch c); cbn.
      * destruct (ascii_fold_eq x a); cbn; [intro H; inversion H; reflexivity | apply IH].
      * apply IH.
Qed.

Lemma teleport_addr_rev_find r c a p :
  teleport_addr ascii_fold_eq r c a = Ok (Some p) -> rev_find (rdump_of r) c a = Some p.
Proof.
  induction r as [|[k x] r IH]; cbn; [discriminate|].
  destruct (rev_match ascii_fold_eq (r_chains x) (r_addrs x) c a) as [b| |] eqn:E; cbn; try discriminate.
  apply rev_match_existsb in E. rewrite E. destruct b; [intro H; inversion H; reflexivity | exact IH].
Qed.

Local Arguments rdump_of : simpl never.
Local Arguments rdump_eqb : simpl never.
Local Arguments others_same : simpl never.
Local Arguments listed : simpl never.
Local Arguments registered_addr : simpl never.
Local Arguments rev_find : simpl never.
Local Arguments tss_of : simpl never.
Local Arguments dump_get : simpl never.

Section Sound.
  Variable ct : list (bytes * bytes).
  Variable bt : list (bytes * bool).

  Notation L := lower_inst.
  Notation hu := (handle_update facts unit unit unit (canon_f ct) lower_inst).
  Notation hr := (handle_recv facts unit unit unit lower_inst).
  Notation ha := (handle_ack facts unit unit unit ascii_fold_eq (bech_f bt) lower_inst).

  Lemma tss_of_client f c a : tss_of f c = Some a -> client_of L f c = Some (TSS a).
  Proof. unfold tss_of. cbn. destruct (assoc (f_clients f) c) as [[t|]|]; try discriminate. intro H; inversion H; reflexivity. Qed.

  Lemma lo_recv_inst f m d : lo_recv _ _ _ _ L f m = Ok d -> d = f.
  Proof. cbn. unfold of_class. destruct (f_lower f) as [|[|n]]; intro H; inversion H; reflexivity. Qed.

  (* both registration paths, once ValidateBasic (if any) has passed *)
  Lemma reg_case r f a cs ads :
    let s := {| reg := r; low := f; wlog := [] |} in
    let o := do_register facts s a cs ads in
    let c := match o with Ok _ => 0%nat | Err => 1%nat | Panic => 2%nat end in
    let s' := fst (deliver facts s o) in
    (if negb (Nat.eqb c 0) && negb (Nat.eqb (length (wlog facts s')) 0 && rdump_eqb (rdump_of r) (rdump_of (reg facts s'))
                                   && rdump_eqb (rdump_of r) (rdump_of (reg facts s'))) then [13%nat] else [])
    ++ (if false && negb (rdump_eqb (rdump_of r) (rdump_of (reg facts s'))) then [15%nat] else [])
    ++ (if Nat.eqb c 0 then
          if match dump_get (rdump_of (reg facts s')) a with
             | Some (cs', ads') => list_eqb bytes_eqb cs cs' && list_eqb bytes_eqb ads ads'
             | None => false end && others_same (rdump_of r) (rdump_of (reg facts s')) a
          then [] else [16%nat]
        else []) = [].
  Proof.
    unfold do_register, register_relayers. destruct a as [|b a]; cbn.
    - rewrite rdump_eqb_refl. reflexivity.
    - unfold dump_get. rewrite assoc_rdump, reg_get_set_same. cbn.
      rewrite !list_eqb_refl by apply bytes_eqb_refl. rewrite others_same_set. reflexivity.
  Qed.

  Theorem monitor_sound r f k : mon_step ct (rdump_of r) (model_obs ct bt r f k) = [].
  Proof.
    set (s := {| reg := r; low := f; wlog := [] |}).
    destruct k as [a cs ads|a cs ads|chain signer|signer src dst seq fee|signer src dst seq oa];
      unfold mon_step, model_obs; cbn [os_kind os_class os_facts os_reg os_same os_ack os_ack_stored os_payee op_of].
    - (* governance registration *)
      unfold model_class, mstep; cbn [op_of step].
      destruct (validate_basic (bech_f bt) a cs ads); [apply reg_case|].
      cbn [fst reg wlog length]. rewrite !rdump_eqb_refl. reflexivity.
    - (* genesis registration *)
      unfold model_class, mstep; cbn [op_of step]. apply reg_case.
    - (* UpdateClient *)
      unfold model_class, mstep; cbn [op_of step].
      set (m := {| um_chain := chain; um_signer := signer; um_header := tt |}).
      fold s. destruct (hu s m) as [s'| |] eqn:E; cbn [deliver fst snd Nat.eqb].
      + apply handle_update_ok in E as [Ha [c [d' [Ec [Ck [_ ->]]]]]]. cbn [set_low reg wlog new_wack length Nat.ltb Nat.leb option_map].
        cbn. rewrite rdump_eqb_refl. cbn. rewrite listed_rdump. cbn in Ha. rewrite Ha. cbn.
        destruct (tss_of f chain) as [t|] eqn:Et; [|reflexivity].
        apply tss_of_client in Et. cbn in Ec, Et. rewrite Et in Ec. inversion Ec; subst c.
        cbn in Ck. rewrite bytes_eqb_sym in Ck. rewrite Ck. reflexivity.
      + cbn. rewrite rdump_eqb_refl. reflexivity.
      + cbn. rewrite rdump_eqb_refl. reflexivity.
    - (* RecvPacket *)
      unfold model_class, mstep; cbn [op_of step].
      set (m := {| rm_signer := signer; rm_src := src; rm_dst := dst; rm_seq := seq; rm_fee := fee; rm_rest := tt |}).
      fold s. destruct (hr s m) as [s'| |] eqn:E; cbn [deliver fst snd Nat.eqb].
      + pose proof E as E0.
        apply handle_recv_ok in E as [Ht [d1 [rel [El [Ho [Hr Hw]]]]]].
        apply lo_recv_inst in El; subst d1.
        rewrite Hr. cbn [reg s]. rewrite rdump_eqb_refl. cbn [negb andb app].
        unfold s, m in Ht, Ho, Hr, Hw.
        cbn [reg low wlog rm_src rm_signer rm_dst rm_fee rm_seq] in Ht, Ho, Hr, Hw.
        rewrite listed_rdump. rewrite (other_chain_addr_listed _ _ _ _ Ho). cbn [negb andb app].
        assert (T : match tss_of f src with Some a => if bytes_eqb signer a then [] else [12%nat] | None => [] end = []).
        { destruct (tss_of f src) as [t|] eqn:Et; [|reflexivity]. apply tss_of_client in Et.
          pose proof (tss_signer_ok_tss _ _ _ _ lower_inst _ _ _ _ Et Ht) as Hs. cbn in Hs. subst t.
          rewrite bytes_eqb_refl; reflexivity. }
        rewrite T. cbn [app].
        destruct Hw as [[Hw [Nd _]]|[a [Hw [Hrel Hfee]]]].
        * unfold new_wack. rewrite Hw. cbn. cbn in Nd. apply bytes_eqb_neq in Nd. rewrite Nd. reflexivity.
        * unfold new_wack. rewrite Hw. cbn. rewrite !bytes_eqb_refl, N.eqb_refl. cbn in Hfee. rewrite Hfee, N.eqb_refl.
          rewrite (registered_addr_rdump _ _ _ _ Ho). rewrite <- Hrel, bytes_eqb_refl. reflexivity.
      + cbn. rewrite rdump_eqb_refl. reflexivity.
      + cbn. rewrite rdump_eqb_refl. reflexivity.
    - (* Acknowledgement *)
      unfold model_class, mstep; cbn [op_of step].
      set (m := {| am_signer := signer; am_src := src; am_dst := dst; am_seq := seq; am_ack := oa; am_rest := tt |}).
      fold s. destruct (ha s m) as [s'| |] eqn:E; cbn [deliver fst snd Nat.eqb].
      + apply handle_ack_ok in E as [Ht [Hr [Hw [d1 [a [El [Ea [_ Hp]]]]]]]].
        rewrite Hr. cbn [reg s]. rewrite rdump_eqb_refl. cbn [negb andb app].
        assert (T : match tss_of f dst with Some t => if bytes_eqb signer t then [] else [12%nat] | None => [] end = []).
        { destruct (tss_of f dst) as [t|] eqn:Et; [|reflexivity]. apply tss_of_client in Et.
          pose proof (tss_signer_ok_tss _ _ _ _ lower_inst _ _ _ _ Et Ht) as Hs. cbn in Hs. subst t.
          rewrite bytes_eqb_refl; reflexivity. }
        rewrite T. cbn [app]. unfold new_wack. rewrite Hw. cbn [wlog s length Nat.ltb Nat.leb option_map app].
        unfold m in Ea; cbn in Ea. subst oa. unfold payee_of, s. cbn [low reg].
        destruct (bytes_eqb src (f_self f)); [|reflexivity].
        destruct (teleport_addr ascii_fold_eq r dst (ack_relayer a)) as [[p|]| |] eqn:Et; try reflexivity.
        apply teleport_addr_rev_find in Et. cbn [option_map]. rewrite Et, bytes_eqb_refl. reflexivity.
      + cbn. rewrite rdump_eqb_refl. reflexivity.
      + cbn. rewrite rdump_eqb_refl. reflexivity.
  Qed.
End Sound.
