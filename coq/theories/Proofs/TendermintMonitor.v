(** C07: iteration order = height order, the pruned entry is the earliest expired
    one, and soundness of the executable monitor of Model/TendermintCheck.v with
    respect to the model (every accepted model step passes the monitor). *)
From Teleport Require Import Base.Bytes Base.Outcome Model.Tendermint Model.TendermintCheck
  Proofs.TendermintStore Proofs.TendermintVerify Proofs.Tendermint.
From Coq Require Import Lia ZArith NArith List Bool.
From Coq Require Import ZifyN ZifyNat ZifyBool.
Local Open Scope Z_scope.

(** * Byte order of big-endian encodings = numeric order *)
Lemma bytes_cmp_refl a : bytes_cmp a a = Eq.
Proof. apply bytes_cmp_eq. reflexivity. Qed.

Lemma bytes_cmp_app_same p a b : bytes_cmp (p ++ a) (p ++ b) = bytes_cmp a b.
Proof. induction p as [|x p IH]; cbn; [reflexivity|]. now rewrite N.compare_refl. Qed.

Lemma bytes_cmp_app_eqlen : forall x y u v, length x = length y ->
  bytes_cmp (x ++ u) (y ++ v) = match bytes_cmp x y with Eq => bytes_cmp u v | c => c end.
Proof.
  induction x as [|a x IH]; intros [|b y] u v L; cbn in *; try discriminate; [reflexivity|].
  destruct (N.compare (Byte.to_N a) (Byte.to_N b)); [apply IH; lia | reflexivity | reflexivity].
Qed.

Lemma be_bytes_cmp k : forall a b,
  (a < 256 ^ N.of_nat k)%N -> (b < 256 ^ N.of_nat k)%N ->
  bytes_cmp (be_bytes k a) (be_bytes k b) = (a ?= b)%N.
Proof.
  induction k as [|k IH]; intros a b Ha Hb.
  - cbn in *. assert (a = 0%N) by lia. assert (b = 0%N) by lia. subst. reflexivity.
  - rewrite Nat2N.inj_succ, N.pow_succ_r' in Ha, Hb.
    cbn [be_bytes]. rewrite bytes_cmp_app_eqlen by now rewrite !be_bytes_length.
    pose proof (N.div_mod' a 256) as Da. pose proof (N.div_mod' b 256) as Db.
    pose proof (N.mod_lt a 256 ltac:(lia)) as Ra. pose proof (N.mod_lt b 256 ltac:(lia)) as Rb.
    assert (Qa : (a / 256 < 256 ^ N.of_nat k)%N) by (apply N.div_lt_upper_bound; lia).
    assert (Qb : (b / 256 < 256 ^ N.of_nat k)%N) by (apply N.div_lt_upper_bound; lia).
    rewrite (IH _ _ Qa Qb). cbn [bytes_cmp].
    rewrite !byte_of_N_to_N by assumption.
    set (qa := (a / 256)%N) in *. set (ra := (a mod 256)%N) in *.
    set (qb := (b / 256)%N) in *. set (rb := (b mod 256)%N) in *.
    destruct (N.compare_spec qa qb) as [E|L|G].
    + destruct (N.compare_spec ra rb) as [E2|L2|G2]; symmetry.
      * apply N.compare_eq_iff. lia.
      * apply N.compare_lt_iff. lia.
      * apply N.compare_gt_iff. lia.
    + symmetry. apply N.compare_lt_iff. lia.
    + symmetry. apply N.compare_gt_iff. lia.
Qed.

Lemma be64_cmp a b : (a < two64N)%N -> (b < two64N)%N -> bytes_cmp (be64 a) (be64 b) = (a ?= b)%N.
Proof. intros; apply be_bytes_cmp; assumption. Qed.

Lemma iter_key_cmp a b : valid_height a -> valid_height b -> bytes_cmp (iter_key a) (iter_key b) = h_cmp a b.
Proof.
  intros [A1 A2] [B1 B2]. unfold iter_key. rewrite bytes_cmp_app_same. unfold height_bytes.
  rewrite bytes_cmp_app_eqlen by now rewrite !be64_length.
  rewrite !be64_cmp by assumption. unfold h_cmp.
  destruct (N.compare_spec (h_rev a) (h_rev b)) as [E|L|G].
  - rewrite E, N.eqb_refl. reflexivity.
  - destruct (N.eqb_spec (h_rev a) (h_rev b)); [lia|reflexivity].
  - destruct (N.eqb_spec (h_rev a) (h_rev b)); [lia|reflexivity].
Qed.

(** * The pruned height is the earliest stored one, and expired *)
Lemma prune_height_some cs s now p :
  prune_height cs s now = Ok (Some p) ->
  exists k v c, first_with_prefix iter_prefix s = Some (k, v) /\ height_from_iter_key k = Ok p /\
                get_cons s p = Ok c /\ c_time c + cs_trusting cs <= now.
Proof.
  unfold prune_height. destruct (first_with_prefix iter_prefix s) as [[k v]|]; [|discriminate].
  intro H. apply obind_ok in H as (ph & Hk & H). apply obind_ok in H as (c & Hc & H).
  unfold is_expired in H. destruct (c_time c + cs_trusting cs >? now) eqn:E; cbn in H; [discriminate|].
  inversion H; subst. exists k, v, c. repeat split; auto. lia.
Qed.

Lemma prune_is_earliest_expired cs s now p :
  sorted s -> prune_height cs s now = Ok (Some p) ->
  (exists c, get_cons s p = Ok c /\ c_time c + cs_trusting cs <= now) /\
  exists k v, In (k, v) s /\ is_prefix iter_prefix k = true /\ height_from_iter_key k = Ok p /\
    forall h', valid_height h' -> valid_height p -> k = iter_key p ->
               sget (iter_key h') s <> None -> h_lte p h' = true.
Proof.
  intros Hs H. apply prune_height_some in H as (k & v & c & F & Hk & Hc & He).
  split; [exists c; auto|].
  destruct (first_with_prefix_min _ _ _ _ Hs F) as (I & P & M).
  exists k, v. repeat split; auto.
  intros h' Vh' Vp -> Hg. destruct (sget (iter_key h') s) as [v'|] eqn:G; [|congruence].
  apply sget_In in G. destruct (M _ _ G (is_prefix_app iter_prefix (height_bytes h'))) as [E|L].
  - apply iter_key_inj in E; auto. subst. apply h_lte_refl.
  - rewrite iter_key_cmp in L by assumption. unfold h_lte. now rewrite L.
Qed.

(** * Well-formed stores: sorted, and every key with the iteration prefix is the
    iteration key of a height *)
Definition wf_iter_keys (s : store) : Prop :=
  forall k v, In (k, v) s -> is_prefix iter_prefix k = true -> exists h, valid_height h /\ k = iter_key h.

Lemma In_sset k0 v0 s k v : In (k, v) (sset k0 v0 s) -> (k, v) = (k0, v0) \/ In (k, v) s.
Proof.
  induction s as [|[k' v'] t IH]; cbn.
  - intros [E|[]]. left. congruence.
  - destruct (bytes_cmp k0 k'); cbn.
    + intros [E|I]; [left; congruence | auto].
    + intros [E|[E|I]]; [left; congruence | auto | auto].
    + intros [E|I]; [auto|]. destruct (IH I); auto.
Qed.

Lemma In_sdel k0 s k v : In (k, v) (sdel k0 s) -> In (k, v) s.
Proof.
  induction s as [|[k' v'] t IH]; cbn; [tauto|].
  destruct (bytes_eqb k0 k'); cbn; [auto|]. intros [E|I]; auto.
Qed.

Lemma wf_iter_keys_sset k0 v0 s :
  wf_iter_keys s -> (is_prefix iter_prefix k0 = true -> exists h, valid_height h /\ k0 = iter_key h) ->
  wf_iter_keys (sset k0 v0 s).
Proof.
  intros W H k v I P. apply In_sset in I as [E|I]; [inversion E; subst; auto | eauto].
Qed.

Lemma wf_iter_keys_sdel k0 s : wf_iter_keys s -> wf_iter_keys (sdel k0 s).
Proof. intros W k v I P. apply In_sdel in I. eauto. Qed.

Lemma cons_key_no_iter_prefix h : is_prefix iter_prefix (cons_key h) = false.
Proof. reflexivity. Qed.
Lemma pt_key_no_iter_prefix h : is_prefix iter_prefix (pt_key h) = false.
Proof. reflexivity. Qed.
Lemma client_key_no_iter_prefix : is_prefix iter_prefix client_key = false.
Proof. reflexivity. Qed.

Lemma parse_chain_id_bound s r : parse_chain_id s = Ok r -> (r < two64N)%N.
Proof.
  unfold parse_chain_id. destruct (is_revision_format s); [|intro H; inversion H; reflexivity].
  destruct (split_last_dash s) as [[a d]|]; [|intro H; inversion H; reflexivity].
  destruct (dec_parse d <? two64N)%N eqn:E; [|discriminate]. intro H; inversion H; subst. now apply N.ltb_lt.
Qed.

Section Preserved.
  Variable valset_hash : list (pubkey * Z) -> bytes.
  Variable header_hash : pheader -> bytes.
  Variable verify_sig : pubkey -> bytes -> pcommit -> nat -> bool.

  Lemma get_height_valid hdr hh : get_height hdr = Ok hh -> valid_height hh.
  Proof.
    intro H. apply get_height_ok in H as (sh & h & hrev & _ & _ & _ & Hp & ->).
    split; cbn; [eapply parse_chain_id_bound; eauto | apply u64_bound].
  Qed.

  (** both parts of well-formedness are invariants of UpdateClient, hence of every history *)
  Lemma update_client_preserves_wf s hdr now s' :
    sorted s -> wf_iter_keys s ->
    update_client valset_hash header_hash verify_sig s hdr now = Ok s' -> sorted s' /\ wf_iter_keys s'.
  Proof.
    intros Hs Hw H. apply update_client_ok in H as (cs & cs' & cons' & s1 & hh & _ & _ & Hch & Hh & ->).
    pose proof (get_height_valid _ _ Hh) as Vh.
    unfold check_header_and_update_state in Hch.
    apply obind_ok in Hch as (cons & _ & Hch). apply obind_ok in Hch as ([] & _ & Hch).
    apply obind_ok in Hch as (p & _ & Hch). apply obind_ok in Hch as (hh' & Hh' & Hch).
    apply obind_ok in Hch as (h & _ & Hch). inversion Hch; subst. rewrite Hh in Hh'. inversion Hh'; subst hh'.
    set (s0 := match p with Some ph => delete_consensus s ph | None => s end).
    assert (S0 : sorted s0 /\ wf_iter_keys s0).
    { unfold s0. destruct p as [ph|]; [|auto]. unfold delete_consensus.
      split; [auto using sorted_sdel | auto using wf_iter_keys_sdel]. }
    destruct S0 as [S0 W0]. unfold set_metadata. split.
    - auto using sorted_sset.
    - apply wf_iter_keys_sset; [|rewrite cons_key_no_iter_prefix; discriminate].
      apply wf_iter_keys_sset; [|rewrite client_key_no_iter_prefix; discriminate].
      apply wf_iter_keys_sset; [|intros _; exists hh; auto].
      apply wf_iter_keys_sset; [exact W0|rewrite pt_key_no_iter_prefix; discriminate].
  Qed.

  Lemma run_updates_preserves_wf ops : forall s,
    sorted s -> wf_iter_keys s ->
    sorted (run_updates valset_hash header_hash verify_sig s ops) /\
    wf_iter_keys (run_updates valset_hash header_hash verify_sig s ops).
  Proof.
    induction ops as [|[hdr now] ops IH]; intros s Hs Hw; cbn [run_updates]; [auto|].
    unfold deliver_update. destruct (update_client valset_hash header_hash verify_sig s hdr now) eqn:U; auto.
    destruct (update_client_preserves_wf _ _ _ _ Hs Hw U). auto.
  Qed.
End Preserved.

Lemma create_client_wf cs cons now : valid_height (cs_latest cs) ->
  sorted (create_client [] cs cons now) /\ wf_iter_keys (create_client [] cs cons now).
Proof.
  intro V. unfold create_client, set_metadata. split.
  - repeat apply sorted_sset. exact I.
  - apply wf_iter_keys_sset; [|rewrite cons_key_no_iter_prefix; discriminate].
    apply wf_iter_keys_sset; [|intros _; eauto].
    apply wf_iter_keys_sset; [|rewrite pt_key_no_iter_prefix; discriminate].
    apply wf_iter_keys_sset; [|rewrite client_key_no_iter_prefix; discriminate].
    intros k v [].
Qed.

(** * The monitor's "earliest height" agrees with the store's iteration order *)
Lemma h_lt_not_lte a b : h_lt a b = true -> h_lte b a = false.
Proof.
  intro H. apply h_lt_iff in H. destruct (h_lte b a) eqn:E; [|reflexivity].
  apply h_lte_le in E. unfold h_le in E. lia.
Qed.

Lemma h_lte_antisym a b : h_lte a b = true -> h_lte b a = true -> a = b.
Proof.
  rewrite !h_lte_le. unfold h_le. intros H1 H2. destruct a, b; cbn in *.
  assert (h_rev = h_rev0) by lia. assert (h_hgt = h_hgt0) by lia. congruence.
Qed.

Lemma h_lte_total_lt a b : h_lt a b = false -> h_lte b a = true.
Proof. apply h_lt_false_lte. Qed.

Lemma min_height_cons x l :
  min_height (x :: l) = match min_height l with
                        | None => Some x
                        | Some m => if h_lt x m then Some x else Some m
                        end.
Proof. reflexivity. Qed.

Lemma min_height_in l m : min_height l = Some m -> In m l.
Proof.
  revert m; induction l as [|x l IH]; intros m; [discriminate|]. rewrite min_height_cons.
  destruct (min_height l) as [m'|].
  - destruct (h_lt x m'); intro H; inversion H; subst; [left; reflexivity | right; apply IH; reflexivity].
  - intro H; inversion H; left; reflexivity.
Qed.

Lemma min_height_spec l m : In m l -> (forall x, In x l -> h_lte m x = true) -> min_height l = Some m.
Proof.
  induction l as [|x l IH]; intros I A; [destruct I|]. rewrite min_height_cons.
  destruct I as [->|I].
  - destruct (min_height l) as [m'|] eqn:E; [|reflexivity].
    pose proof (A m' (or_intror (min_height_in _ _ E))) as L.
    destruct (h_lt m m') eqn:LT; [reflexivity|].
    apply h_lt_false_lte in LT. f_equal. now apply h_lte_antisym.
  - rewrite (IH I (fun y Hy => A y (or_intror Hy))).
    destruct (h_lt x m) eqn:LT; [|reflexivity].
    apply h_lt_not_lte in LT. rewrite (A x (or_introl eq_refl)) in LT. discriminate.
Qed.

Lemma In_iter_heights s x :
  In x (iter_heights s) <-> exists k v, In (k, v) s /\ is_prefix iter_prefix k = true /\ height_from_iter_key k = Ok x.
Proof.
  unfold iter_heights. rewrite in_flat_map. split.
  - intros ([k v] & I & H). cbn [fst] in H. destruct (is_prefix iter_prefix k) eqn:P; [|destruct H].
    destruct (height_from_iter_key k) as [h| |] eqn:D; try destruct H as [<-|[]]; try destruct H. eauto 6.
  - intros (k & v & I & P & D). exists (k, v). split; [exact I|]. cbn [fst]. rewrite P, D. now left.
Qed.

Lemma earliest_agrees s :
  sorted s -> wf_iter_keys s ->
  min_height (iter_heights s) =
  match first_with_prefix iter_prefix s with
  | Some (k, _) => match height_from_iter_key k with Ok h => Some h | _ => None end
  | None => None
  end.
Proof.
  intros Hs Hw. destruct (first_with_prefix iter_prefix s) as [[k v]|] eqn:F.
  - destruct (first_with_prefix_min _ _ _ _ Hs F) as (I & P & M).
    destruct (Hw _ _ I P) as (p & Vp & ->). rewrite height_from_iter_key_iter_key by exact Vp.
    apply min_height_spec.
    + apply In_iter_heights. exists (iter_key p), v. repeat split; auto. now apply height_from_iter_key_iter_key.
    + intros x Hx. apply In_iter_heights in Hx as (k' & v' & I' & P' & D').
      destruct (Hw _ _ I' P') as (h' & Vh' & ->). rewrite height_from_iter_key_iter_key in D' by exact Vh'.
      inversion D'; subst x. destruct (M _ _ I' P') as [E|L].
      * apply iter_key_inj in E; auto. subst. apply h_lte_refl.
      * rewrite iter_key_cmp in L by assumption. unfold h_lte. now rewrite L.
  - destruct (min_height (iter_heights s)) as [m|] eqn:E; [|reflexivity].
    apply min_height_in, In_iter_heights in E as (k & v & I & P & _).
    rewrite (first_with_prefix_none _ _ F _ _ I) in P. discriminate.
Qed.

(** * Reflexivity of the observable equalities *)
Lemma h_eqb_refl a : h_eqb a a = true.
Proof. unfold h_eqb. now rewrite !N.eqb_refl. Qed.
Lemma client_eqb_refl a : client_eqb a a = true.
Proof. unfold client_eqb. now rewrite !bytes_eqb_refl, !N.eqb_refl, !Z.eqb_refl, h_eqb_refl. Qed.
Lemma cons_eqb_refl a : cons_eqb a a = true.
Proof. unfold cons_eqb. now rewrite !bytes_eqb_refl, Z.eqb_refl. Qed.
Lemma value_eqb_refl v : value_eqb v v = true.
Proof. destruct v; cbn; auto using client_eqb_refl, cons_eqb_refl, bytes_eqb_refl. Qed.
Lemma ovalue_eqb_refl v : ovalue_eqb v v = true.
Proof. destruct v; cbn; auto using value_eqb_refl. Qed.
Lemma store_eqb_refl s : store_eqb s s = true.
Proof. induction s as [|[k v] t IH]; cbn; [reflexivity|]. now rewrite bytes_eqb_refl, value_eqb_refl, IH. Qed.

Lemma with_latest_same cs : with_latest cs (cs_latest cs) = cs.
Proof. destruct cs; reflexivity. Qed.

(** * Proto validator lists *)
Lemma pk_from_proto_ok p k : pk_from_proto p = Ok k -> p = Some k.
Proof.
  unfold pk_from_proto. destruct p as [[[|[|t]] b]|]; try discriminate.
  - destruct (blen b =? 32); [intro H; inversion H; reflexivity | discriminate].
  - destruct (blen b =? 33); [intro H; inversion H; reflexivity | discriminate].
Qed.

Lemma vals_from_proto_plain l vals : vals_from_proto l = Ok vals ->
  flat_map (fun v => match v_pk v with Some pk => [(pk, v_power v)] | None => [] end) l = hash_input vals.
Proof.
  revert vals; induction l as [|v l IH]; intros vals H; cbn in H.
  - inversion H; reflexivity.
  - apply obind_ok in H as (x & Hx & H). apply obind_ok in H as (r & Hr & H). inversion H; subst.
    unfold validator_from_proto in Hx. apply obind_ok in Hx as (pk & Hpk & Hx). inversion Hx; subst.
    apply pk_from_proto_ok in Hpk. cbn. rewrite Hpk. cbn. now rewrite (IH _ Hr).
Qed.

Lemma valset_plain vp vals tot : valset_from_proto vp = Ok (vals, tot) -> plain_vals vp = hash_input vals.
Proof.
  intro H. apply valset_from_proto_ok in H as (p & -> & Hv & _). unfold plain_vals. now apply vals_from_proto_plain.
Qed.

(** * Under the table oracle a verified signature fixes the chain id *)
Lemma signed_own_from_zero verify_sig chain c :
  (forall pk i, verify_sig pk chain c i = false) ->
  forall l sigs i, signed_own_from verify_sig chain c i l sigs = 0.
Proof.
  intros Hf. induction l as [|v l IH]; intros sigs i; [reflexivity|]. destruct sigs as [|s sigs]; [reflexivity|].
  cbn. unfold signs. cbn. rewrite Hf, andb_false_r, IH. reflexivity.
Qed.

Lemma get_cons_ok s h c : get_cons s h = Ok c -> sget (cons_key h) s = Some (VCons c).
Proof. unfold get_cons. destruct (sget (cons_key h) s) as [[| |]|]; intro H; inversion H; reflexivity. Qed.

(** * Monitor soundness *)
Lemma mon_update_sound valid ot pre hdr now post :
  wf_header hdr -> sorted pre -> wf_iter_keys pre ->
  (forall cs, client_of pre = Some cs -> (cs_tl_num cs < 9223372036854775808)%N /\ (cs_tl_den cs < 9223372036854775808)%N) ->
  update_client (tab_valset_hash ot) (tab_header_hash ot) (tab_verify_sig ot) pre hdr now = Ok post ->
  mon_update valid pre post now hdr ot = [].
Proof.
  intros Hwf Hs Hw Htl H.
  pose proof (update_accept_sound _ _ _ _ _ _ _ Hwf H) as (cs & Ec & F).
  pose proof (update_exact _ _ _ _ _ _ _ H) as (cs0 & h0 & hh & pruned & Ec0 & Hph & Hgh & Hpr & Hk).
  rewrite Ec in Ec0. inversion Ec0; subst cs0.
  assert (Hco : client_of pre = Some cs) by (unfold client_of; now rewrite Ec).
  pose proof (update_latest _ _ _ _ _ _ _ _ Hco H) as (cs' & hh' & Hco' & Hgh' & _ & Hl' & Hle & _).
  rewrite Hgh in Hgh'. inversion Hgh'; subst hh'.
  pose proof (update_client_ok _ _ _ _ _ _ _ H) as (cs1 & _ & _ & _ & _ & Ec1 & Hst & _).
  rewrite Ec in Ec1. inversion Ec1; subst cs1.
  destruct (Htl cs Hco) as [Hnum Hden].
  destruct F as (tc & tvals & ttot & sh & h & c & vals & tot & hrev & F).
  destruct F as (Htc & Htv & Hth & Es & Eh & Ecm & Hov & Epc & Erev & Hlt & Hexp & Ht1 & Ht2 & Hchain & Hch & Hhh & Hvh & Hown & Hadj & Hnadj).
  apply get_height_ok in Hgh as (sh' & h' & hrev' & Es' & Eh' & Eph' & Epc' & Ehh).
  rewrite Es in Es'. inversion Es'; subst sh'. rewrite Eh in Eh'. inversion Eh'; subst h'.
  rewrite Epc in Epc'. inversion Epc'; subst hrev'.
  rewrite Eph' in Hph. inversion Hph; subst h0.
  destruct Hwf as [[_ Vth] Hr]. specialize (Hr sh h Es Eh).
  assert (Eu : u64 (hd_height h) = Z.to_N (hd_height h)).
  { apply u64_small. unfold max_int64, two64 in *. lia. }
  subst hh. rewrite Eu in Hk, Hl'.
  unfold mon_update. rewrite Hco, Es, Eh, Ecm, Epc.
  rewrite (valset_plain _ _ _ Htv), (valset_plain _ _ _ Hov).
  rewrite (get_cons_ok _ _ _ Htc).
  change (tab_header_hash ot h) with (ot_header_hash ot) in Hhh.
  (* 11 *)
  rewrite Hth, bytes_eqb_refl.
  (* 13 *)
  replace ((c_time tc + cs_trusting cs >? now) && (c_time tc <? hd_time h) && (hd_time h <? now + cs_drift cs)) with true by lia.
  (* 16 *)
  assert (C16 : (if (h_hgt (mkH hrev (u64 (hd_height h))) =? h_hgt (h_trusted_height hdr) + 1)%N
                 then if bytes_eqb (tab_valset_hash ot (hash_input vals)) (c_nvh tc) then [] else [16%nat]
                 else if negb valid || (Z.of_N (cs_tl_den cs) * signed_trusted (tab_verify_sig ot) (hd_chain_id h) c (hash_input tvals)
                         >? Z.of_N (cs_tl_num cs) * total_of (hash_input tvals)) then [] else [16%nat]) = (@nil nat)).
  { cbn [h_hgt]. rewrite Eu. destruct (N.eqb_spec (Z.to_N (hd_height h)) (h_hgt (h_trusted_height hdr) + 1)) as [A|A].
    - rewrite Hvh, Hadj by lia. now rewrite bytes_eqb_refl.
    - specialize (Hnadj ltac:(lia) Hnum Hden).
      destruct (Z.of_N (cs_tl_den cs) * signed_trusted (tab_verify_sig ot) (hd_chain_id h) c (hash_input tvals)
                >? Z.of_N (cs_tl_num cs) * total_of (hash_input tvals)) eqn:G; [now rewrite orb_true_r|lia]. }
  rewrite C16. clear C16.
  (* 12 *)
  cbn [h_rev h_hgt]. rewrite Eu.
  replace ((hrev =? h_rev (h_trusted_height hdr))%N && (h_hgt (h_trusted_height hdr) <? Z.to_N (hd_height h))%N && (0 <? hd_height h))
    with true by lia.
  (* 14: a verified signature under the table oracle fixes the chain id *)
  assert (Cch : bytes_eqb (hd_chain_id h) (ot_chain ot) = true).
  { destruct (bytes_eqb (hd_chain_id h) (ot_chain ot)) eqn:E; [reflexivity|]. exfalso.
    assert (Z0 : signed_own (tab_verify_sig ot) (hd_chain_id h) c (hash_input vals) = 0).
    { unfold signed_own. apply signed_own_from_zero. intros pk i. unfold tab_verify_sig. now rewrite E. }
    destruct (valset_from_proto_ok _ _ _ Hov) as (_ & _ & _ & _ & Hnv & _ & _).
    pose proof (total_of_nonneg vals Hnv). lia. }
  rewrite Hvh, Hhh, Hch, <- Hchain, Cch, !bytes_eqb_refl, Z.eqb_refl. cbn [andb app].
  (* 15 *)
  destruct (3 * signed_own (tab_verify_sig ot) (hd_chain_id h) c (hash_input vals) >? 2 * total_of (hash_input vals)) eqn:C15; [|lia].
  cbn [app].
  (* 19 *)
  unfold status_active in Hst. destruct (get_cons pre (cs_latest cs)) as [lc| |] eqn:Hlc; try discriminate.
  rewrite (get_cons_ok _ _ _ Hlc). unfold is_expired in Hst.
  destruct (c_time lc + cs_trusting cs >? now) eqn:C19; [|discriminate]. rewrite app_nil_r.
  (* 18 *)
  rewrite Hco', Hl', h_eqb_refl. rewrite Hl' in Hle. rewrite Hle. cbn [andb]. rewrite app_nil_r.
  (* 17 *)
  assert (Epr : match min_height (iter_heights pre) with
                | Some p => match sget (cons_key p) pre with
                            | Some (VCons pc) => if c_time pc + cs_trusting cs >? now then None else Some p
                            | _ => None
                            end
                | None => None
                end = pruned).
  { rewrite (earliest_agrees _ Hs Hw). unfold prune_height in Hpr.
    destruct (first_with_prefix iter_prefix pre) as [[k v]|]; [|inversion Hpr; reflexivity].
    apply obind_ok in Hpr as (ph & -> & Hpr). apply obind_ok in Hpr as (pc & Hpc & Hpr).
    rewrite (get_cons_ok _ _ _ Hpc). unfold is_expired in Hpr. inversion Hpr.
    destruct (c_time pc + cs_trusting cs >? now); reflexivity. }
  rewrite Epr.
  match goal with |- (if forallb ?f ?l then _ else _) = _ => assert (FA : forallb f l = true) end.
  { apply forallb_forall. intros k _. rewrite (Hk k).
    destruct (bytes_eqb k (cons_key (mkH hrev (Z.to_N (hd_height h))))); [apply ovalue_eqb_refl|].
    destruct (bytes_eqb k client_key).
    - destruct (h_gt (mkH hrev (Z.to_N (hd_height h))) (cs_latest cs)); [apply ovalue_eqb_refl|].
      rewrite with_latest_same. apply ovalue_eqb_refl.
    - destruct (bytes_eqb k (iter_key (mkH hrev (Z.to_N (hd_height h))))); [apply ovalue_eqb_refl|].
      destruct (bytes_eqb k (pt_key (mkH hrev (Z.to_N (hd_height h))))); [apply ovalue_eqb_refl|].
      destruct pruned as [p|]; cbn [in_pruned]; [|apply ovalue_eqb_refl].
      destruct (bytes_eqb k (cons_key p) || bytes_eqb k (pt_key p) || bytes_eqb k (iter_key p)); apply ovalue_eqb_refl. }
  rewrite FA. reflexivity.
Qed.

(** [now] is a block time after 1970 that fits uint64 nanoseconds; processed times
    are stored as 8 bytes (the only writer is setConsensusMetadata) *)
Lemma mon_verify_sound decodes member cs pre now h (proof_nil : bool) ack path val :
  client_of pre = Some cs -> (cs_delay cs < two64N)%N -> 0 <= now < two64 ->
  (forall b, sget (pt_key h) pre = Some (VBytes b) -> length b = 8%nat) ->
  verify_packet (fun _ => decodes) (fun _ _ _ _ _ _ => member) cs pre now h
                (if proof_nil then None else Some []) ack path val = Ok tt ->
  mon_verify pre pre now h proof_nil decodes member = [].
Proof.
  intros Hco Hd Hnow H8 H.
  apply verify_packet_gates in H as (L & cons & pf & pt & Hc & Hp & Hdc & Hm & Hpt & Hle); [|exact Hd].
  unfold mon_verify. rewrite Hco, L, (get_cons_ok _ _ _ Hc). cbn [app].
  destruct proof_nil; [discriminate|]. rewrite Hdc, Hm. cbn [negb andb app]. rewrite store_eqb_refl.
  unfold get_processed_time in Hpt. destruct (sget (pt_key h) pre) as [[c0|c0|b]|] eqn:G; try discriminate.
  specialize (H8 b eq_refl). inversion Hpt as [E]. clear Hpt.
  destruct b as [|x b]; [discriminate|].
  unfold be_uint64 in E. rewrite H8 in E. cbn [Nat.ltb Nat.leb] in E.
  rewrite firstn_all2 in E by lia. inversion E; subst pt.
  rewrite H8, Nat.eqb_refl. cbn [andb].
  rewrite u64_small in Hle by exact Hnow.
  destruct (Z.of_N (be_decode (x :: b)) + Z.of_N (cs_delay cs) <=? now) eqn:C; [reflexivity|lia].
Qed.
